// tiny deterministic PRNG (xorshift64*), so the harness needs no extra crates
pub struct Rng(pub u64);
impl Rng {
    pub fn new(seed: u64) -> Rng {
        Rng(seed.wrapping_mul(0x9E3779B97F4A7C15) ^ 0xD1B54A32D192ED03 | 1)
    }
    pub fn next(&mut self) -> u64 {
        let mut x = self.0;
        x ^= x >> 12;
        x ^= x << 25;
        x ^= x >> 27;
        self.0 = x;
        x.wrapping_mul(0x2545F4914F6CDD1D)
    }
    pub fn below(&mut self, n: usize) -> usize {
        if n == 0 { 0 } else { (self.next() % n as u64) as usize }
    }
    pub fn chance(&mut self, num: u64, den: u64) -> bool {
        self.next() % den < num
    }
}
