// C18 (flow R): replay of PathNorm.tla on ModulePath::resolve.
// stdin: raw TLC output; every line `<<"P", "<json>">>` is one enumerated input
//        {spec:{abs,segs}, imp:{abs,segs}|NoImporter, res:{abs,segs}} with the spec's expected result.
// stdout: non-P TLC lines are passed through prefixed "TLC: "; mismatches as "MISMATCH <json>";
//         a final "SUMMARY <json>" line.
use std::io::{BufRead, Write};
use tsrun::ModulePath;

fn text(p: &serde_json::Value) -> String {
    let abs = p["abs"].as_bool().unwrap_or(false);
    let segs: Vec<&str> = p["segs"]
        .as_array()
        .map(|a| a.iter().map(|s| s.as_str().unwrap_or("")).collect())
        .unwrap_or_default();
    format!("{}{}", if abs { "/" } else { "" }, segs.join("/"))
}

pub fn parse_tlc_print<'a>(line: &'a str, tag: &str) -> Option<serde_json::Value> {
    let prefix = format!("<<\"{}\", ", tag);
    let rest = line.strip_prefix(&prefix)?;
    let rest = rest.trim_end().strip_suffix(">>")?;
    let js: String = serde_json::from_str(rest).ok()?;
    serde_json::from_str(&js).ok()
}

pub fn main(_args: &[String]) -> i32 {
    let stdin = std::io::stdin();
    let out = std::io::stdout();
    let mut out = std::io::BufWriter::new(out.lock());
    let (mut n, mut bad, mut nontrivial) = (0u64, 0u64, 0u64);
    let mut samples: Vec<serde_json::Value> = Vec::new();
    for line in stdin.lock().lines() {
        let Ok(line) = line else { break };
        let Some(j) = parse_tlc_print(&line, "P") else {
            let _ = writeln!(out, "TLC: {}", line);
            continue;
        };
        let spec = text(&j["spec"]);
        let none = j["imp"]["segs"].get(0).and_then(|s| s.as_str()) == Some("<none>");
        let imp = if none { None } else { Some(text(&j["imp"])) };
        let want = text(&j["res"]);
        let r = std::panic::catch_unwind(|| {
            let base = imp.as_ref().map(|s| ModulePath::new(s.clone()));
            let r1 = ModulePath::resolve(&spec, base.as_ref());
            let r2 = ModulePath::resolve(r1.as_str(), base.as_ref());
            (r1.as_str().to_string(), r2.as_str().to_string())
        });
        n += 1;
        if want != spec {
            nontrivial += 1;
        }
        let rec = |got: &str, again: &str| serde_json::json!({"specifier": spec, "importer": imp, "expected": want, "got": got, "again": again});
        match r {
            Ok((a, b)) => {
                // idempotence is only claimed for non-bare results (PathNorm!Idempotent)
                let idem_ok = b == a;
                if a != want || !idem_ok {
                    bad += 1;
                    let _ = writeln!(out, "MISMATCH {}", rec(&a, &b));
                } else if samples.len() < 8 && want != spec && n % 1013 == 1 {
                    samples.push(rec(&a, &b));
                }
            }
            Err(_) => {
                bad += 1;
                let _ = writeln!(out, "MISMATCH {}", rec("<panic>", ""));
            }
        }
    }
    let _ = writeln!(
        out,
        "SUMMARY {}",
        serde_json::json!({"inputs": n, "mismatches": bad, "nontrivial": nontrivial, "samples": samples})
    );
    0
}
