// C11 / C14 (flow T): several runs on ONE interpreter; after every run the H4 ledger, call depth and live-object count
// are recorded, then an observer program runs.  Events follow LifecycleTrace.tla.
// stdin : ndjson jobs {id, runs:[{source, path|null, mode:"complete"|"abandon", abandon_after, resp}], gc}
// stdout: one ndjson line per job {id, ev:[...]}
use crate::prog::{new_interpreter, run_source_api};
use std::io::{BufRead, Write};
use tsrun::{ModulePath, StepResult};

fn ledger(it: &tsrun::Interpreter) -> serde_json::Value {
    #[cfg(tsrun_verif)]
    { let l = it.verif_ledger(); return serde_json::json!(l.to_vec()); }
    #[cfg(not(tsrun_verif))]
    { let _ = it; serde_json::json!([]) }
}

fn run_job(j: &serde_json::Value) -> serde_json::Value {
    let mut it = new_interpreter();
    if let Some(t) = j["gc"].as_u64() { it.set_gc_threshold(t as usize); }
    let mut ev: Vec<serde_json::Value> = Vec::new();
    it.collect();
    ev.push(serde_json::json!({"e": "fresh", "ledger": ledger(&it), "depth": it.call_depth(), "live": it.gc_stats().live_objects}));
    for run in j["runs"].as_array().cloned().unwrap_or_default() {
        let src = run["source"].as_str().unwrap_or("").to_string();
        let path = run["path"].as_str().map(|s| s.to_string());
        let mode = run["mode"].as_str().unwrap_or("complete").to_string();
        let resp: Vec<serde_json::Value> = run["resp"].as_array().cloned().unwrap_or_default();
        let role = run["role"].as_str().unwrap_or("run").to_string();
        if mode == "abandon" {
            // the host stops stepping after `abandon_after` steps
            let n = run["abandon_after"].as_u64().unwrap_or(1);
            let mut r = it.prepare(&src, path.as_deref().map(ModulePath::new));
            let mut k = 0u64;
            let mut status = "ABANDONED".to_string();
            while k < n {
                match r {
                    Ok(StepResult::Continue) => { r = it.step(); k += 1; }
                    Ok(StepResult::Suspended { .. }) => { status = "ABANDONED-SUSPENDED".into(); break; }
                    Ok(_) => { status = "FINISHED-EARLY".into(); break; }
                    Err(_) => { status = "ERROR-EARLY".into(); break; }
                }
            }
            ev.push(serde_json::json!({"e": "end", "role": role, "mode": mode, "status": status, "steps": k, "ledger": ledger(&it), "depth": it.call_depth()}));
        } else {
            let o = run_source_api(&mut it, &src, path.as_deref(), &resp, run["host_mode"].as_str().unwrap_or("immediate"), 0, 300_000, run["api"] == "eval");
            let mut exports = tsrun::api::get_export_names(&it); exports.sort();
            ev.push(serde_json::json!({"e": "end", "role": role, "mode": mode, "status": o.status, "steps": o.steps, "events": o.ev, "err": o.err,
                "ledger": ledger(&it), "depth": it.call_depth(), "exports": exports}));
        }
        it.collect();
        ev.push(serde_json::json!({"e": "collect", "live": it.gc_stats().live_objects}));
    }
    serde_json::json!({"id": j["id"], "ev": ev})
}

pub fn main(_args: &[String]) -> i32 {
    let stdin = std::io::stdin();
    let out = std::io::stdout();
    let mut out = out.lock();
    for line in stdin.lock().lines() {
        let Ok(line) = line else { break };
        if line.trim().is_empty() { continue; }
        let Ok(j) = serde_json::from_str::<serde_json::Value>(&line) else { eprintln!("bad job"); return 2; };
        let r = std::panic::catch_unwind(std::panic::AssertUnwindSafe(|| run_job(&j)));
        let rec = match r { Ok(v) => v, Err(_) => serde_json::json!({"id": j["id"], "ev": [{"e": "panic"}]}) };
        let _ = writeln!(out, "{}", rec);
        let _ = out.flush();
    }
    0
}
