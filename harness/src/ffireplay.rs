// C17 (flow R): FfiHandles.tla behaviours against the real extern "C" symbols of the C API.
// stdin : ndjson jobs {id, hist:[{op, ...}]}          (TLC's history records, see the specification)
// stdout: {id, ok, diffs:[..], stale:[..], calls}
// Every result the API returns is compared with the expectation carried by the behaviour; returned strings are
// checked to be NUL-terminated valid UTF-8 of the announced length.  The same source is built a second time with
// AddressSanitizer (tools/checks/c17.py): there the process dies on the first invalid access and the job is reported
// as a crash with the sanitizer's report.
use std::collections::HashMap;
use std::ffi::{c_char, c_void, CStr, CString};
use std::io::{BufRead, Write};
use tsrun::ffi::{TsRunContext, TsRunOrderResponse, TsRunResult, TsRunStepResult, TsRunStepStatus, TsRunType, TsRunValue, TsRunValueResult};

type NativeFn = extern "C" fn(*mut TsRunContext, *mut TsRunValue, *mut *mut TsRunValue, usize, *mut c_void, *mut *const c_char) -> *mut TsRunValue;

unsafe extern "C" {
    fn tsrun_new() -> *mut TsRunContext;
    fn tsrun_free(ctx: *mut TsRunContext);
    fn tsrun_prepare(ctx: *mut TsRunContext, code: *const c_char, path: *const c_char) -> TsRunResult;
    fn tsrun_run(out: *mut TsRunStepResult, ctx: *mut TsRunContext);
    fn tsrun_step_result_free(r: *mut TsRunStepResult);
    fn tsrun_typeof(v: *const TsRunValue) -> TsRunType;
    fn tsrun_is_undefined(v: *const TsRunValue) -> bool;
    fn tsrun_is_null(v: *const TsRunValue) -> bool;
    fn tsrun_is_nullish(v: *const TsRunValue) -> bool;
    fn tsrun_is_boolean(v: *const TsRunValue) -> bool;
    fn tsrun_is_number(v: *const TsRunValue) -> bool;
    fn tsrun_is_string(v: *const TsRunValue) -> bool;
    fn tsrun_is_object(v: *const TsRunValue) -> bool;
    fn tsrun_is_array(v: *const TsRunValue) -> bool;
    fn tsrun_is_function(v: *const TsRunValue) -> bool;
    fn tsrun_get_bool(v: *const TsRunValue) -> bool;
    fn tsrun_get_number(v: *const TsRunValue) -> f64;
    fn tsrun_get_string(v: *const TsRunValue) -> *const c_char;
    fn tsrun_get_string_len(v: *const TsRunValue) -> usize;
    fn tsrun_undefined(ctx: *mut TsRunContext) -> *mut TsRunValue;
    fn tsrun_null(ctx: *mut TsRunContext) -> *mut TsRunValue;
    fn tsrun_boolean(ctx: *mut TsRunContext, b: bool) -> *mut TsRunValue;
    fn tsrun_number(ctx: *mut TsRunContext, n: f64) -> *mut TsRunValue;
    fn tsrun_string(ctx: *mut TsRunContext, s: *const c_char) -> *mut TsRunValue;
    fn tsrun_object_new(ctx: *mut TsRunContext) -> TsRunValueResult;
    fn tsrun_array_new(ctx: *mut TsRunContext) -> TsRunValueResult;
    fn tsrun_value_free(v: *mut TsRunValue);
    fn tsrun_value_dup(ctx: *mut TsRunContext, v: *const TsRunValue) -> *mut TsRunValue;
    fn tsrun_get(ctx: *mut TsRunContext, obj: *mut TsRunValue, key: *const c_char) -> TsRunValueResult;
    fn tsrun_set(ctx: *mut TsRunContext, obj: *mut TsRunValue, key: *const c_char, val: *mut TsRunValue) -> TsRunResult;
    fn tsrun_has(ctx: *mut TsRunContext, obj: *mut TsRunValue, key: *const c_char) -> bool;
    fn tsrun_keys(ctx: *mut TsRunContext, obj: *mut TsRunValue, count_out: *mut usize) -> *mut *mut c_char;
    fn tsrun_free_strings(strings: *mut *mut c_char, count: usize);
    fn tsrun_array_len(arr: *const TsRunValue) -> usize;
    fn tsrun_array_get(ctx: *mut TsRunContext, arr: *mut TsRunValue, index: usize) -> TsRunValueResult;
    fn tsrun_array_push(ctx: *mut TsRunContext, arr: *mut TsRunValue, val: *mut TsRunValue) -> TsRunResult;
    fn tsrun_array_set(ctx: *mut TsRunContext, arr: *mut TsRunValue, index: usize, val: *mut TsRunValue) -> TsRunResult;
    fn tsrun_create_pending_order(ctx: *mut TsRunContext, payload: *mut TsRunValue, order_id_out: *mut u64) -> TsRunValueResult;
    fn tsrun_call(ctx: *mut TsRunContext, func: *mut TsRunValue, this_arg: *mut TsRunValue, args: *mut *mut TsRunValue, argc: usize) -> TsRunValueResult;
    fn tsrun_set_global(ctx: *mut TsRunContext, name: *const c_char, val: *mut TsRunValue) -> TsRunResult;
    fn tsrun_native_function(ctx: *mut TsRunContext, name: *const c_char, func: NativeFn, arity: usize, userdata: *mut c_void) -> TsRunValueResult;
    fn tsrun_json_stringify(ctx: *mut TsRunContext, val: *mut TsRunValue) -> *mut c_char;
    fn tsrun_free_string(s: *mut c_char);
    fn tsrun_fulfill_orders(ctx: *mut TsRunContext, responses: *const TsRunOrderResponse, count: usize) -> TsRunResult;
    fn tsrun_verif_collect(ctx: *mut TsRunContext);
    fn tsrun_verif_set_gc_threshold(ctx: *mut TsRunContext, n: usize);
}

const N1: f64 = 11.5;
const N2: f64 = -3.0;
const S1: &str = "h\u{e9}llo \u{1F600}";
const S2: &str = "";

fn cs(s: &str) -> CString { CString::new(s).unwrap_or_default() }

/// a returned C string: NUL-terminated (CStr::from_ptr finds the terminator), valid UTF-8
unsafe fn read_c(p: *const c_char, what: &str, diffs: &mut Vec<String>) -> Option<String> {
    if p.is_null() { return None; }
    match unsafe { CStr::from_ptr(p) }.to_str() {
        Ok(s) => Some(s.to_string()),
        Err(_) => { diffs.push(format!("{what}: returned string is not valid UTF-8")); None }
    }
}

/// reads a value back through the API into the specification's tree form
unsafe fn read_tree(ctx: *mut TsRunContext, v: *mut TsRunValue, depth: usize, diffs: &mut Vec<String>) -> serde_json::Value {
    use serde_json::json;
    unsafe {
        if v.is_null() { return json!({"k": "NULL"}); }
        match tsrun_typeof(v) {
            TsRunType::Undefined => json!({"k": "undef", "a": "", "ks": [], "vs": []}),
            TsRunType::Null => json!({"k": "null", "a": "", "ks": [], "vs": []}),
            TsRunType::Boolean => json!({"k": "bool", "a": if tsrun_get_bool(v) { "t" } else { "f" }, "ks": [], "vs": []}),
            TsRunType::Number => { let n = tsrun_get_number(v); json!({"k": "num", "a": if n == N1 { "n1".to_string() } else if n == N2 { "n2".to_string() } else { format!("{n}") }, "ks": [], "vs": []}) }
            TsRunType::String => {
                let p = tsrun_get_string(v);
                let s = read_c(p, "tsrun_get_string", diffs).unwrap_or_else(|| "<NULL>".into());
                if tsrun_get_string_len(v) != s.len() { diffs.push(format!("tsrun_get_string_len {} but the string has {} bytes", tsrun_get_string_len(v), s.len())); }
                json!({"k": "str", "a": if s == S1 { "s1".to_string() } else if s == S2 { "s2".to_string() } else { s }, "ks": [], "vs": []})
            }
            TsRunType::Symbol => json!({"k": "sym"}),
            TsRunType::Object => {
                if tsrun_is_function(v) { return json!({"k": "fn", "a": "", "ks": [], "vs": []}); }
                if depth == 0 { return json!({"k": if tsrun_is_array(v) { "arr" } else { "obj" }, "a": "", "ks": [], "vs": []}); }
                if tsrun_is_array(v) {
                    let n = tsrun_array_len(v);
                    let mut vs = Vec::new();
                    for i in 0..n.min(8) {
                        let r = tsrun_array_get(ctx, v, i);
                        vs.push(read_tree(ctx, r.value, depth - 1, diffs));
                        tsrun_value_free(r.value);
                    }
                    json!({"k": "arr", "a": "", "ks": [], "vs": vs})
                } else {
                    let mut count = 0usize;
                    let ks = tsrun_keys(ctx, v, &mut count);
                    let mut names = Vec::new(); let mut vs = Vec::new();
                    for i in 0..count {
                        let kp = *ks.add(i);
                        let name = read_c(kp, "tsrun_keys", diffs).unwrap_or_default();
                        let r = tsrun_get(ctx, v, kp);
                        vs.push(read_tree(ctx, r.value, depth - 1, diffs));
                        tsrun_value_free(r.value);
                        names.push(name);
                    }
                    tsrun_free_strings(ks, count);
                    json!({"k": "obj", "a": "", "ks": names, "vs": vs})
                }
            }
        }
    }
}

fn same_tree(exp: &serde_json::Value, got: &serde_json::Value) -> bool {
    if exp["k"] != got["k"] || exp["a"] != got["a"] { return false; }
    let (ek, gk) = (exp["ks"].as_array().cloned().unwrap_or_default(), got["ks"].as_array().cloned().unwrap_or_default());
    let (ev, gv) = (exp["vs"].as_array().cloned().unwrap_or_default(), got["vs"].as_array().cloned().unwrap_or_default());
    if ev.len() != gv.len() { return false; }
    if exp["k"] == "obj" {
        if ek.len() != gk.len() { return false; }
        for (i, k) in ek.iter().enumerate() {
            let Some(j) = gk.iter().position(|x| x == k) else { return false };
            if !same_tree(&ev[i], &gv[j]) { return false; }
        }
        true
    } else { ev.iter().zip(gv.iter()).all(|(a, b)| same_tree(a, b)) }
}

/// the JSON text expected from tsrun_json_stringify for a tree
fn tree_json(t: &serde_json::Value, top: bool) -> Option<serde_json::Value> {
    use serde_json::Value as V;
    match t["k"].as_str().unwrap_or("") {
        "undef" | "fn" => if top { Some(V::Null) } else { None },
        "null" => Some(V::Null),
        "bool" => Some(V::Bool(t["a"] == "t")),
        "num" => Some(serde_json::json!(if t["a"] == "n1" { N1 } else { N2 })),
        "str" => Some(V::String(match t["a"].as_str().unwrap_or("") { "s1" => S1.into(), "s2" => S2.into(), o => o.to_string() })),
        "arr" => Some(V::Array(t["vs"].as_array().map(|a| a.iter().map(|x| tree_json(x, false).unwrap_or(V::Null)).collect()).unwrap_or_default())),
        "obj" => { let mut m = serde_json::Map::new(); for (k, x) in t["ks"].as_array().cloned().unwrap_or_default().iter().zip(t["vs"].as_array().cloned().unwrap_or_default().iter()) { if let Some(j) = tree_json(x, false) { m.insert(k.as_str().unwrap_or("").to_string(), j); } } Some(V::Object(m)) }
        _ => None,
    }
}

fn json_eq(a: &serde_json::Value, b: &serde_json::Value) -> bool {
    use serde_json::Value as V;
    match (a, b) {
        (V::Number(x), V::Number(y)) => x.as_f64() == y.as_f64(),
        (V::Array(x), V::Array(y)) => x.len() == y.len() && x.iter().zip(y.iter()).all(|(p, q)| json_eq(p, q)),
        (V::Object(x), V::Object(y)) => x.len() == y.len() && x.iter().all(|(k, p)| y.get(k).map(|q| json_eq(p, q)).unwrap_or(false)),
        _ => a == b,
    }
}

thread_local! { static VARIANT: std::cell::Cell<u32> = const { std::cell::Cell::new(0) }; }
const VARIANTS: [&str; 10] = ["new-number", "new-object", "dup-arg", "null", "error", "reenter-get", "reenter-call", "return-arg", "return-this", "make-order"];

extern "C" fn native_cb(ctx: *mut TsRunContext, this: *mut TsRunValue, args: *mut *mut TsRunValue, argc: usize, _ud: *mut c_void, error_out: *mut *const c_char) -> *mut TsRunValue {
    unsafe {
        let a0 = if argc > 0 { *args } else { std::ptr::null_mut() };
        let a1 = if argc > 1 { *args.add(1) } else { std::ptr::null_mut() };
        match VARIANTS[VARIANT.with(|v| v.get()) as usize % VARIANTS.len()] {
            "new-number" => tsrun_number(ctx, argc as f64),
            "new-object" => { let o = tsrun_object_new(ctx).value; tsrun_set(ctx, o, c"k".as_ptr(), a0); tsrun_verif_collect(ctx); o }
            "dup-arg" => tsrun_value_dup(ctx, a1),
            "null" => std::ptr::null_mut(),
            "error" => { *error_out = c"native failed".as_ptr(); std::ptr::null_mut() }
            "reenter-get" => { tsrun_verif_collect(ctx); tsrun_get(ctx, a1, c"a".as_ptr()).value }
            "reenter-call" => {
                let f = tsrun_get(ctx, a1, c"f".as_ptr());
                let mut argv = [a0];
                let r = tsrun_call(ctx, f.value, std::ptr::null_mut(), argv.as_mut_ptr(), 1);
                tsrun_value_free(f.value);
                r.value
            }
            "return-this" => this,      // fluent style: hands its `this` handle back
            "make-order" => {
                // the pattern of examples/c-embedding/async_orders.c: build the payload, create the order, release the payload handle
                let o = tsrun_object_new(ctx).value;
                let t = tsrun_string(ctx, c"fetch".as_ptr());
                tsrun_set(ctx, o, c"type".as_ptr(), t);
                tsrun_set(ctx, o, c"n".as_ptr(), a0);
                let mut id = 0u64;
                let p = tsrun_create_pending_order(ctx, o, &mut id);
                tsrun_value_free(t); tsrun_value_free(o);
                p.value
            }
            _ => a0,        // "return-arg": hands one of its argument handles back
        }
    }
}

fn native_expect(variant: &str) -> serde_json::Value {
    use serde_json::json;
    let leaf = |k: &str, a: &str| json!({"k": k, "a": a, "ks": [], "vs": []});
    match variant {
        "new-number" => leaf("num", "2"),
        "new-object" => json!({"k": "obj", "a": "", "ks": ["k"], "vs": [leaf("num", "7")]}),
        "dup-arg" => json!({"k": "obj", "a": "", "ks": ["a", "f"], "vs": [leaf("num", "1"), leaf("fn", "")]}),
        "null" => leaf("undef", ""),
        "error" => leaf("str", "caught"),
        "reenter-get" => leaf("num", "1"),
        "reenter-call" => leaf("num", "8"),
        "return-this" => json!({"k": "obj", "a": "", "ks": ["m", "q"], "vs": [leaf("fn", ""), leaf("num", "5")]}),
        _ => leaf("num", "7"),
    }
}

const ORDER_SRC: &str = "import { order } from \"tsrun:host\";\nlet out: any;\ntry { out = await order(\"p\"); } catch (e) { out = \"caught\"; }\nout;\n";
const NATIVE_SRC: &str = "let r: any;\nconst holder: any = { m: nat, q: 5 };\ntry { r = holder.m(7, { a: 1, f: function (x: number) { return x + 1; } }); } catch (e) { r = \"caught\"; }\nr;\n";
const NATIVE_ORDER_SRC: &str = "let out: any;\ntry { out = await nat(7); } catch (e) { out = \"caught\"; }\nout;\n";
const READ_SRC: &str = "(typeof g === \"undefined\") ? undefined : g;\n";

struct World { ctx: HashMap<u64, *mut TsRunContext>, val: HashMap<u64, *mut TsRunValue>, order: HashMap<u64, u64>, nat: HashMap<u64, bool>, payload: HashMap<u64, *mut TsRunValue>, calls: u64 }

unsafe fn run_to(ctx: *mut TsRunContext) -> TsRunStepResult {
    let mut sr = std::mem::MaybeUninit::<TsRunStepResult>::uninit();
    unsafe { tsrun_run(sr.as_mut_ptr(), ctx); sr.assume_init() }
}

unsafe fn check_err(r_ok: bool, err: *const c_char, exp: &str, what: &str, diffs: &mut Vec<String>) {
    let msg = unsafe { read_c(err, what, diffs) };
    match exp {
        "ok" => if !r_ok { diffs.push(format!("{what}: expected success, got error {:?}", msg)); },
        "error" => { if r_ok { diffs.push(format!("{what}: misuse was not reported (ok = true)")); } else if msg.as_deref().unwrap_or("").is_empty() { diffs.push(format!("{what}: failure without an error string")); } }
        _ => {}
    }
}

unsafe fn exec(w: &mut World, e: &serde_json::Value, diffs: &mut Vec<String>) {
    let op = e["op"].as_str().unwrap_or("");
    let c = e["c"].as_u64().unwrap_or(0);
    let h = e["h"].as_u64().unwrap_or(0);
    let ctx = w.ctx.get(&c).copied().unwrap_or(std::ptr::null_mut());
    let hv = w.val.get(&h).copied().unwrap_or(std::ptr::null_mut());
    let exp = e["exp"].as_str().unwrap_or("");
    w.calls += 1;
    unsafe {
        match op {
            "new" => { let p = tsrun_new(); if p.is_null() { diffs.push("tsrun_new returned NULL".into()); } tsrun_verif_set_gc_threshold(p, 100); w.ctx.insert(c, p); }
            "freectx" => { tsrun_free(ctx); w.ctx.remove(&c); w.order.remove(&c); w.nat.remove(&c); w.payload.remove(&c); }
            "prim" => {
                let a = e["a"].as_str().unwrap_or("");
                let p = match e["k"].as_str().unwrap_or("") {
                    "undef" => tsrun_undefined(ctx), "null" => tsrun_null(ctx), "bool" => tsrun_boolean(ctx, true),
                    "num" => tsrun_number(ctx, if a == "n1" { N1 } else { N2 }),
                    _ => { let s = cs(if a == "s1" { S1 } else { S2 }); tsrun_string(ctx, s.as_ptr()) }
                };
                if exp == "null-handle" { if !p.is_null() { diffs.push("constructor with a NULL context returned a handle".into()); tsrun_value_free(p); } }
                else if p.is_null() { diffs.push(format!("constructor {} returned NULL", e["k"])); } else { w.val.insert(h, p); }
            }
            "mkobj" => {
                let r = if e["t"] == "arr" { tsrun_array_new(ctx) } else { tsrun_object_new(ctx) };
                if r.value.is_null() { let m = read_c(r.error, "error", diffs); diffs.push(format!("{} failed: {:?}", op, m)); } else { w.val.insert(h, r.value); }
            }
            "free" => { tsrun_value_free(hv); w.val.remove(&h); }
            "dup" => { let p = tsrun_value_dup(ctx, hv); if p.is_null() { diffs.push("tsrun_value_dup returned NULL".into()); } else { w.val.insert(e["h2"].as_u64().unwrap_or(0), p); } }
            "inspect" => {
                let ty = tsrun_typeof(hv);
                let flags = (tsrun_is_undefined(hv), tsrun_is_null(hv), tsrun_is_nullish(hv), tsrun_is_boolean(hv), tsrun_is_number(hv), tsrun_is_string(hv), tsrun_is_object(hv), tsrun_is_array(hv), tsrun_is_function(hv));
                let (b, n, sp, sl, al) = (tsrun_get_bool(hv), tsrun_get_number(hv), tsrun_get_string(hv), tsrun_get_string_len(hv), tsrun_array_len(hv));
                let s = read_c(sp, "tsrun_get_string", diffs);
                let k = e["k"].as_str().unwrap_or(""); let a = e["a"].as_str().unwrap_or("");
                match exp {
                    "null-defaults" => { if ty != TsRunType::Undefined || !flags.0 || flags.1 || !flags.2 || flags.3 || flags.4 || flags.5 || flags.6 || flags.7 || flags.8 || b || !n.is_nan() || s.is_some() || sl != 0 || al != 0 { diffs.push("inspectors on NULL do not return their documented defaults".into()); } }
                    "exact" => {
                        let want = match k { "undef" => TsRunType::Undefined, "null" => TsRunType::Null, "bool" => TsRunType::Boolean, "num" => TsRunType::Number, "str" => TsRunType::String, _ => TsRunType::Object };
                        if ty != want { diffs.push(format!("tsrun_typeof: {:?}, the handle denotes {k}", ty)); }
                        if flags.7 != (k == "arr") || flags.6 != matches!(k, "obj" | "arr" | "fn") || flags.4 != (k == "num") || flags.5 != (k == "str") { diffs.push(format!("tsrun_is_* disagree with kind {k}: {:?}", flags)); }
                        if k == "num" && n != (if a == "n1" { N1 } else { N2 }) { diffs.push(format!("tsrun_get_number {n}")); }
                        if k == "str" { let wants = if a == "s1" { S1 } else { S2 }; if s.as_deref() != Some(wants) || sl != wants.len() { diffs.push(format!("tsrun_get_string {:?} (len {sl}), expected {:?}", s, wants)); } }
                        if k == "bool" && !b { diffs.push("tsrun_get_bool false".into()); }
                        if k == "arr" && al as u64 != e["n"].as_u64().unwrap_or(0) { diffs.push(format!("tsrun_array_len {al}, expected {}", e["n"])); }
                    }
                    _ => {}      // "harmless": results unconstrained
                }
            }
            "set" => { let key = cs(e["key"].as_str().unwrap_or("")); let v = w.val.get(&e["hv"].as_u64().unwrap_or(0)).copied().unwrap_or(std::ptr::null_mut()); let r = tsrun_set(ctx, hv, key.as_ptr(), v); check_err(r.ok, r.error, exp, "tsrun_set", diffs); }
            "setnull" => {
                let r = match e["which"].as_str().unwrap_or("") {
                    "object" => tsrun_set(ctx, std::ptr::null_mut(), c"a".as_ptr(), hv),
                    "value" => tsrun_set(ctx, hv, c"a".as_ptr(), std::ptr::null_mut()),
                    "key" => tsrun_set(ctx, hv, std::ptr::null(), hv),
                    _ => tsrun_set(std::ptr::null_mut(), hv, c"a".as_ptr(), hv),
                };
                check_err(r.ok, r.error, "error", "tsrun_set with a NULL argument", diffs);
                let rp = tsrun_array_push(ctx, hv, std::ptr::null_mut()); check_err(rp.ok, rp.error, "error", "tsrun_array_push with a NULL value", diffs);
                let rs = tsrun_array_set(ctx, hv, 0, std::ptr::null_mut()); check_err(rs.ok, rs.error, "error", "tsrun_array_set with a NULL value", diffs);
                let r2 = tsrun_get(ctx, std::ptr::null_mut(), c"a".as_ptr());
                if !r2.value.is_null() || r2.error.is_null() { diffs.push("tsrun_get(NULL object) did not fail".into()); }
                let _ = tsrun_has(ctx, std::ptr::null_mut(), c"a".as_ptr());
                let p = tsrun_json_stringify(std::ptr::null_mut(), hv); if !p.is_null() { tsrun_free_string(p); }
                tsrun_value_free(std::ptr::null_mut()); tsrun_free_string(std::ptr::null_mut()); tsrun_free_strings(std::ptr::null_mut(), 0); tsrun_step_result_free(std::ptr::null_mut());
            }
            "get" | "aget" => {
                let r = if op == "get" { let key = cs(e["key"].as_str().unwrap_or("")); tsrun_get(ctx, hv, key.as_ptr()) } else { tsrun_array_get(ctx, hv, e["idx"].as_u64().unwrap_or(0) as usize) };
                match exp {
                    "value" => {
                        if r.value.is_null() { let m = read_c(r.error, "error", diffs); diffs.push(format!("{op}: failed: {:?}", m)); }
                        else { let t = read_tree(ctx, r.value, 2, diffs); if !same_tree(&e["tree"], &t) { diffs.push(format!("{op}: read back {t}, expected {}", e["tree"])); } w.val.insert(e["h2"].as_u64().unwrap_or(0), r.value); }
                    }
                    "error" => { if !r.value.is_null() { diffs.push(format!("{op} on a non-object returned a value")); tsrun_value_free(r.value); } else if r.error.is_null() { diffs.push(format!("{op}: failure without an error string")); } else { let _ = read_c(r.error, "error", diffs); } }
                    _ => { if !r.value.is_null() { tsrun_value_free(r.value); } }
                }
            }
            "push" => { let v = w.val.get(&e["hv"].as_u64().unwrap_or(0)).copied().unwrap_or(std::ptr::null_mut()); let r = tsrun_array_push(ctx, hv, v); check_err(r.ok, r.error, exp, "tsrun_array_push", diffs); }
            "stringify" => {
                let p = tsrun_json_stringify(ctx, hv);
                let want = tree_json(&e["tree"], true);
                match read_c(p, "tsrun_json_stringify", diffs) {
                    None => diffs.push("tsrun_json_stringify returned NULL for an acyclic value".into()),
                    Some(s) => match serde_json::from_str::<serde_json::Value>(&s) { Ok(j) => if !want.as_ref().map(|w| json_eq(w, &j)).unwrap_or(false) { diffs.push(format!("tsrun_json_stringify gave {s}, expected {:?}", want)); }, Err(_) => diffs.push(format!("tsrun_json_stringify gave malformed JSON {s}")) },
                }
                if !p.is_null() { tsrun_free_string(p); }
            }
            "keys" => {
                let mut n = 0usize; let ks = tsrun_keys(ctx, hv, &mut n);
                let mut got = Vec::new(); for i in 0..n { got.push(read_c(*ks.add(i), "tsrun_keys", diffs).unwrap_or_default()); }
                tsrun_free_strings(ks, n);
                let mut want: Vec<String> = e["exp"].as_array().map(|a| a.iter().map(|x| x.as_str().unwrap_or("").to_string()).collect()).unwrap_or_default();
                got.sort(); want.sort();
                if got != want { diffs.push(format!("tsrun_keys {:?}, expected {:?}", got, want)); }
            }
            "collect" => tsrun_verif_collect(ctx),
            "churn" => { for i in 0..40 { let o = tsrun_object_new(ctx).value; let n = tsrun_number(ctx, 900.0 + i as f64); tsrun_set(ctx, o, c"junk".as_ptr(), n); tsrun_value_free(n); tsrun_value_free(o); } tsrun_verif_collect(ctx); for i in 0..40 { let a = tsrun_array_new(ctx).value; let n = tsrun_number(ctx, 700.0 + i as f64); tsrun_array_push(ctx, a, n); tsrun_value_free(n); tsrun_value_free(a); } }
            "setglobal" => { let r = tsrun_set_global(ctx, c"g".as_ptr(), hv); check_err(r.ok, r.error, "ok", "tsrun_set_global", diffs); }
            "read-payload" => {
                if let Some(p) = w.payload.get(&c).copied() {
                    let t = read_tree(ctx, p, 2, diffs);
                    let want = serde_json::json!({"k": "obj", "a": "", "ks": ["type", "n"], "vs": [{"k": "str", "a": "fetch", "ks": [], "vs": []}, {"k": "num", "a": "7", "ks": [], "vs": []}]});
                    if !same_tree(&want, &t) { diffs.push(format!("the payload of the pending order reads {t}, the callback built {want}")); }
                }
            }
            "script-read" | "native" | "native-order" | "order-start" | "resume" => {
                if op != "resume" {
                    if op == "native" || op == "native-order" {
                        let variant = if op == "native-order" { "make-order" } else { e["variant"].as_str().unwrap_or("") };
                        VARIANT.with(|v| v.set(VARIANTS.iter().position(|x| *x == variant).unwrap_or(0) as u32));
                        if !w.nat.contains_key(&c) {
                            let f = tsrun_native_function(ctx, c"nat".as_ptr(), native_cb, 2, std::ptr::null_mut());
                            if f.value.is_null() { diffs.push("tsrun_native_function failed".into()); return; }
                            tsrun_set_global(ctx, c"nat".as_ptr(), f.value); tsrun_value_free(f.value); w.nat.insert(c, true);
                        }
                    }
                    let (src, path) = match op { "script-read" => (READ_SRC, None), "native" => (NATIVE_SRC, None), "native-order" => (NATIVE_ORDER_SRC, Some("/main.ts")), _ => (ORDER_SRC, Some("/main.ts")) };
                    let code = cs(src); let p = path.map(cs);
                    let r = tsrun_prepare(ctx, code.as_ptr(), p.as_ref().map(|x| x.as_ptr()).unwrap_or(std::ptr::null()));
                    if !r.ok { let m = read_c(r.error, "error", diffs); diffs.push(format!("{op}: tsrun_prepare failed: {:?}", m)); return; }
                }
                let mut sr = run_to(ctx);
                if op == "order-start" || op == "native-order" {
                    if sr.status != TsRunStepStatus::Suspended || sr.pending_count != 1 { let m = read_c(sr.error, "error", diffs); diffs.push(format!("{op}: status {:?} ({:?}) with {} pending orders, expected Suspended with 1", sr.status, m, sr.pending_count)); }
                    else {
                        let o = &*sr.pending_orders; w.order.insert(c, o.id);
                        let t = read_tree(ctx, o.payload, 2, diffs);
                        if op == "order-start" { if t["a"] != "p" { diffs.push(format!("order payload {t}")); } }
                        else { w.payload.insert(c, o.payload); if t["k"] != "obj" || t["ks"].as_array().map(|a| a.len()) != Some(2) { diffs.push(format!("payload of the native order reads {t}")); } }
                    }
                } else if sr.status != TsRunStepStatus::Complete {
                    let m = read_c(sr.error, "error", diffs); diffs.push(format!("{op}: status {:?} ({:?}), expected Complete", sr.status, m));
                } else {
                    let t = read_tree(ctx, sr.value, 2, diffs);
                    let want = if op == "native" { native_expect(e["variant"].as_str().unwrap_or("")) } else { e["tree"].clone() };
                    if !same_tree(&want, &t) { diffs.push(format!("{op}{}: the script saw {t}, expected {want}", if op == "native" { format!(" ({})", e["variant"]) } else { String::new() })); }
                    tsrun_value_free(sr.value);
                }
                tsrun_step_result_free(&mut sr);
            }
            "fulfil" | "fulfil-error" => {
                let id = w.order.get(&c).copied().unwrap_or(0);
                let resp = TsRunOrderResponse { id, value: if op == "fulfil" { hv } else { std::ptr::null_mut() }, error: if op == "fulfil" { std::ptr::null() } else { c"boom".as_ptr() } };
                let r = tsrun_fulfill_orders(ctx, &resp, 1);
                check_err(r.ok, r.error, "ok", "tsrun_fulfill_orders", diffs);
            }
            _ => diffs.push(format!("harness: unknown op {op}")),
        }
    }
}

pub fn main(_args: &[String]) -> i32 {
    let stdin = std::io::stdin();
    let out = std::io::stdout();
    let mut out = out.lock();
    for line in stdin.lock().lines() {
        let Ok(line) = line else { break };
        if line.trim().is_empty() { continue; }
        let Ok(j) = serde_json::from_str::<serde_json::Value>(&line) else { eprintln!("bad job"); return 2; };
        let hist = j["hist"].as_array().cloned().unwrap_or_default();
        let mut w = World { ctx: HashMap::new(), val: HashMap::new(), order: HashMap::new(), nat: HashMap::new(), payload: HashMap::new(), calls: 0 };
        let mut diffs: Vec<String> = Vec::new();
        let mut at = 0usize;
        let r = std::panic::catch_unwind(std::panic::AssertUnwindSafe(|| {
            for (i, e) in hist.iter().enumerate() {
                let before = diffs.len();
                unsafe { exec(&mut w, e, &mut diffs); }
                if diffs.len() > before { for d in diffs.iter_mut().skip(before) { *d = format!("call {} ({}): {}", i + 1, e["op"].as_str().unwrap_or(""), d); } }
                at = i + 1;
            }
            // release what is left: survivors first, then the contexts, then values of those contexts (after their context)
            let vals: Vec<*mut TsRunValue> = w.val.values().copied().collect();
            let n = vals.len();
            for p in vals.iter().take(n / 2) { unsafe { tsrun_value_free(*p); } }
            for (_, c) in w.ctx.drain() { unsafe { tsrun_free(c); } }
            for p in vals.iter().skip(n / 2) { unsafe { tsrun_value_free(*p); } }
        }));
        if r.is_err() { diffs.push(format!("panic crossed the C boundary at call {}", at + 1)); }
        #[cfg(tsrun_verif)]
        let stale = tsrun::gc::verif::take_stale();
        #[cfg(not(tsrun_verif))]
        let stale: Vec<String> = Vec::new();
        let _ = writeln!(out, "{}", serde_json::json!({"id": j["id"], "ok": diffs.is_empty() && stale.is_empty(), "diffs": diffs, "stale": stale, "calls": w.calls}));
        let _ = out.flush();
    }
    0
}
