// C12 (flow R): Instances.tla schedules on real interpreters.
// stdin : ndjson jobs {id, progs:[{source, key}], sched:[{i, op}], junk_seed, threads:bool}
//           i = 1..N instance index (0 = junk lifetime), op = create | step | fulfil | drop | junk
// stdout: {id, obs:[[..per instance..]], solo:[[..]], kinds:[[..]]}
//   obs[i]  what instance i showed under the schedule (result kind, order payloads, completion value / error text,
//           everything it logged, export names), one string per operation
//   solo[i] the same operations on a fresh interpreter with nothing else alive (computed once per program, cached)
// With threads=true every instance runs its own operations in its own OS thread, all threads started together,
// while a further thread runs junk lifetimes.
use std::cell::RefCell;
use std::collections::HashMap;
use std::io::{BufRead, Write};
use tsrun::platform::{CompiledRegex, ConsoleLevel, ConsoleProvider, FancyRegexProvider, RandomProvider, RegExpProvider, TimeProvider};
use tsrun::{api, create_eval_internal_module, Guarded, InternalModule, Interpreter, InterpreterConfig, JsError, JsValue, ModulePath, OrderResponse, RuntimeValue, StepResult};

thread_local! {
    static LOGS: RefCell<Vec<String>> = const { RefCell::new(Vec::new()) };
}

struct FixedTime(std::cell::Cell<i64>);
impl TimeProvider for FixedTime {
    fn now_millis(&self) -> i64 { let v = self.0.get(); self.0.set(v + 7); v }
    fn elapsed_millis(&self, start: u64) -> u64 { 100u64.saturating_sub(start.min(100)) }
    fn start_timer(&self) -> u64 { 1 }
}
// console output is an observation like every other one (and console.time / timeEnd must follow the host's clock)
struct ConsoleCapture;
impl ConsoleProvider for ConsoleCapture {
    fn write(&self, _level: ConsoleLevel, message: &str) { LOGS.with(|l| l.borrow_mut().push(format!("console:{message}"))); }
}
// a host policy for regular expressions: every pattern is compiled case-insensitively (programs marked //@regexp-ci)
struct CiRegex;
impl RegExpProvider for CiRegex {
    fn compile(&self, pattern: &str, flags: &str) -> Result<std::rc::Rc<dyn CompiledRegex>, String> {
        let f = if flags.contains('i') { flags.to_string() } else { format!("{flags}i") };
        FancyRegexProvider::new().compile(pattern, &f)
    }
}
struct Lcg(u64);
impl RandomProvider for Lcg {
    fn random(&mut self) -> f64 { self.0 = self.0.wrapping_mul(6364136223846793005).wrapping_add(1442695040888963407); ((self.0 >> 11) as f64) / ((1u64 << 53) as f64) }
}

// exact textual rendering (keeps property order: order IS an observation here)
fn show(v: &JsValue, depth: usize) -> String {
    use tsrun::value::{ExoticObject, PropertyKey};
    match v {
        JsValue::Undefined => "undefined".into(),
        JsValue::Null => "null".into(),
        JsValue::Boolean(b) => b.to_string(),
        JsValue::Number(n) => format!("{:?}", n),
        JsValue::String(s) => format!("{:?}", s.as_str()),
        JsValue::Symbol(_) => "symbol".into(),
        JsValue::Object(o) => {
            if depth == 0 { return "...".into(); }
            let b = o.borrow();
            match &b.exotic {
                ExoticObject::Array { elements } => format!("[{}]", elements.iter().map(|e| show(e, depth - 1)).collect::<Vec<_>>().join(",")),
                ExoticObject::Function(_) => "fn".into(),
                ExoticObject::Ordinary => {
                    let mut items = Vec::new();
                    for k in b.own_keys() {
                        let ks = match &k { PropertyKey::String(s) => s.as_str().to_string(), PropertyKey::Index(i) => i.to_string(), PropertyKey::Symbol(_) => "@sym".into() };
                        if let Some(p) = b.get_own_property(&k) { items.push(format!("{}:{}", ks, if p.is_accessor() { "acc".into() } else { show(&p.value, depth - 1) })); }
                    }
                    format!("{{{}}}", items.join(","))
                }
                _ => "exotic".into(),
            }
        }
    }
}

fn host_log(_i: &mut Interpreter, _this: JsValue, args: &[JsValue]) -> Result<Guarded, JsError> {
    let s = args.iter().map(|a| show(a, 4)).collect::<Vec<_>>().join(" ");
    LOGS.with(|l| l.borrow_mut().push(s));
    Ok(Guarded::unguarded(JsValue::Undefined))
}
fn host_module() -> InternalModule { InternalModule::native("verif:host").with_function("LOG", host_log, 1).with_function("ERR", host_log, 1).build() }

pub struct Inst { it: Option<Interpreter>, src: String, started: bool, pending: Vec<(u64, String)> }

fn new_interp(seed: u64) -> Interpreter { new_interp_for(seed, "") }
fn new_interp_for(seed: u64, src: &str) -> Interpreter {
    let mut it = Interpreter::with_config(InterpreterConfig { internal_modules: vec![create_eval_internal_module(), host_module()], ..Default::default() });
    it.set_console(Box::new(ConsoleCapture));
    if src.contains("//@regexp-ci") { it.set_regexp_provider(std::rc::Rc::new(CiRegex)); }
    it.set_time_provider(Box::new(FixedTime(std::cell::Cell::new(1_700_000_000_000))));
    it.set_random_provider(Box::new(Lcg(seed)));
    it
}

fn take_logs() -> String { LOGS.with(|l| l.borrow_mut().drain(..).collect::<Vec<_>>().join(" | ")) }

/// one host operation on one instance -> (kind predicted by Instances.tla, full observation)
fn apply(inst: &mut Inst, op: &str) -> (String, String) {
    LOGS.with(|l| l.borrow_mut().clear());
    match op {
        "create" => { inst.it = Some(new_interp_for(42, &inst.src)); inst.started = false; inst.pending.clear(); ("created".into(), "created".into()) }
        "drop" => { inst.it = None; ("dropped".into(), "dropped".into()) }
        "fulfil" => {
            let Some(it) = inst.it.as_mut() else { return ("ignored".into(), "no instance".into()) };
            if inst.pending.is_empty() { return ("ignored".into(), "ignored".into()); }
            let rs: Vec<OrderResponse> = inst.pending.drain(..).map(|(id, p)| OrderResponse { id: tsrun::OrderId(id), result: Ok(RuntimeValue::unguarded(JsValue::Number((p.len() as f64) * 10.0 + id as f64))) }).collect();
            let n = rs.len();
            it.fulfill_orders(rs);
            ("fulfilled".into(), format!("fulfilled {n} {}", take_logs()))
        }
        "step" => {
            let Some(it) = inst.it.as_mut() else { return ("Error-again".into(), "no instance".into()) };
            let mut r = if !inst.started { inst.started = true; it.prepare(&inst.src, Some(ModulePath::new("/p/main.ts"))) } else { it.step() };
            let mut n = 0u64;
            let (kind, detail) = loop {
                n += 1;
                match r {
                    Ok(StepResult::Continue) => { if n > 2_000_000 { break ("Timeout".to_string(), String::new()); } r = it.step(); }
                    Ok(StepResult::Suspended { pending, cancelled }) => {
                        let ps: Vec<(u64, String)> = pending.iter().map(|o| (o.id.0, show(o.payload.value(), 4))).collect();
                        inst.pending.extend(ps.iter().cloned());
                        break ("Suspended".into(), format!("pending {:?} cancelled {:?}", ps, cancelled.iter().map(|c| c.0).collect::<Vec<_>>()));
                    }
                    Ok(StepResult::Complete(v)) => {
                        let mut names = api::get_export_names(it);
                        let sorted = { let mut s = names.clone(); s.sort(); s };
                        let vals: Vec<String> = sorted.iter().map(|n| format!("{}={}", n, api::get_export(it, n).map(|v| show(&v, 3)).unwrap_or_default())).collect();
                        names.truncate(40);
                        break ("Complete".into(), format!("value {} exports-in-order {:?} exports {:?}", show(v.value(), 4), names, vals));
                    }
                    Ok(StepResult::Done) => break ("Done".into(), String::new()),
                    Ok(StepResult::NeedImports(_)) => break ("NeedImports".into(), String::new()),
                    Err(e) => break ("Error".into(), e.to_string()),
                }
            };
            (kind.clone(), format!("{kind} {detail} steps {n} logs {}", take_logs()))
        }
        _ => ("?".into(), "?".into()),
    }
}

fn junk(seed: u64) {
    // a throw-away lifetime: allocate, maybe fail, maybe stay suspended, drop
    let bodies = [
        "const a: any[] = []; for (let i = 0; i < 300; i++) a.push({ i, s: 'j' + i, m: new Map([[i, [i]]]) }); a.length;",
        "function f(n: number): number { if (n === 0) throw new Error('junk'); return f(n - 1) + 1; } f(40);",
        "import { order } from 'tsrun:host'; const big = { k: [1, 2, 3] }; await order({ junk: big }); 1;",
        "const t = ['Hello WORLD'.replace(/world/, 'there'), 'a-B-c'.split(/b/).join('|'), 'xAy'.search(/a/), /^(x+)+y$/.test('XXY')]; console.time('t'); console.timeEnd('t'); t.length;",
        "class J { static n = 0; constructor(public q: string) { J.n++; } } const s = new Set(); for (let i = 0; i < 50; i++) s.add(new J('q' + i)); Symbol('junk').toString();",
    ];
    let mut it = new_interp(seed);
    let src = bodies[(seed % bodies.len() as u64) as usize];
    let mut r = it.prepare(src, Some(ModulePath::new("/junk/main.ts")));
    let mut n = 0;
    loop { n += 1; match r { Ok(StepResult::Continue) if n < 100_000 => r = it.step(), _ => break } }
    if seed % 3 == 0 { it.collect(); }
    LOGS.with(|l| l.borrow_mut().clear());
    drop(it);
}

fn solo(src: &str, ops: &[String]) -> Vec<String> {
    let mut inst = Inst { it: None, src: src.to_string(), started: false, pending: vec![] };
    ops.iter().map(|op| apply(&mut inst, op).1).collect()
}

pub fn main(_args: &[String]) -> i32 {
    let stdin = std::io::stdin();
    let out = std::io::stdout();
    let mut out = out.lock();
    let mut cache: HashMap<(String, String), Vec<String>> = HashMap::new();
    for line in stdin.lock().lines() {
        let Ok(line) = line else { break };
        if line.trim().is_empty() { continue; }
        let Ok(j) = serde_json::from_str::<serde_json::Value>(&line) else { eprintln!("bad job"); return 2; };
        let progs: Vec<(String, String)> = j["progs"].as_array().map(|a| a.iter().map(|p| (p["source"].as_str().unwrap_or("").to_string(), p["key"].as_str().unwrap_or("").to_string())).collect()).unwrap_or_default();
        let sched: Vec<(usize, String)> = j["sched"].as_array().map(|a| a.iter().map(|s| (s["i"].as_u64().unwrap_or(0) as usize, s["op"].as_str().unwrap_or("").to_string())).collect()).unwrap_or_default();
        let seed = j["junk_seed"].as_u64().unwrap_or(1);
        let threads = j["threads"].as_bool().unwrap_or(false);
        let solo_only = j["solo_only"].as_bool().unwrap_or(false);
        let n = progs.len();
        let scripts: Vec<Vec<String>> = (1..=n).map(|i| sched.iter().filter(|(k, _)| *k == i).map(|(_, op)| op.clone()).collect()).collect();
        let res = std::panic::catch_unwind(std::panic::AssertUnwindSafe(|| {
            let mut obs: Vec<Vec<String>> = vec![Vec::new(); n];
            let mut kinds: Vec<Vec<String>> = vec![Vec::new(); n];
            if solo_only {
                // fresh computation, no cache: used for the cross-process comparison
            } else if threads {
                let barrier = std::sync::Arc::new(std::sync::Barrier::new(n + 1));
                let mut hs = Vec::new();
                for i in 0..n {
                    let (src, ops, b) = (progs[i].0.clone(), scripts[i].clone(), barrier.clone());
                    hs.push(std::thread::spawn(move || {
                        b.wait();
                        let mut inst = Inst { it: None, src, started: false, pending: vec![] };
                        let mut o = Vec::new(); let mut k = Vec::new();
                        for op in &ops { let (kk, oo) = apply(&mut inst, op); k.push(kk); o.push(oo); std::thread::yield_now(); }
                        (o, k)
                    }));
                }
                let b = barrier.clone();
                let jh = std::thread::spawn(move || { b.wait(); for q in 0..6 { junk(seed + q); } });
                for (i, h) in hs.into_iter().enumerate() { if let Ok((o, k)) = h.join() { obs[i] = o; kinds[i] = k; } else { obs[i] = vec!["THREAD-PANIC".into()]; } }
                let _ = jh.join();
            } else {
                let mut insts: Vec<Inst> = progs.iter().map(|(s, _)| Inst { it: None, src: s.clone(), started: false, pending: vec![] }).collect();
                let mut jn = 0u64;
                for (i, op) in &sched {
                    if *i == 0 { jn += 1; junk(seed.wrapping_mul(31).wrapping_add(jn)); continue; }
                    let (k, o) = apply(&mut insts[*i - 1], op);
                    kinds[*i - 1].push(k); obs[*i - 1].push(o);
                }
            }
            (obs, kinds)
        }));
        let (obs, kinds) = match res { Ok(x) => x, Err(_) => (vec![vec!["PANIC".to_string()]; n], vec![Vec::new(); n]) };
        let mut solos: Vec<Vec<String>> = Vec::new();
        for i in 0..n {
            let key = (progs[i].1.clone(), scripts[i].join(","));
            if solo_only || !cache.contains_key(&key) {
                let s = std::panic::catch_unwind(std::panic::AssertUnwindSafe(|| solo(&progs[i].0, &scripts[i]))).unwrap_or_else(|_| vec!["PANIC".into()]);
                cache.insert(key.clone(), s);
            }
            solos.push(cache[&key].clone());
        }
        let _ = writeln!(out, "{}", serde_json::json!({"id": j["id"], "obs": obs, "kinds": kinds, "solo": solos}));
        let _ = out.flush();
    }
    0
}
