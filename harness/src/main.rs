// vrunner: conformance harness binding the TLA+ specifications in /verif/spec to the code in /repo.
// One binary, one subcommand per binding; every subcommand reads ndjson jobs on stdin and writes
// ndjson results on stdout.  A panic of the code under test is data (reported in the result line).
extern crate tsrun;

mod gcmiri;
mod entry;
mod errloc;
mod gcreplay;
mod lifecycle;
mod modules;
mod orders;
mod gctrace;
mod rng;
mod stepbudget;
mod parsework;
mod pathnorm;
mod prog;
mod jsonmap;
mod instances;
mod ffireplay;

fn main() {
    let args: Vec<String> = std::env::args().collect();
    let cmd = args.get(1).map(|s| s.as_str()).unwrap_or("");
    let rest: Vec<String> = args.iter().skip(2).cloned().collect();
    // keep panic messages out of stderr noise; they are caught and reported per job
    if std::env::var_os("VRUNNER_SHOW_PANICS").is_none() { std::panic::set_hook(Box::new(|_| {})); }
    let rc = match cmd {
        "pathnorm" => pathnorm::main(&rest),
        "gcreplay" => gcreplay::main(&rest),
        "gctrace" => gctrace::main(&rest),
        "parsework" => parsework::main(&rest),
        "stepbudget" => stepbudget::main(&rest),
        "errloc" => errloc::main(&rest),
        "entry" => entry::main(&rest),
        "lifecycle" => lifecycle::main(&rest),
        "prog" => prog::main(&rest),
        "jsonmap" => jsonmap::main(&rest),
        "instances" => instances::main(&rest),
        "ffireplay" => ffireplay::main(&rest),
        "modules" => modules::main(&rest),
        "orders" => orders::main(&rest),
        "gcmiri" => gcmiri::main(&rest),
        _ => {
            eprintln!("usage: vrunner <pathnorm|...>");
            2
        }
    };
    std::process::exit(rc);
}
