// C05: prepare() of one source text per job; outcome class and H2 work counter.
// stdin: {id, source}   stdout: {id, outcome: ok|syntax_error|other_error|panic, work, err}
// Abort / stack overflow of the child is detected by the caller (run_jobs restarts the child and reports CRASH).
use std::io::{BufRead, Write};
use tsrun::{JsError, ModulePath};

pub fn main(_args: &[String]) -> i32 {
    let stdin = std::io::stdin();
    let out = std::io::stdout();
    let mut out = out.lock();
    for line in stdin.lock().lines() {
        let Ok(line) = line else { break };
        if line.trim().is_empty() { continue; }
        let Ok(j) = serde_json::from_str::<serde_json::Value>(&line) else { return 2; };
        let src = j["source"].as_str().unwrap_or("").to_string();
        #[cfg(tsrun_verif)]
        let _ = tsrun::lexer::verif::take_work();
        let r = std::panic::catch_unwind(std::panic::AssertUnwindSafe(|| {
            let mut it = tsrun::Interpreter::new();
            it.prepare(&src, Some(ModulePath::new("/p/main.ts"))).map(|_| ())
        }));
        #[cfg(tsrun_verif)]
        let work = tsrun::lexer::verif::take_work();
        #[cfg(not(tsrun_verif))]
        let work = 0u64;
        let (outcome, err) = match r {
            Ok(Ok(())) => ("ok", String::new()),
            Ok(Err(JsError::SyntaxError { message, .. })) => ("syntax_error", message.chars().take(80).collect()),
            Ok(Err(e)) => ("other_error", e.to_string().chars().take(80).collect()),
            Err(_) => ("panic", String::new()),
        };
        let _ = writeln!(out, "{}", serde_json::json!({"id": j["id"], "status": outcome, "work": work, "err": err}));
        let _ = out.flush();
    }
    0
}
