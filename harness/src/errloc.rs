// C20: run a program that fails and report what the error says about locations.
// stdin : ndjson jobs {id, files:{path:src}, main:path}      stdout: {id, kind, message, location?, stack:[{fn,file,line,col}]}
use std::io::{BufRead, Write};
use tsrun::{JsError, ModulePath, StepResult};

fn describe(e: &JsError) -> serde_json::Value {
    match e {
        JsError::SyntaxError { message, location } => serde_json::json!({"kind": "SyntaxError", "message": message,
            "location": {"file": location.file, "line": location.line, "column": location.column, "length": location.length}, "stack": []}),
        JsError::TypeError { message, location } => serde_json::json!({"kind": "TypeError", "message": message,
            "location": location.as_ref().map(|l| serde_json::json!({"file": l.file, "line": l.line, "column": l.column, "length": l.length})), "stack": []}),
        JsError::ReferenceError { name } => serde_json::json!({"kind": "ReferenceError", "message": name, "stack": []}),
        JsError::RangeError { message } => serde_json::json!({"kind": "RangeError", "message": message, "stack": []}),
        JsError::RuntimeError { kind, message, stack } => serde_json::json!({"kind": kind, "message": message,
            "stack": stack.iter().map(|f| serde_json::json!({"fn": f.function_name, "file": f.file, "line": f.line, "col": f.column})).collect::<Vec<_>>()}),
        other => serde_json::json!({"kind": "Other", "message": other.to_string().chars().take(200).collect::<String>(), "stack": []}),
    }
}

fn run_job(j: &serde_json::Value) -> serde_json::Value {
    let mut it = crate::prog::new_interpreter();
    let main = j["main"].as_str().unwrap_or("/p/main.ts").to_string();
    let file = |p: &str| j["files"][p].as_str().map(|s| s.to_string());
    let mut r = it.prepare(&file(&main).unwrap_or_default(), Some(ModulePath::new(main.clone())));
    let mut n = 0u64;
    loop {
        n += 1;
        if n > 300_000 { return serde_json::json!({"id": j["id"], "kind": "Timeout", "stack": []}); }
        match r {
            Err(e) => { let mut d = describe(&e); d["id"] = j["id"].clone(); d["display"] = serde_json::json!(e.to_string().chars().take(600).collect::<String>()); return d; }
            Ok(StepResult::Continue) => {}
            Ok(StepResult::NeedImports(reqs)) => {
                let mut any = false;
                for q in reqs { if let Some(s) = file(q.resolved_path.as_str()) { match it.provide_module(q.resolved_path.clone(), &s) {
                    Ok(()) => any = true,
                    Err(e) => { let mut d = describe(&e); d["id"] = j["id"].clone(); d["in_module"] = serde_json::json!(q.resolved_path.as_str()); return d; } } } }
                if !any { return serde_json::json!({"id": j["id"], "kind": "NeedImports", "stack": []}); }
            }
            Ok(StepResult::Complete(_)) | Ok(StepResult::Done) => return serde_json::json!({"id": j["id"], "kind": "NoError", "stack": []}),
            Ok(StepResult::Suspended { .. }) => return serde_json::json!({"id": j["id"], "kind": "Suspended", "stack": []}),
        }
        r = it.step();
    }
}

pub fn main(_args: &[String]) -> i32 {
    let stdin = std::io::stdin();
    let out = std::io::stdout();
    let mut out = out.lock();
    for line in stdin.lock().lines() {
        let Ok(line) = line else { break };
        if line.trim().is_empty() { continue; }
        let Ok(j) = serde_json::from_str::<serde_json::Value>(&line) else { return 2; };
        let r = std::panic::catch_unwind(std::panic::AssertUnwindSafe(|| run_job(&j)));
        let rec = match r { Ok(v) => v, Err(_) => serde_json::json!({"id": j["id"], "kind": "Panic", "stack": []}) };
        let _ = writeln!(out, "{}", rec); let _ = out.flush();
    }
    0
}
