// C13 (flow T): long seeded random histories on the real Heap<TestObj>, recorded as ndjson events and
// validated by GcHeapTrace.tla.  The driver keeps a conservative shadow (roots, edges, "dead" marks at
// every possible collection point) ONLY to know which handles it may legally read/write/link; the
// verdict comes from the specification, never from this shadow.
use crate::gcreplay::World;
use crate::rng::Rng;
use std::collections::{HashMap, HashSet};
use std::io::Write;

struct Shadow {
    roots: Vec<Vec<usize>>,            // per guard: object ids (multiset, order irrelevant here)
    galive: Vec<bool>,
    hobj: Vec<Option<usize>>,          // handle -> object id (unique per allocation)
    edges: HashMap<usize, Vec<usize>>, // object id -> stored refs
    dead: HashSet<usize>,
    next_obj: usize,
    thr: usize,
    heap_alive: bool,
}
impl Shadow {
    fn mark_dead(&mut self) {
        let mut seen: HashSet<usize> = HashSet::new();
        let mut stack: Vec<usize> = Vec::new();
        for (g, r) in self.roots.iter().enumerate() {
            if self.galive[g] { for &o in r { if !self.dead.contains(&o) && seen.insert(o) { stack.push(o); } } }
        }
        while let Some(o) = stack.pop() {
            if let Some(es) = self.edges.get(&o) {
                for &k in es { if !self.dead.contains(&k) && seen.insert(k) { stack.push(k); } }
            }
        }
        for o in 1..self.next_obj {
            if !seen.contains(&o) && !self.dead.contains(&o) {
                self.dead.insert(o);
                self.edges.remove(&o);
            }
        }
    }
    fn current(&self, h: usize) -> bool {
        self.heap_alive && self.hobj[h].map(|o| !self.dead.contains(&o)).unwrap_or(false)
    }
}

pub fn main(args: &[String]) -> i32 {
    let seed: u64 = args.get(0).and_then(|s| s.parse().ok()).unwrap_or(1);
    let nops: usize = args.get(1).and_then(|s| s.parse().ok()).unwrap_or(2000);
    let ng: usize = args.get(2).and_then(|s| s.parse().ok()).unwrap_or(24);
    let nh: usize = args.get(3).and_then(|s| s.parse().ok()).unwrap_or(400);
    let Some(path) = args.get(4) else { eprintln!("usage: gctrace seed nops ng nh out.ndjson"); return 2; };
    let Ok(f) = std::fs::File::create(path) else { return 2 };
    let mut f = std::io::BufWriter::new(f);
    let mut rng = Rng::new(seed);
    let mut w = World::new(ng, nh);
    let mut sh = Shadow { roots: vec![Vec::new(); ng + 1], galive: vec![false; ng + 1], hobj: vec![None; nh + 1],
        edges: HashMap::new(), dead: HashSet::new(), next_obj: 1, thr: 0, heap_alive: true };
    // phases bias the mix so that slot counts cross the chunk (256) and guard-pool (16) boundaries
    let mut emitted = 0usize;
    let mut panicked = false;
    // "guard storms": every guard alive with roots, all dropped (overflowing the 16-entry guard-storage pool),
    // all recreated - a recycled root vector must come back empty
    let mut forced: std::collections::VecDeque<serde_json::Value> = std::collections::VecDeque::new();
    let storm_at = [nops / 4, nops / 2, (3 * nops) / 4];
    while emitted < nops && !panicked {
        if storm_at.contains(&emitted) && forced.is_empty() && sh.heap_alive {
            for g in 1..=ng { if !sh.galive[g] { forced.push_back(serde_json::json!({"op":"create_guard","g":g})); } }
            let mut free: Vec<usize> = (1..=nh).filter(|&i| w.hs[i].is_none()).collect();
            for g in 1..=ng { for _ in 0..(1 + g % 3) { if let Some(h) = free.pop() { forced.push_back(serde_json::json!({"op":"alloc","g":g,"h":h})); } } }
            for g in 1..=ng { forced.push_back(serde_json::json!({"op":"drop_guard","g":g})); }
            for g in (1..=ng).rev() { forced.push_back(serde_json::json!({"op":"create_guard","g":g})); }
            for g in 1..=ng { if g % 2 == 0 { if let Some(h) = free.pop() { forced.push_back(serde_json::json!({"op":"alloc","g":g,"h":h})); } } }
            forced.push_back(serde_json::json!({"op":"collect"}));
        }
        let phase = (emitted * 6 / nops.max(1)) % 3; // 0 grow, 1 churn, 2 shrink
        let roll = rng.below(100);
        let g = 1 + rng.below(ng);
        let h = 1 + rng.below(nh);
        let h2 = 1 + rng.below(nh);
        let free_h = (1..=nh).find(|&i| w.hs[i].is_none() && (i + emitted) % 3 != 5);
        let alive_hs: Vec<usize> = (1..=nh).filter(|&i| w.hs[i].is_some()).collect();
        let pick_alive = |r: &mut Rng| if alive_hs.is_empty() { None } else { Some(alive_hs[r.below(alive_hs.len())]) };
        let live_guards: Vec<usize> = (1..=ng).filter(|&i| sh.galive[i]).collect();
        let mut op: Option<serde_json::Value> = forced.pop_front();
        let was_forced = op.is_some();
        let grow = match phase { 0 => 55, 1 => 30, _ => 12 };
        if was_forced {
        } else if !sh.heap_alive {
            // after drop_heap only handle clone/drop and guard bookkeeping are legal
            op = match roll % 6 {
                0 => pick_alive(&mut rng).map(|h| serde_json::json!({"op":"drop","h":h})),
                1 => match (pick_alive(&mut rng), free_h) { (Some(h), Some(h2)) => Some(serde_json::json!({"op":"clone","h":h,"h2":h2})), _ => None },
                2 => if !live_guards.is_empty() { Some(serde_json::json!({"op":"drop_guard","g":live_guards[rng.below(live_guards.len())]})) } else { None },
                3 => match (pick_alive(&mut rng), live_guards.first()) { (Some(h), Some(&g)) => Some(serde_json::json!({"op":"guard","g":g,"h":h})), _ => None },
                4 => match (pick_alive(&mut rng), live_guards.first()) { (Some(h), Some(&g)) => Some(serde_json::json!({"op":"unguard","g":g,"h":h})), _ => None },
                _ => live_guards.first().map(|&g| serde_json::json!({"op":"clear","g":g})),
            };
            if op.is_none() { if alive_hs.is_empty() && live_guards.is_empty() { break; } else { continue; } }
        } else if roll < grow {
            if let (Some(fh), true) = (free_h, !live_guards.is_empty()) {
                let g = live_guards[rng.below(live_guards.len())];
                op = Some(serde_json::json!({"op":"alloc","g":g,"h":fh}));
            } else if !sh.galive[g] {
                op = Some(serde_json::json!({"op":"create_guard","g":g}));
            }
        } else if roll < grow + 8 {
            if !sh.galive[g] { op = Some(serde_json::json!({"op":"create_guard","g":g})); }
            else if rng.chance(1, 3) { op = Some(serde_json::json!({"op":"drop_guard","g":g})); }
        } else if roll < grow + 16 {
            if let (Some(a), Some(fh)) = (pick_alive(&mut rng), free_h) { op = Some(serde_json::json!({"op":"clone","h":a,"h2":fh})); }
        } else if roll < grow + 26 {
            if let Some(a) = pick_alive(&mut rng) { op = Some(serde_json::json!({"op":"drop","h":a})); }
        } else if roll < grow + 31 {
            if let (Some(a), true) = (pick_alive(&mut rng), sh.galive[g]) { op = Some(serde_json::json!({"op":"guard","g":g,"h":a})); }
        } else if roll < grow + 36 {
            if let (Some(a), true) = (pick_alive(&mut rng), sh.galive[g]) { op = Some(serde_json::json!({"op":"unguard","g":g,"h":a})); }
        } else if roll < grow + 38 {
            if sh.galive[g] && !sh.roots[g].is_empty() && phase != 0 { op = Some(serde_json::json!({"op":"clear","g":g})); }
        } else if roll < grow + 48 {
            if w.hs[h].is_some() && sh.current(h) { op = Some(serde_json::json!({"op":"write","h":h,"v":1 + rng.below(2)})); }
            else if let Some(a) = pick_alive(&mut rng) { if sh.current(a) { op = Some(serde_json::json!({"op":"write","h":a,"v":1 + rng.below(2)})); } }
        } else if roll < grow + 60 {
            let a = pick_alive(&mut rng); let b = pick_alive(&mut rng);
            if let (Some(a), Some(b)) = (a, b) {
                if sh.current(a) && sh.current(b) && sh.hobj[a].map(|o| sh.edges.get(&o).map(|e| e.len()).unwrap_or(0) < 2).unwrap_or(false) {
                    op = Some(serde_json::json!({"op":"link","h":a,"h2":b}));
                }
            }
        } else if roll < grow + 64 {
            if let Some(a) = pick_alive(&mut rng) {
                if sh.current(a) && sh.hobj[a].map(|o| sh.edges.get(&o).map(|e| !e.is_empty()).unwrap_or(false)).unwrap_or(false) {
                    op = Some(serde_json::json!({"op":"unlink","h":a}));
                }
            }
        } else if roll < grow + 67 {
            op = Some(serde_json::json!({"op":"collect"}));
        } else if roll < grow + 69 {
            let t = [0usize, 1, 2, 3, 5, 7, 50][rng.below(7)];
            if t != sh.thr { op = Some(serde_json::json!({"op":"set_threshold","n":t})); }
        } else if emitted + 40 > nops && rng.chance(1, 8) && sh.next_obj > 1 {
            op = Some(serde_json::json!({"op":"drop_heap"}));
        }
        let _ = h2;
        let Some(mut op) = op else { continue };
        // ---- shadow update (conservative)
        let name = op["op"].as_str().unwrap_or("").to_string();
        let og = op["g"].as_u64().unwrap_or(0) as usize;
        let oh = op["h"].as_u64().unwrap_or(0) as usize;
        let oh2 = op["h2"].as_u64().unwrap_or(0) as usize;
        match name.as_str() {
            "create_guard" => { sh.galive[og] = true; sh.roots[og].clear(); }
            "drop_guard" => { sh.galive[og] = false; sh.roots[og].clear(); }
            "clear" => sh.roots[og].clear(),
            "alloc" => {
                if sh.thr > 0 { sh.mark_dead(); }
                let o = sh.next_obj; sh.next_obj += 1;
                sh.hobj[oh] = Some(o); sh.roots[og].push(o);
            }
            "clone" => sh.hobj[oh2] = sh.hobj[oh],
            "drop" => sh.hobj[oh] = None,
            "guard" => if sh.current(oh) { if let Some(o) = sh.hobj[oh] { sh.roots[og].push(o); } },
            "unguard" => {
                // the implementation matches by slot; a stale handle may remove another tenant's root:
                // to stay conservative, forget one root of this object if present, else (stale) any
                // root may have been removed -> treat every object rooted only in g as unrooted
                if let Some(o) = sh.hobj[oh] {
                    if let Some(p) = sh.roots[og].iter().position(|&x| x == o) { sh.roots[og].swap_remove(p); }
                    else if sh.dead.contains(&o) { sh.roots[og].clear(); }
                }
            }
            "link" => if let (Some(a), Some(b)) = (sh.hobj[oh], sh.hobj[oh2]) { sh.edges.entry(a).or_default().push(b); },
            "unlink" => if let Some(a) = sh.hobj[oh] { sh.edges.remove(&a); },
            "collect" => sh.mark_dead(),
            "set_threshold" => sh.thr = op["n"].as_u64().unwrap_or(0) as usize,
            "drop_heap" => sh.heap_alive = false,
            _ => {}
        }
        // ---- the real call
        let r = std::panic::catch_unwind(std::panic::AssertUnwindSafe(|| w.apply(&op)));
        let m = op.as_object_mut();
        let Some(m) = m else { continue };
        match r {
            Err(_) => { m.insert("panic".into(), serde_json::json!(true)); panicked = true; }
            Ok(Err(e)) => { eprintln!("driver error: {e}"); return 2; }
            Ok(Ok(ret)) => { if let Some(b) = ret { m.insert("ret".into(), serde_json::json!(b)); } }
        }
        // ---- cheap scalars logged with every event: stats, the guard's length, the touched handles
        if !panicked {
            let (live, total, pooled) = match &w.heap { Some(hp) => { let s = hp.stats(); (s.live_objects as i64, s.total_objects as i64, s.pooled_objects as i64) } None => (-1, -1, -1) };
            m.insert("st".into(), serde_json::json!([live, total, pooled]));
            if og > 0 { m.insert("glen".into(), serde_json::json!(w.guards[og].as_ref().map(|x| x.len() as i64).unwrap_or(-1))); }
            for (key, hh) in [("hv", oh), ("hv2", oh2)] {
                if hh > 0 && sh.current(hh) {
                    if let Some(o) = w.hs[hh].as_ref() {
                        let (v, n) = { let b = o.borrow(); (b.v, b.refs.len() as i64) };
                        // one level of transitive reading: values of the objects stored in this one
                        let kids: Vec<i64> = o.borrow().refs.iter().map(|k| k.borrow().v).collect();
                        m.insert(key.into(), serde_json::json!([v, n, kids]));
                    }
                }
            }
        }
        let _ = writeln!(f, "{}", serde_json::Value::Object(m.clone()));
        emitted += 1;
    }
    // final full projection of every handle the shadow knows to be current
    let mut fin = serde_json::Map::new();
    fin.insert("op".into(), serde_json::json!("final"));
    let mut hv = Vec::new();
    for i in 1..=nh {
        if w.hs[i].is_some() && sh.current(i) && !panicked {
            if let Some(o) = w.hs[i].as_ref() { let b = o.borrow(); hv.push(serde_json::json!([i, b.v, b.refs.len()])); }
        }
    }
    fin.insert("handles".into(), serde_json::json!(hv));
    let _ = writeln!(f, "{}", serde_json::Value::Object(fin));
    println!("{}", serde_json::json!({"events": emitted + 1, "objects": sh.next_obj - 1, "panicked": panicked}));
    0
}
