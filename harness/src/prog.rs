// Generic program runner (C01 C02 C03 C07 C11 C14 C19 C20): executes printed MiniJS programs on the real
// interpreter and records the observable events in the canonical form shared with the specification.
// stdin : ndjson jobs {id, source, resp:[{k:"val",v}|{k:"err"}], mode, gc, collect_every, path, max_steps}
//   mode = "immediate" (orders answered at once) | "deferred" (answered with a pending host promise that is
//          settled later, one at a time) | "spurious" (like deferred, with extra step() calls)
// stdout: one ndjson line per job {id, ev:[...], status, steps, live?}
// Values are logged through HOST-NATIVE functions (module "verif:host": LOG, ERR) so that the observation does
// not run on the interpreter under test.
use std::cell::RefCell;
use std::io::{BufRead, Write};
use tsrun::value::{ExoticObject, PropertyKey};
use tsrun::{api, create_eval_internal_module, Guarded, InternalModule, Interpreter, InterpreterConfig, JsError, JsValue, ModulePath, OrderResponse, RuntimeValue, StepResult};

thread_local! {
    static EVENTS: RefCell<Vec<String>> = const { RefCell::new(Vec::new()) };
}

pub fn canon(v: &JsValue, depth: usize) -> String {
    match v {
        JsValue::Undefined => "U".into(),
        JsValue::Null => "N".into(),
        JsValue::Boolean(b) => format!("b:{}", b),
        JsValue::Number(n) => {
            if n.is_nan() { "nan".into() }
            else if *n == 0.0 { if n.is_sign_negative() { "n:-0".into() } else { "n:0".into() } }
            else if n.is_infinite() { if *n > 0.0 { "n:Infinity".into() } else { "n:-Infinity".into() } }
            else if n.fract() == 0.0 && n.abs() < 9.0e15 { format!("n:{}", *n as i64) }
            else { format!("n:{:?}", n) }
        }
        JsValue::String(s) => format!("s:{}", s.as_str().encode_utf16().map(|c| c.to_string()).collect::<Vec<_>>().join(",")),
        JsValue::Symbol(_) => "sym".into(),
        JsValue::Object(o) => {
            let b = o.borrow();
            match &b.exotic {
                ExoticObject::Function(_) => "fn".into(),
                ExoticObject::Array { elements } => {
                    if depth == 0 { return "...".into(); }
                    format!("a[{}]", elements.iter().map(|e| canon(e, depth - 1)).collect::<Vec<_>>().join(";"))
                }
                ExoticObject::Ordinary => {
                    // error objects: an own or inherited `name` ending in "Error" together with a `message`
                    let name = b.get_property(&PropertyKey::String("name".into()));
                    let has_msg = b.get_property(&PropertyKey::String("message".into())).is_some();
                    if let (Some(JsValue::String(n)), true) = (&name, has_msg) {
                        if n.as_str().ends_with("Error") { return format!("err:{}", n.as_str()); }
                    }
                    if depth == 0 { return "...".into(); }
                    let mut items: Vec<(Vec<u16>, String)> = Vec::new();
                    for k in b.own_keys() {
                        let ks: String = match &k { PropertyKey::String(s) => s.as_str().to_string(), PropertyKey::Index(i) => i.to_string(), PropertyKey::Symbol(_) => continue };
                        if let Some(p) = b.get_own_property(&k) {
                            if !p.enumerable() { continue; }
                            let vs = if p.is_accessor() { "acc".to_string() } else { canon(&p.value, depth - 1) };
                            items.push((ks.encode_utf16().collect(), vs));
                        }
                    }
                    items.sort();
                    format!("o{{{}}}", items.iter().map(|(k, v)| format!("{}={}", k.iter().map(|c| c.to_string()).collect::<Vec<_>>().join(","), v)).collect::<Vec<_>>().join(";"))
                }
                ExoticObject::Map { .. } => "x:map".into(),
                ExoticObject::Set { .. } => "x:set".into(),
                ExoticObject::Promise(_) => "x:promise".into(),
                ExoticObject::Generator(_) | ExoticObject::BytecodeGenerator(_) => "x:gen".into(),
                _ => "x:other".into(),
            }
        }
    }
}

fn host_log(_i: &mut Interpreter, _this: JsValue, args: &[JsValue]) -> Result<Guarded, JsError> {
    let s = canon(args.first().unwrap_or(&JsValue::Undefined), 3);
    EVENTS.with(|e| e.borrow_mut().push(format!("L|{}", s)));
    Ok(Guarded::unguarded(JsValue::Undefined))
}
fn host_err(_i: &mut Interpreter, _this: JsValue, args: &[JsValue]) -> Result<Guarded, JsError> {
    let s = canon(args.first().unwrap_or(&JsValue::Undefined), 3);
    EVENTS.with(|e| e.borrow_mut().push(format!("E|{}", s)));
    Ok(Guarded::unguarded(JsValue::Undefined))
}

pub fn host_module() -> InternalModule {
    InternalModule::native("verif:host").with_function("LOG", host_log, 1).with_function("ERR", host_err, 1).build()
}

pub fn new_interpreter() -> Interpreter {
    Interpreter::with_config(InterpreterConfig { internal_modules: vec![create_eval_internal_module(), host_module()], ..Default::default() })
}

pub fn err_canon(e: &JsError) -> String {
    match e {
        JsError::ThrownValue { guarded } => canon(&guarded.value, 3),
        JsError::TypeError { .. } => "err:TypeError".into(),
        JsError::ReferenceError { .. } => "err:ReferenceError".into(),
        JsError::RangeError { .. } => "err:RangeError".into(),
        JsError::SyntaxError { .. } => "err:SyntaxError".into(),
        JsError::RuntimeError { kind, .. } => format!("err:{}", kind),
        other => format!("err:?{}", other.to_string().chars().take(60).collect::<String>()),
    }
}

pub struct RunOut { pub ev: Vec<String>, pub status: String, pub steps: u64, pub err: Option<String> }

/// Runs one program to its end under the given host mode.
pub fn run_source(it: &mut Interpreter, source: &str, path: Option<&str>, resp: &[serde_json::Value], mode: &str, collect_every: u64, max_steps: u64) -> RunOut {
    run_source_api(it, source, path, resp, mode, collect_every, max_steps, false)
}

/// `use_eval`: start the program with Interpreter::eval (which runs as far as it can on its own) instead of prepare
#[allow(clippy::too_many_arguments)]
pub fn run_source_api(it: &mut Interpreter, source: &str, path: Option<&str>, resp: &[serde_json::Value], mode: &str, collect_every: u64, max_steps: u64, use_eval: bool) -> RunOut {
    EVENTS.with(|e| e.borrow_mut().clear());
    let mut nth = 0usize;
    let mut held: Vec<(RuntimeValue, usize)> = Vec::new();
    let mut settled: Vec<RuntimeValue> = Vec::new();
    let mut r = if use_eval { it.eval(source, path.map(ModulePath::new)) } else { it.prepare(source, path.map(ModulePath::new)) };
    let mut steps = 0u64;
    let mut err: Option<String> = None;
    let mut spurious = 0u32;
    let status = loop {
        steps += 1;
        if steps > max_steps { break "TIMEOUT".to_string(); }
        if collect_every > 0 && steps % collect_every == 0 { it.collect(); }
        match r {
            Err(e) => { err = Some(e.to_string().lines().next().unwrap_or("").chars().take(200).collect()); EVENTS.with(|ev| ev.borrow_mut().push(format!("X|{}", err_canon(&e)))); break "ERROR".into(); }
            Ok(StepResult::Continue) => {}
            Ok(StepResult::Complete(v)) => { EVENTS.with(|ev| ev.borrow_mut().push(format!("C|{}", canon(v.value(), 3)))); break "COMPLETE".into(); }
            Ok(StepResult::Done) => break "DONE".into(),
            Ok(StepResult::NeedImports(_)) => break "NEEDIMPORTS".into(),
            Ok(StepResult::Suspended { pending, .. }) => {
                if pending.is_empty() {
                    if mode == "spurious" && spurious < 2 { spurious += 1; r = it.step(); continue; }
                    // "batch": plain answers, the whole batch in one fulfill_orders call; responses delivered earlier are
                    // picked up by later steps, so an empty suspension is only a deadlock when it persists
                    if mode == "batch" && spurious < 10 { spurious += 1; r = it.step(); continue; }
                    spurious = 0;
                    if held.is_empty() { break "STUCK".into(); }
                    let (p, k) = held.remove(0);
                    let rv = &resp[k % resp.len().max(1)];
                    let res = if rv["k"] == "err" { api::reject_promise(it, &p, RuntimeValue::unguarded(JsValue::from("TypeError: boom"))) }
                              else { api::resolve_promise(it, &p, RuntimeValue::unguarded(JsValue::Number(rv["v"].as_f64().unwrap_or(0.0)))) };
                    if res.is_err() { break "HOSTAPI-ERROR".into(); }
                    // the promise was handed over as an UNGUARDED response value: an order issued by a native caller picks
                    // its response up only when the program gets to it, so the host keeps its guard to the end of the run
                    settled.push(p);
                } else {
                    spurious = 0;
                    let mut rs = Vec::new();
                    for o in pending {
                        EVENTS.with(|ev| ev.borrow_mut().push(format!("O|{}", canon(o.payload.value(), 3))));
                        let k = nth; nth += 1;
                        let rv = if resp.is_empty() { serde_json::json!({"k":"val","v":0}) } else { resp[k % resp.len()].clone() };
                        if mode != "immediate" && mode != "batch" {
                            let p = api::create_promise(it);
                            let pv = p.value().clone();
                            rs.push(OrderResponse { id: o.id, result: Ok(RuntimeValue::unguarded(pv)) });
                            held.push((p, k));
                        } else if rv["k"] == "err" { rs.push(OrderResponse { id: o.id, result: Err(JsError::type_error("boom")) }); }
                        else { rs.push(OrderResponse { id: o.id, result: Ok(RuntimeValue::unguarded(JsValue::Number(rv["v"].as_f64().unwrap_or(0.0)))) }); }
                    }
                    it.fulfill_orders(rs);
                }
            }
        }
        r = it.step();
    };
    let ev = EVENTS.with(|e| e.borrow_mut().drain(..).collect());
    drop(settled);
    RunOut { ev, status, steps, err }
}

pub fn main(_args: &[String]) -> i32 {
    let stdin = std::io::stdin();
    let out = std::io::stdout();
    let mut out = out.lock();
    for line in stdin.lock().lines() {
        let Ok(line) = line else { break };
        if line.trim().is_empty() { continue; }
        let Ok(j) = serde_json::from_str::<serde_json::Value>(&line) else { eprintln!("bad job"); return 2; };
        let resp: Vec<serde_json::Value> = j["resp"].as_array().cloned().unwrap_or_default();
        let mode = j["mode"].as_str().unwrap_or("immediate").to_string();
        let src = j["source"].as_str().unwrap_or("").to_string();
        let path = j["path"].as_str().map(|s| s.to_string());
        let gc = j["gc"].as_u64();
        let collect_every = j["collect_every"].as_u64().unwrap_or(0);
        let max_steps = j["max_steps"].as_u64().unwrap_or(200_000);
        let r = std::panic::catch_unwind(std::panic::AssertUnwindSafe(|| {
            let mut it = new_interpreter();
            if let Some(t) = gc { it.set_gc_threshold(t as usize); }
            let o = run_source(&mut it, &src, path.as_deref(), &resp, &mode, collect_every, max_steps);
            #[cfg(tsrun_verif)]
            let stale = tsrun::gc::verif::take_stale();
            #[cfg(not(tsrun_verif))]
            let stale: Vec<String> = Vec::new();
            (o, stale)
        }));
        let rec = match r {
            Ok((o, stale)) => serde_json::json!({"id": j["id"], "ev": o.ev, "status": o.status, "steps": o.steps, "err": o.err, "stale": stale}),
            Err(_) => { let ev: Vec<String> = EVENTS.with(|e| e.borrow_mut().drain(..).collect()); serde_json::json!({"id": j["id"], "ev": ev, "status": "PANIC", "steps": 0}) }
        };
        let _ = writeln!(out, "{}", rec);
        let _ = out.flush();
    }
    0
}
