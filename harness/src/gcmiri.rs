// C13: memory verdict.  The same GcHeap.tla behaviours (and gctrace histories) in a compact text form,
// executed on the real Heap<TestObj> without JSON so that the binary is cheap enough to run under Miri.
// Input lines:  "B <ng> <nh>" starts a behaviour; "<opcode> <g> <h> <h2> <v>" is one call; the functional
// comparison with the spec is done by `gcreplay` natively - here only a checksum of what is legally
// readable is printed, so that reads really happen.
use crate::gcreplay::World;

const OPS: [&str; 14] = ["create_guard", "drop_guard", "clear", "alloc", "clone", "drop", "guard", "unguard",
    "write", "link", "unlink", "collect", "set_threshold", "drop_heap"];

pub fn main(_args: &[String]) -> i32 {
    let mut w: Option<World> = None;
    let (mut nb, mut nc, mut sum) = (0u64, 0u64, 0i64);
    let mut all = Vec::new();
    if std::io::Read::read_to_end(&mut std::io::stdin().lock(), &mut all).is_err() { return 2; }
    for raw in all.split(|&b| b == b'\n') {
        // hand-rolled parsing: formatting machinery is very slow under Miri
        let mut toks: Vec<&[u8]> = raw.split(|&b| b == b' ').filter(|t| !t.is_empty()).collect();
        if toks.is_empty() { continue; }
        let first_tok = toks.remove(0);
        let num = |t: &[u8]| -> i64 { let mut n = 0i64; for &c in t { if c.is_ascii_digit() { n = n * 10 + (c - b'0') as i64; } } n };
        let nums: Vec<i64> = toks.iter().map(|t| num(t)).collect();
        let first = if first_tok == b"B" { "B" } else { "" };
        if first == "B" {
            let ng = nums.first().copied().unwrap_or(4) as usize;
            let nh = nums.get(1).copied().unwrap_or(6) as usize;
            w = Some(World::new(ng, nh));
            nb += 1;
            continue;
        }
        let Some(world) = w.as_mut() else { continue };
        let code = num(first_tok) as usize;
        let Some(name) = OPS.get(code) else { continue };
        let g = |i: usize| nums.get(i).copied().unwrap_or(0);
        let _ = world.apply_raw(name, g(0) as usize, g(1) as usize, g(2) as usize, g(3));
        nc += 1;
        // read through the handle the caller marked as current (5th number = 1)
        if g(4) == 1 {
            if let Some(Some(o)) = world.hs.get(g(1) as usize) {
                let b = o.borrow();
                sum += b.v + b.refs.iter().map(|k| k.borrow().v).sum::<i64>();
            }
        }
        if let Some(hp) = &world.heap { sum += hp.stats().live_objects as i64; }
    }
    println!("MIRI-REPLAY behaviours={} calls={} checksum={}", nb, nc, sum);
    0
}
