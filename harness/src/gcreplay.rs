// C13 (flow R): replay of GcHeap.tla behaviours on the real Heap<TestObj>.
// stdin: raw TLC output; every `<<"B", "<json>">>` line is one behaviour {hist:[{op,..,obs}]}.
// After EVERY call the abstract observation (live/total/pooled counts, guard lengths, and for each
// current handle its value, number of stored references and slot) is compared with the spec's.
// The same binary runs under Miri, which supplies the memory-safety verdict for these histories.
use std::collections::HashMap;
use std::io::{BufRead, Write};
use tsrun::gc::{Gc, GcPtr, Guard, Heap, Reset, Traceable};

#[derive(Default, Debug)]
pub struct TestObj {
    pub v: i64,
    pub refs: Vec<Gc<TestObj>>,
}
impl Reset for TestObj {
    fn reset(&mut self) {
        self.v = 0;
        self.refs.clear();
    }
}
impl Traceable for TestObj {
    fn trace<F: FnMut(GcPtr<Self>)>(&self, mut f: F) {
        for r in &self.refs {
            f(r.copy_ref());
        }
    }
}

pub struct World {
    pub heap: Option<Heap<TestObj>>,
    pub guards: Vec<Option<Guard<TestObj>>>,
    pub hs: Vec<Option<Gc<TestObj>>>,
    pub slot_of: HashMap<usize, i64>,
}

impl World {
    pub fn new(ng: usize, nh: usize) -> World {
        let heap: Heap<TestObj> = Heap::new();
        heap.set_gc_threshold(0);
        World {
            heap: Some(heap),
            guards: (0..=ng).map(|_| None).collect(),
            hs: (0..=nh).map(|_| None).collect(),
            slot_of: HashMap::new(),
        }
    }
    fn slot(&mut self, id: usize) -> i64 {
        let n = self.slot_of.len() as i64 + 1;
        *self.slot_of.entry(id).or_insert(n)
    }
    /// applies one call; returns the call's own return value if it has one
    pub fn apply(&mut self, op: &serde_json::Value) -> Result<Option<bool>, String> {
        let g = op["g"].as_u64().unwrap_or(0) as usize;
        let h = op["h"].as_u64().unwrap_or(0) as usize;
        let h2 = op["h2"].as_u64().unwrap_or(0) as usize;
        let name = op["op"].as_str().unwrap_or("");
        let v = op["v"].as_i64().or(op["n"].as_i64()).unwrap_or(0);
        self.apply_raw(name, g, h, h2, v)
    }
    pub fn apply_raw(&mut self, name: &str, g: usize, h: usize, h2: usize, v: i64) -> Result<Option<bool>, String> {
        let gref = |w: &World| w.guards.get(g).and_then(|x| x.as_ref()).is_some();
        let href = |w: &World, i: usize| w.hs.get(i).and_then(|x| x.as_ref()).is_some();
        match name {
            "create_guard" => {
                let gd = self.heap.as_ref().ok_or("no heap")?.create_guard();
                self.guards[g] = Some(gd);
            }
            "drop_guard" => self.guards[g] = None,
            "clear" => {
                if !gref(self) { return Err("no guard".into()); }
                self.guards[g].as_ref().map(|x| x.clear());
            }
            "alloc" => {
                if !gref(self) { return Err("no guard".into()); }
                let o = self.guards[g].as_ref().map(|x| x.alloc());
                if let Some(o) = &o { let id = o.id(); self.slot(id); }
                self.hs[h] = o;
            }
            "clone" => {
                if !href(self, h) { return Err("no handle".into()); }
                let c = self.hs[h].as_ref().map(|x| x.clone());
                self.hs[h2] = c;
            }
            "drop" => self.hs[h] = None,
            "guard" => {
                if !gref(self) || !href(self, h) { return Err("no guard/handle".into()); }
                let c = self.hs[h].as_ref().map(|x| x.clone());
                if let (Some(gd), Some(c)) = (self.guards[g].as_ref(), c) { gd.guard(c); }
            }
            "unguard" => {
                if !gref(self) || !href(self, h) { return Err("no guard/handle".into()); }
                let r = match (self.guards[g].as_ref(), self.hs[h].as_ref()) {
                    (Some(gd), Some(o)) => gd.unguard(o),
                    _ => false,
                };
                return Ok(Some(r));
            }
            "write" => {
                if !href(self, h) { return Err("no handle".into()); }
                if let Some(o) = self.hs[h].as_ref() { o.borrow_mut().v = v; }
            }
            "link" => {
                if !href(self, h) || !href(self, h2) { return Err("no handle".into()); }
                let c = self.hs[h2].as_ref().map(|x| x.clone());
                if let (Some(o), Some(c)) = (self.hs[h].as_ref(), c) { o.borrow_mut().refs.push(c); }
            }
            "unlink" => {
                if !href(self, h) { return Err("no handle".into()); }
                let old = self.hs[h].as_ref().map(|o| std::mem::take(&mut o.borrow_mut().refs));
                drop(old);
            }
            "collect" => self.heap.as_ref().ok_or("no heap")?.collect(),
            "set_threshold" => self.heap.as_ref().ok_or("no heap")?.set_gc_threshold(v as usize),
            "drop_heap" => self.heap = None,
            o => return Err(format!("unknown op {o}")),
        }
        Ok(None)
    }
    /// observation in the spec's compact form; handle contents are read only where the spec says the
    /// handle is current (reading through a stale handle is not an operation of the property)
    pub fn observe(&mut self, want: &serde_json::Value) -> serde_json::Value {
        let (live, total, pooled) = match &self.heap {
            Some(hp) => { let s = hp.stats(); (s.live_objects as i64, s.total_objects as i64, s.pooled_objects as i64) }
            None => (-1, -1, -1),
        };
        let glen: Vec<i64> = self.guards.iter().skip(1).map(|g| g.as_ref().map(|g| g.len() as i64).unwrap_or(-1)).collect();
        let mut hv: Vec<serde_json::Value> = Vec::new();
        for i in 1..self.hs.len() {
            let cur = want[4].get(i - 1).and_then(|x| x.get(0)).and_then(|x| x.as_i64()).unwrap_or(0) == 1;
            let rec = match (&self.hs[i], cur) {
                (Some(o), true) => {
                    let (v, n) = { let b = o.borrow(); (b.v, b.refs.len() as i64) };
                    let id = o.id();
                    let s = self.slot(id);
                    serde_json::json!([1, v, n, s])
                }
                _ => serde_json::json!([0, 0, 0, 0]),
            };
            hv.push(rec);
        }
        serde_json::json!([live, total, pooled, glen, hv])
    }
}

pub fn replay_behaviour(b: &serde_json::Value, ng: usize, nh: usize) -> Option<String> {
    let mut w = World::new(ng, nh);
    let hist = b["hist"].as_array()?;
    for (i, op) in hist.iter().enumerate() {
        let r = std::panic::catch_unwind(std::panic::AssertUnwindSafe(|| w.apply(op)));
        match r {
            Err(_) => return Some(format!("step {}: {} panicked", i + 1, op["op"])),
            Ok(Err(e)) => return Some(format!("step {}: harness cannot apply {}: {}", i + 1, op, e)),
            Ok(Ok(ret)) => {
                if let (Some(r), Some(want)) = (ret, op.get("ret").and_then(|x| x.as_bool())) {
                    if r != want { return Some(format!("step {}: {} returned {}, spec says {}", i + 1, op["op"], r, want)); }
                }
            }
        }
        let want = &op["obs"];
        let got = w.observe(want);
        if &got != want {
            return Some(format!("step {} ({}): observation impl={} spec={}", i + 1, op["op"], got, want));
        }
    }
    None
}

pub fn main(args: &[String]) -> i32 {
    let ng: usize = args.get(0).and_then(|s| s.parse().ok()).unwrap_or(4);
    let nh: usize = args.get(1).and_then(|s| s.parse().ok()).unwrap_or(6);
    let limit: u64 = args.get(2).and_then(|s| s.parse().ok()).unwrap_or(u64::MAX);
    let stdin = std::io::stdin();
    let out = std::io::stdout();
    let mut out = std::io::BufWriter::new(out.lock());
    let (mut n, mut bad, mut calls) = (0u64, 0u64, 0u64);
    let mut sample: Option<serde_json::Value> = None;
    for line in stdin.lock().lines() {
        let Ok(line) = line else { break };
        let Some(b) = crate::pathnorm::parse_tlc_print(&line, "B") else {
            let _ = writeln!(out, "TLC: {}", line);
            continue;
        };
        if n >= limit { continue; }
        n += 1;
        calls += b["hist"].as_array().map(|a| a.len() as u64).unwrap_or(0);
        if let Some(msg) = replay_behaviour(&b, ng, nh) {
            bad += 1;
            if bad <= 20 {
                let ops: Vec<serde_json::Value> = b["hist"].as_array().map(|a| a.iter().map(|o| { let mut o = o.clone(); if let Some(m) = o.as_object_mut() { m.remove("obs"); } o }).collect()).unwrap_or_default();
                let _ = writeln!(out, "MISMATCH {}", serde_json::json!({"why": msg, "ops": ops, "behaviour": b}));
            }
        } else if n % 997 == 1 || sample.is_none() {
            let ops: Vec<serde_json::Value> = b["hist"].as_array().map(|a| a.iter().map(|o| { let mut o = o.clone(); if let Some(m) = o.as_object_mut() { m.remove("obs"); } o }).collect()).unwrap_or_default();
            sample = Some(serde_json::json!(ops));
        }
    }
    let _ = writeln!(out, "SUMMARY {}", serde_json::json!({"behaviours": n, "calls": calls, "mismatches": bad, "sample": sample}));
    0
}
