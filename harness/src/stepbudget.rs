// C06: per host step() work (hook H3) for a program; child-process isolation is provided by the caller
// (run_jobs restarts a crashed child).  stdin: {id, source, max_steps}  stdout: {id, status, host_steps, max_instr, max_depth, call_depth_max, err}
use std::io::{BufRead, Write};
use tsrun::{ModulePath, StepResult};

pub fn main(_args: &[String]) -> i32 {
    let stdin = std::io::stdin();
    let out = std::io::stdout();
    let mut out = out.lock();
    for line in stdin.lock().lines() {
        let Ok(line) = line else { break };
        if line.trim().is_empty() { continue; }
        let Ok(j) = serde_json::from_str::<serde_json::Value>(&line) else { return 2; };
        let src = j["source"].as_str().unwrap_or("").to_string();
        let max_steps = j["max_steps"].as_u64().unwrap_or(400_000);
        let r = std::panic::catch_unwind(std::panic::AssertUnwindSafe(|| {
            let mut it = crate::prog::new_interpreter();
            let mut r = it.prepare(&src, Some(ModulePath::new("/p/main.ts")));
            #[cfg(tsrun_verif)]
            let _ = tsrun::verif::take_step_counters();
            let (mut steps, mut max_i, mut max_d, mut cd) = (0u64, 0u64, 0u32, 0usize);
            let status;
            let mut err = String::new();
            loop {
                match r {
                    Ok(StepResult::Continue) => {}
                    Ok(StepResult::Complete(_)) => { status = "COMPLETE".to_string(); break; }
                    Ok(StepResult::Suspended { .. }) => { status = "SUSPENDED".to_string(); break; }
                    Ok(_) => { status = "OTHER".to_string(); break; }
                    Err(e) => { status = "ERROR".to_string(); err = crate::prog::err_canon(&e); break; }
                }
                if steps >= max_steps { status = "HOST-STOPPED".to_string(); break; }
                r = it.step(); steps += 1;
                #[cfg(tsrun_verif)]
                { let (i, d) = tsrun::verif::take_step_counters(); if i > max_i { max_i = i; } if d > max_d { max_d = d; } }
                let c = it.call_depth(); if c > cd { cd = c; }
            }
            serde_json::json!({"id": j["id"], "status": status, "host_steps": steps, "max_instr": max_i, "max_depth": max_d, "call_depth_max": cd, "err": err})
        }));
        let rec = match r { Ok(v) => v, Err(_) => serde_json::json!({"id": j["id"], "status": "PANIC"}) };
        let _ = writeln!(out, "{}", rec); let _ = out.flush();
    }
    0
}
