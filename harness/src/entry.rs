// C19: one program through every way of running it.  The observable is the program's own completion value (the
// program collects its log into a string), the order traffic, and the import requests.
// stdin : ndjson jobs {id, source, resp:[{k,v}|{k:"err"}], roles:bool}
// stdout: {id, runs: {driver: {status, value, orders:[payload...], err}}}
use std::ffi::{c_char, CStr, CString};
use std::io::{BufRead, Write};
use tsrun::ffi::{TsRunContext, TsRunOrderResponse, TsRunResult, TsRunStepResult, TsRunStepStatus, TsRunValue, TsRunValueResult};
use tsrun::{create_eval_internal_module, InternalModule, Interpreter, InterpreterConfig, JsError, JsValue, ModulePath, OrderResponse, RuntimeValue, StepResult};

unsafe extern "C" {
    fn tsrun_new() -> *mut TsRunContext;
    fn tsrun_free(ctx: *mut TsRunContext);
    fn tsrun_prepare(ctx: *mut TsRunContext, code: *const c_char, path: *const c_char) -> TsRunResult;
    fn tsrun_step(out: *mut TsRunStepResult, ctx: *mut TsRunContext);
    fn tsrun_run(out: *mut TsRunStepResult, ctx: *mut TsRunContext);
    fn tsrun_step_result_free(r: *mut TsRunStepResult);
    fn tsrun_get_string(v: *const TsRunValue) -> *const c_char;
    fn tsrun_is_string(v: *const TsRunValue) -> bool;
    fn tsrun_is_number(v: *const TsRunValue) -> bool;
    fn tsrun_is_boolean(v: *const TsRunValue) -> bool;
    fn tsrun_is_null(v: *const TsRunValue) -> bool;
    fn tsrun_is_undefined(v: *const TsRunValue) -> bool;
    fn tsrun_get_number(v: *const TsRunValue) -> f64;
    fn tsrun_get_bool(v: *const TsRunValue) -> bool;
    fn tsrun_number(ctx: *mut TsRunContext, n: f64) -> *mut TsRunValue;
    fn tsrun_fulfill_orders(ctx: *mut TsRunContext, responses: *const TsRunOrderResponse, count: usize) -> TsRunResult;
    fn tsrun_provide_module(ctx: *mut TsRunContext, path: *const c_char, code: *const c_char) -> TsRunResult;
    fn tsrun_get_export(ctx: *mut TsRunContext, name: *const c_char) -> TsRunValueResult;
    fn tsrun_value_free(v: *mut TsRunValue);
}

fn val_str(v: &JsValue) -> String {
    match v { JsValue::String(s) => s.as_str().to_string(), JsValue::Undefined => "<undefined>".into(), other => format!("<{}>", crate::prog::canon(other, 1)) }
}

struct Out { status: String, value: String, orders: Vec<String>, err: String, requests: Vec<String>, export: String }
impl Out { fn json(&self) -> serde_json::Value { serde_json::json!({"status": self.status, "value": self.value, "orders": self.orders, "err": self.err, "requests": self.requests, "export": self.export}) } }

fn mk(internal: Option<(&str, &str)>) -> Interpreter {
    let mut mods = vec![create_eval_internal_module()];
    if let Some((spec, src)) = internal { mods.push(InternalModule::source(spec, src)); }
    Interpreter::with_config(InterpreterConfig { internal_modules: mods, ..Default::default() })
}

/// native drivers: prepare+step (optionally with interleaved host reads), or eval
fn native(src: &str, path: Option<&str>, resp: &[serde_json::Value], mode: &str, provide: &[(String, String)], internal: Option<(&str, &str)>) -> Out {
    let mut it = mk(internal);
    let mut o = Out { status: String::new(), value: String::new(), orders: vec![], err: String::new(), requests: vec![], export: String::new() };
    let mut nth = 0usize;
    let mut r = if mode == "eval" { it.eval(src, path.map(ModulePath::new)) } else { it.prepare(src, path.map(ModulePath::new)) };
    let mut steps = 0u64;
    loop {
        steps += 1;
        if steps > 400_000 { o.status = "TIMEOUT".into(); break; }
        if mode == "reads" && steps % 3 == 0 { let _ = it.get_export_names(); let _ = it.gc_stats(); let _ = it.call_depth(); let _ = it.get_export("result"); }
        match r {
            Err(e) => { o.status = "ERROR".into(); o.err = crate::prog::err_canon(&e); break; }
            Ok(StepResult::Continue) => {}
            Ok(StepResult::Complete(v)) => { o.status = "COMPLETE".into(); o.value = val_str(v.value()); break; }
            Ok(StepResult::Done) => { o.status = "DONE".into(); break; }
            Ok(StepResult::NeedImports(reqs)) => {
                let mut any = false;
                for q in &reqs {
                    o.requests.push(format!("{}|{}|{}", q.specifier, q.resolved_path.as_str(), q.importer.as_ref().map(|p| p.as_str().to_string()).unwrap_or_default()));
                    if let Some((_, s)) = provide.iter().find(|(p, _)| p == q.resolved_path.as_str()) {
                        if it.provide_module(q.resolved_path.clone(), s).is_ok() { any = true; }
                    }
                }
                if !any { o.status = "NEEDIMPORTS".into(); break; }
            }
            Ok(StepResult::Suspended { pending, .. }) => {
                if pending.is_empty() { o.status = "STUCK".into(); break; }
                let mut rs = Vec::new();
                for ord in pending {
                    o.orders.push(crate::prog::canon(ord.payload.value(), 2));
                    let rv = if resp.is_empty() { serde_json::json!({"k":"val","v":0}) } else { resp[nth % resp.len()].clone() };
                    nth += 1;
                    if rv["k"] == "err" { rs.push(OrderResponse { id: ord.id, result: Err(JsError::type_error("boom")) }); }
                    else { rs.push(OrderResponse { id: ord.id, result: Ok(RuntimeValue::unguarded(JsValue::Number(rv["v"].as_f64().unwrap_or(0.0)))) }); }
                }
                it.fulfill_orders(rs);
            }
        }
        r = it.step();
    }
    if let Some(v) = it.get_export("result") { o.export = val_str(&v); }
    o
}

unsafe fn ffi_canon(v: *const TsRunValue) -> String {
    unsafe {
        if v.is_null() { return "<null>".into(); }
        if tsrun_is_number(v) { return crate::prog::canon(&JsValue::Number(tsrun_get_number(v)), 1); }
        if tsrun_is_string(v) { return crate::prog::canon(&JsValue::from(CStr::from_ptr(tsrun_get_string(v)).to_string_lossy().to_string()), 1); }
        if tsrun_is_boolean(v) { return crate::prog::canon(&JsValue::Boolean(tsrun_get_bool(v)), 1); }
        if tsrun_is_null(v) { return "N".into(); }
        if tsrun_is_undefined(v) { return "U".into(); }
        "obj".into()
    }
}

/// C API drivers: tsrun_run (runs to a terminal result) or tsrun_step (one instruction at a time)
fn ffi(src: &str, path: Option<&str>, resp: &[serde_json::Value], by_step: bool, provide: &[(String, String)]) -> Out {
    let mut o = Out { status: String::new(), value: String::new(), orders: vec![], err: String::new(), requests: vec![], export: String::new() };
    unsafe {
        let ctx = tsrun_new();
        let code = CString::new(src).unwrap_or_default();
        let p = path.map(|p| CString::new(p).unwrap_or_default());
        let pr = tsrun_prepare(ctx, code.as_ptr(), p.as_ref().map(|c| c.as_ptr()).unwrap_or(std::ptr::null()));
        if !pr.ok {
            o.status = "ERROR".into();
            o.err = if pr.error.is_null() { String::new() } else { CStr::from_ptr(pr.error).to_string_lossy().chars().take(80).collect() };
            tsrun_free(ctx); return o;
        }
        let mut nth = 0usize; let mut steps = 0u64;
        loop {
            steps += 1;
            if steps > 400_000 { o.status = "TIMEOUT".into(); break; }
            let mut sr = std::mem::MaybeUninit::<TsRunStepResult>::uninit();
            if by_step { tsrun_step(sr.as_mut_ptr(), ctx); } else { tsrun_run(sr.as_mut_ptr(), ctx); }
            let mut sr = sr.assume_init();
            let mut stop = true;
            match sr.status {
                TsRunStepStatus::Continue => { stop = false; }
                TsRunStepStatus::Complete => {
                    o.status = "COMPLETE".into();
                    o.value = if !sr.value.is_null() && tsrun_is_string(sr.value) { CStr::from_ptr(tsrun_get_string(sr.value)).to_string_lossy().to_string() } else if sr.value.is_null() { "<null>".into() } else { format!("<{}>", ffi_canon(sr.value)) };
                }
                TsRunStepStatus::Done => { o.status = "DONE".into(); }
                TsRunStepStatus::Error => { o.status = "ERROR".into(); o.err = if sr.error.is_null() { String::new() } else { CStr::from_ptr(sr.error).to_string_lossy().chars().take(80).collect() }; }
                TsRunStepStatus::NeedImports => {
                    let mut any = false;
                    for i in 0..sr.import_count {
                        let q = &*sr.imports.add(i);
                        let spec = CStr::from_ptr(q.specifier).to_string_lossy().to_string();
                        let res = CStr::from_ptr(q.resolved_path).to_string_lossy().to_string();
                        let imp = if q.importer.is_null() { String::new() } else { CStr::from_ptr(q.importer).to_string_lossy().to_string() };
                        o.requests.push(format!("{}|{}|{}", spec, res, imp));
                        if let Some((_, s)) = provide.iter().find(|(p, _)| *p == res) {
                            let cp = CString::new(res.clone()).unwrap_or_default(); let cs = CString::new(s.as_str()).unwrap_or_default();
                            if tsrun_provide_module(ctx, cp.as_ptr(), cs.as_ptr()).ok { any = true; }
                        }
                    }
                    if any { stop = false; } else { o.status = "NEEDIMPORTS".into(); }
                }
                TsRunStepStatus::Suspended => {
                    if sr.pending_count == 0 { o.status = "STUCK".into(); }
                    else {
                        let mut rs: Vec<TsRunOrderResponse> = Vec::new();
                        let errc = CString::new("boom").unwrap_or_default();
                        for i in 0..sr.pending_count {
                            let ord = &*sr.pending_orders.add(i);
                            let payload = ffi_canon(ord.payload);
                            o.orders.push(payload);
                            let rv = if resp.is_empty() { serde_json::json!({"k":"val","v":0}) } else { resp[nth % resp.len()].clone() };
                            nth += 1;
                            if rv["k"] == "err" { rs.push(TsRunOrderResponse { id: ord.id, value: std::ptr::null_mut(), error: errc.as_ptr() }); }
                            else { rs.push(TsRunOrderResponse { id: ord.id, value: tsrun_number(ctx, rv["v"].as_f64().unwrap_or(0.0)), error: std::ptr::null() }); }
                        }
                        let fr = tsrun_fulfill_orders(ctx, rs.as_ptr(), rs.len());
                        for r in &rs { if !r.value.is_null() { tsrun_value_free(r.value); } }
                        if fr.ok { stop = false; } else { o.status = "FULFILL-ERROR".into(); }
                    }
                }
            }
            tsrun_step_result_free(&mut sr);
            if stop { break; }
        }
        let name = CString::new("result").unwrap_or_default();
        let ex = tsrun_get_export(ctx, name.as_ptr());
        if !ex.value.is_null() {
            if tsrun_is_string(ex.value) { o.export = CStr::from_ptr(tsrun_get_string(ex.value)).to_string_lossy().to_string(); }
            tsrun_value_free(ex.value);
        }
        tsrun_free(ctx);
    }
    o
}

pub fn main(_args: &[String]) -> i32 {
    let stdin = std::io::stdin();
    let out = std::io::stdout();
    let mut out = out.lock();
    for line in stdin.lock().lines() {
        let Ok(line) = line else { break };
        if line.trim().is_empty() { continue; }
        let Ok(j) = serde_json::from_str::<serde_json::Value>(&line) else { eprintln!("bad job"); return 2; };
        let src = j["source"].as_str().unwrap_or("").to_string();
        let dep = j["dep_source"].as_str().unwrap_or("").to_string();
        let resp: Vec<serde_json::Value> = j["resp"].as_array().cloned().unwrap_or_default();
        let r = std::panic::catch_unwind(std::panic::AssertUnwindSafe(|| {
            let mut runs = serde_json::Map::new();
            let none: Vec<(String, String)> = Vec::new();
            // "script": true runs the program WITHOUT a module path (a script) through every entry point
            let path = if j["script"].as_bool().unwrap_or(false) { None } else { Some("/p/main.ts") };
            runs.insert("step".into(), native(&src, path, &resp, "step", &none, None).json());
            runs.insert("eval".into(), native(&src, path, &resp, "eval", &none, None).json());
            runs.insert("step_reads".into(), native(&src, path, &resp, "reads", &none, None).json());
            runs.insert("ffi_run".into(), ffi(&src, path, &resp, false, &none).json());
            runs.insert("ffi_step".into(), ffi(&src, path, &resp, true, &none).json());
            if !dep.is_empty() {
                // the same program as a host-supplied dependency and as a registered internal source module
                let main_dep = "import { result } from \"./dep.ts\";\nresult;\n";
                let prov = vec![("/p/dep.ts".to_string(), dep.clone())];
                runs.insert("role_dependency".into(), native(main_dep, Some("/p/main.ts"), &resp, "step", &prov, None).json());
                runs.insert("role_dependency_ffi".into(), ffi(main_dep, Some("/p/main.ts"), &resp, false, &prov).json());
                let main_int = "import { result } from \"verif:prog\";\nresult;\n";
                runs.insert("role_internal".into(), native(main_int, Some("/p/main.ts"), &resp, "step", &none, Some(("verif:prog", dep.as_str()))).json());
            }
            serde_json::Value::Object(runs)
        }));
        let rec = match r { Ok(v) => serde_json::json!({"id": j["id"], "runs": v}), Err(_) => serde_json::json!({"id": j["id"], "runs": {}, "panic": true}) };
        let _ = writeln!(out, "{}", rec);
        let _ = out.flush();
    }
    0
}
