// C08 / C07 (flow R): replay of Orders.tla behaviours on the real interpreter.
// stdin: raw TLC output; each `<<"B", "<json>">>` line is {script, hist, viol, final, phase}.
// The abstract script is printed as TypeScript, the host side of the history (fulfil / settle / step) is
// played against Interpreter::{prepare, step, fulfill_orders} and api::{create_promise, create_order_promise,
// resolve_promise, reject_promise}; after every step-until-terminal the StepResult kind, the pending ids
// WITH THEIR PAYLOADS and the cancelled ids are compared with the specification's, and the completion
// value with the spec's final variable kinds.
use std::collections::HashMap;
use std::io::{BufRead, Write};
use tsrun::{api, create_eval_internal_module, Interpreter, InterpreterConfig, JsError, JsValue, ModulePath, OrderId, OrderResponse, RuntimeValue, StepResult};

pub fn script_to_ts(script: &serde_json::Value, nv: usize) -> (String, HashMap<u64, u64>) {
    let mut s = String::from("import { order, __cancelOrder__ } from \"tsrun:host\";\n");
    let vars: Vec<String> = (1..=nv).map(|i| format!("x{i}")).collect();
    s += &format!("let {}, w: any, wv: any;\n", vars.iter().map(|v| format!("{v}: any")).collect::<Vec<_>>().join(", "));
    let mut ids: HashMap<u64, u64> = HashMap::new(); // var -> order id
    let mut next = 1u64;
    let name = |v: u64| if v as usize > nv { "w".to_string() } else { format!("x{v}") };
    for op in script.as_array().map(|a| a.as_slice()).unwrap_or(&[]) {
        let v = op["v"].as_u64().unwrap_or(0);
        match op["o"].as_str().unwrap_or("") {
            "ord" => { ids.insert(v, next); next += 1; s += &format!("x{v} = order(\"p{v}\");\n"); }
            "tord" => { ids.insert(v, next); next += 1; s += &format!("try {{ x{v} = order(\"p{v}\"); }} catch (e) {{ x{v} = \"caught\"; }}\n"); }
            // the value the combinator result is fulfilled with is observed too
            "await" => s += &if v as usize > nv { "if (w !== \"caught\") wv = await w;\n".to_string() } else { format!("await {};\n", name(v)) },
            // (a combinator variable that already holds the marker "caught" is no promise any more: awaiting it again must not overwrite wv)
            "tawait" => s += &if v as usize > nv { "try { if (w !== \"caught\") wv = await w; } catch (e) { w = \"caught\"; }\n".to_string() } else { format!("try {{ await {0}; }} catch (e) {{ {0} = \"caught\"; }}\n", name(v)) },
            "comb" => {
                // inputs: the variables ordered so far, in variable order
                let ins: Vec<String> = (1..=nv as u64).filter(|v| ids.contains_key(v)).map(|v| format!("x{v}")).collect();
                s += &format!("w = Promise.{}([{}]);\n", op["k"].as_str().unwrap_or("all"), ins.join(", "));
            }
            "cancel" => s += &format!("__cancelOrder__({});\n", ids.get(&v).copied().unwrap_or(0)),
            _ => {}
        }
    }
    s += "const k = (x: any) => x === undefined ? \"unset\" : x === \"caught\" ? \"caught\" : (x instanceof Promise) ? \"prom\" : \"val\";\n";
    s += &format!("[{}, k(w)].join(\",\") + \"|\" + (wv === undefined ? \"-\" : JSON.stringify(wv));\n", vars.iter().map(|v| format!("k({v})")).collect::<Vec<_>>().join(", "));
    (s, ids)
}

pub struct Outcome { pub kind: String, pub pend: Vec<(u64, String)>, pub canc: Vec<u64>, pub value: Option<String>, pub steps: u64 }

pub fn run_to_terminal(it: &mut Interpreter, first: Option<Result<StepResult, JsError>>) -> Outcome {
    let mut r = match first { Some(r) => r, None => it.step() };
    let mut n = 0u64;
    let res = loop {
        match r {
            Ok(StepResult::Continue) => { n += 1; if n > 200_000 { break Err(JsError::type_error("VERIF-STEP-BUDGET")); } r = it.step(); }
            o => break o,
        }
    };
    match res {
        Ok(StepResult::Suspended { pending, cancelled }) => Outcome { kind: "Suspended".into(),
            pend: pending.iter().map(|o| (o.id.0, o.payload.as_str().unwrap_or("<non-string>").to_string())).collect(),
            canc: cancelled.iter().map(|c| c.0).collect(), value: None, steps: n },
        Ok(StepResult::Complete(v)) => Outcome { kind: "Complete".into(), pend: vec![], canc: vec![], value: v.as_str().map(|s| s.to_string()), steps: n },
        Ok(StepResult::Done) => Outcome { kind: "Done".into(), pend: vec![], canc: vec![], value: None, steps: n },
        Ok(StepResult::NeedImports(_)) => Outcome { kind: "NeedImports".into(), pend: vec![], canc: vec![], value: None, steps: n },
        Ok(StepResult::Continue) => Outcome { kind: "Continue".into(), pend: vec![], canc: vec![], value: None, steps: n },
        Err(e) => Outcome { kind: if e.to_string().contains("VERIF-STEP-BUDGET") { "Timeout".into() } else { "Error".into() }, pend: vec![], canc: vec![], value: Some(e.to_string()), steps: n },
    }
}

pub fn replay(b: &serde_json::Value, nv: usize, gc_threshold: Option<usize>) -> Result<(), String> {
    let (src, ids) = script_to_ts(&b["script"], nv);
    let var_of: HashMap<u64, u64> = ids.iter().map(|(v, id)| (*id, *v)).collect();
    let mut it = Interpreter::with_config(InterpreterConfig { internal_modules: vec![create_eval_internal_module()], ..Default::default() });
    if let Some(t) = gc_threshold { it.set_gc_threshold(t); }
    // Orders.tla's initial state is the PREPARED program (vm active): answers given before prepare() belong to no run
    // (prepare() discards them), so the host side of the history starts after prepare()
    let mut prepared = Some(it.prepare(&src, Some(ModulePath::new("/p/main.ts"))));
    let mut proms: HashMap<u64, RuntimeValue> = HashMap::new();
    let hist = b["hist"].as_array().cloned().unwrap_or_default();
    let mut k = 0usize;
    let mut last_kind = String::new();
    while k < hist.len() {
        let act = &hist[k];
        match act["a"].as_str().unwrap_or("") {
            "step" => {
                let o = match prepared.take() { Some(r) => run_to_terminal(&mut it, Some(r)), None => run_to_terminal(&mut it, None) };
                let ep: Vec<u64> = act["pending"].as_array().map(|a| a.iter().filter_map(|x| x.as_u64()).collect()).unwrap_or_default();
                let ec: Vec<u64> = act["cancelled"].as_array().map(|a| a.iter().filter_map(|x| x.as_u64()).collect()).unwrap_or_default();
                let gp: Vec<u64> = o.pend.iter().map(|p| p.0).collect();
                let want = act["r"].as_str().unwrap_or("");
                if o.kind != want || gp != ep || o.canc != ec {
                    return Err(format!("action {} (step): impl=({}, pending {:?}, cancelled {:?}{}) spec=({}, pending {:?}, cancelled {:?})", k + 1, o.kind, gp, o.canc,
                        o.value.as_ref().map(|v| format!(", value {v}")).unwrap_or_default(), want, ep, ec));
                }
                for (id, payload) in &o.pend {
                    let wantp = format!("p{}", var_of.get(id).copied().unwrap_or(0));
                    if *payload != wantp { return Err(format!("action {} (step): order {} carries payload {:?}, the program issued {:?}", k + 1, id, payload, wantp)); }
                }
                if o.kind == "Complete" {
                    let fin: Vec<String> = b["final"].as_array().map(|a| a.iter().map(|x| x.as_str().unwrap_or("").to_string()).collect()).unwrap_or_default();
                    // symbolic values of Orders.tla: "v<i>" = the plain answer to order i (100+i), "p<i>" = the value host promise i was fulfilled with (700+i)
                    let wg: Vec<String> = b["wgot"].as_array().map(|a| a.iter().map(|x| x.as_str().unwrap_or("").to_string()).collect()).unwrap_or_default();
                    let symval = |s: &str| -> String { if let Some(r) = s.strip_prefix('v') { format!("{}", 100 + r.parse::<u64>().unwrap_or(0)) } else if let Some(r) = s.strip_prefix('p') { format!("{}", 700 + r.parse::<u64>().unwrap_or(0)) } else { format!("\"{s}\"") } };
                    let is_race = b["script"].as_array().map(|a| a.iter().any(|op| op["o"] == "comb" && op["k"] == "race")).unwrap_or(false);
                    let got = o.value.clone().unwrap_or_default();
                    let (got_kinds, got_w) = match got.split_once('|') { Some((a, c)) => (a.to_string(), c.to_string()), None => (got.clone(), String::new()) };
                    let want_w = if wg.is_empty() { "-".to_string() } else if wg[0] == "?" { got_w.clone() } else if is_race { symval(&wg[0]) } else { format!("[{}]", wg.iter().map(|x| symval(x)).collect::<Vec<_>>().join(",")) };
                    let wantv = format!("{}|{}", fin.join(","), want_w);
                    if format!("{got_kinds}|{got_w}") != wantv { return Err(format!("action {} (step): completion value {:?}, spec says {:?}", k + 1, o.value, wantv)); }
                }
                last_kind = o.kind;
            }
            "fulfil" => {
                // consecutive answers are handed over in one fulfill_orders call (batching is part of the host's freedom)
                let mut batch = Vec::new();
                while k < hist.len() && hist[k]["a"] == "fulfil" {
                    let a = &hist[k];
                    let id = a["id"].as_u64().unwrap_or(0);
                    let result = match a["kind"].as_str().unwrap_or("") {
                        "val" => Ok(RuntimeValue::unguarded(JsValue::Number(100.0 + id as f64))),
                        "err" => Err(JsError::type_error("boom")),
                        kind => {
                            let p = if kind == "promL" { api::create_order_promise(&mut it, OrderId(id)) } else { api::create_promise(&mut it) };
                            let pv = p.value().clone();
                            proms.insert(id, p);
                            Ok(RuntimeValue::unguarded(pv))
                        }
                    };
                    batch.push(OrderResponse { id: OrderId(id), result });
                    k += 1;
                }
                it.fulfill_orders(batch);
                continue;
            }
            "settle" => {
                let pid = act["p"].as_u64().unwrap_or(0);
                let Some(p) = proms.get(&pid) else { return Err(format!("harness: no promise {pid}")) };
                let r = if act["s"] == "ful" { api::resolve_promise(&mut it, p, RuntimeValue::unguarded(JsValue::Number(700.0 + pid as f64))) }
                        else { api::reject_promise(&mut it, p, RuntimeValue::unguarded(JsValue::from("rejected"))) };
                if let Err(e) = r { return Err(format!("action {} (settle): api call failed: {}", k + 1, e)); }
            }
            a => return Err(format!("harness: unknown action {a}")),
        }
        k += 1;
    }
    let _ = last_kind;
    Ok(())
}

pub fn main(args: &[String]) -> i32 {
    let nv: usize = args.get(0).and_then(|s| s.parse().ok()).unwrap_or(2);
    let gc: Option<usize> = args.get(1).and_then(|s| s.parse().ok());
    let stdin = std::io::stdin();
    let out = std::io::stdout();
    let mut out = std::io::BufWriter::new(out.lock());
    let (mut n, mut bad, mut acts) = (0u64, 0u64, 0u64);
    let mut sample: Option<serde_json::Value> = None;
    let mut viol_counts: HashMap<String, u64> = HashMap::new();
    let mut viol_witness: HashMap<String, serde_json::Value> = HashMap::new();
    for line in stdin.lock().lines() {
        let Ok(line) = line else { break };
        let Some(b) = crate::pathnorm::parse_tlc_print(&line, "B") else {
            let _ = writeln!(out, "TLC: {}", line);
            continue;
        };
        n += 1;
        acts += b["hist"].as_array().map(|a| a.len() as u64).unwrap_or(0);
        let r = std::panic::catch_unwind(std::panic::AssertUnwindSafe(|| replay(&b, nv, gc)));
        let r = match r { Ok(r) => r, Err(_) => Err("the interpreter panicked".to_string()) };
        match r {
            Err(why) => {
                bad += 1;
                if bad <= 25 {
                    let _ = writeln!(out, "MISMATCH {}", serde_json::json!({"why": why, "script": b["script"], "hist": b["hist"], "source": script_to_ts(&b["script"], nv).0}));
                }
            }
            Ok(()) => {
                // the real interpreter followed this behaviour exactly: the spec's verdict on it is a verdict on the code
                for v in b["viol"].as_array().map(|a| a.as_slice()).unwrap_or(&[]) {
                    let name = v.as_str().unwrap_or("").to_string();
                    *viol_counts.entry(name.clone()).or_insert(0) += 1;
                    viol_witness.entry(name).or_insert_with(|| serde_json::json!({"script": b["script"], "hist": b["hist"], "source": script_to_ts(&b["script"], nv).0}));
                }
                if sample.is_none() || n % 1009 == 0 { sample = Some(serde_json::json!({"script": b["script"], "hist": b["hist"]})); }
            }
        }
    }
    let _ = writeln!(out, "SUMMARY {}", serde_json::json!({"behaviours": n, "actions": acts, "mismatches": bad, "sample": sample,
        "confirmed_violations": viol_counts, "witness": viol_witness}));
    0
}
