// C16 (flow R): JsonMap.tla inputs on the real interpreter, through every path data takes across the JSON boundary.
// stdin : ndjson jobs {id, source, doc?, text?}
//           doc  - the host's document (DOC() hands it to the script through api::create_from_json); numbers are
//                  written {"$bits":"<16 hex>"} (f64) or {"$int":"<decimal i64>"} so that no JSON parser of the
//                  harness sits between the generator and the interpreter
//           text - the JSON text TEXT() returns
// natives of module "verif:json": DOC(), TEXT(), DUMP(tag, v) (host-side structural dump, numbers as bit patterns),
//           OUT(tag, v) (tsrun::js_value_to_json -> serde_json text), TXT(tag, s)
// stdout: {id, rec:[[tag, kind, payload]], status, exported}
use std::cell::RefCell;
use std::io::{BufRead, Write};
use tsrun::value::{ExoticObject, PropertyKey};
use tsrun::{api, create_eval_internal_module, Guarded, InternalModule, Interpreter, InterpreterConfig, JsError, JsValue, ModulePath, StepResult};

thread_local! {
    static REC: RefCell<Vec<serde_json::Value>> = const { RefCell::new(Vec::new()) };
    static DOCV: RefCell<serde_json::Value> = const { RefCell::new(serde_json::Value::Null) };
    static TEXTV: RefCell<String> = const { RefCell::new(String::new()) };
}

fn decode(v: &serde_json::Value) -> serde_json::Value {
    use serde_json::Value as V;
    match v {
        V::Object(m) => {
            if let Some(V::String(h)) = m.get("$bits") {
                let bits = u64::from_str_radix(h, 16).unwrap_or(0);
                return serde_json::Number::from_f64(f64::from_bits(bits)).map(V::Number).unwrap_or(V::Null);
            }
            if let Some(V::String(d)) = m.get("$int") {
                return d.parse::<i64>().map(|i| V::Number(i.into())).unwrap_or(V::Null);
            }
            if let Some(V::Array(pairs)) = m.get("$obj") {
                // insertion in the generator's order (what a host building a serde_json::Map does)
                let mut out = serde_json::Map::new();
                for p in pairs { if let (Some(V::String(k)), Some(x)) = (p.get(0), p.get(1)) { out.insert(k.clone(), decode(x)); } }
                return V::Object(out);
            }
            V::Null
        }
        V::Array(a) => V::Array(a.iter().map(decode).collect()),
        o => o.clone(),
    }
}

fn dump(v: &JsValue, depth: usize) -> serde_json::Value {
    use serde_json::json;
    if depth == 0 { return json!({"t": "deep"}); }
    match v {
        JsValue::Undefined => json!({"t": "undef"}),
        JsValue::Null => json!({"t": "null"}),
        JsValue::Boolean(b) => json!({"t": "bool", "b": b}),
        JsValue::Number(n) => json!({"t": "num", "bits": format!("{:016x}", n.to_bits())}),
        JsValue::String(s) => json!({"t": "str", "s": s.as_str()}),
        JsValue::Symbol(_) => json!({"t": "sym"}),
        JsValue::Object(o) => {
            let b = o.borrow();
            match &b.exotic {
                ExoticObject::Function(_) => json!({"t": "fn"}),
                ExoticObject::Array { elements } => json!({"t": "arr", "xs": elements.iter().map(|e| dump(e, depth - 1)).collect::<Vec<_>>()}),
                ExoticObject::Ordinary => {
                    let mut ks = Vec::new(); let mut vs = Vec::new();
                    for k in b.own_keys() {
                        let name = match &k { PropertyKey::String(s) => s.as_str().to_string(), PropertyKey::Index(i) => i.to_string(), PropertyKey::Symbol(_) => continue };
                        if let Some(p) = b.get_own_property(&k) {
                            if !p.enumerable() { continue; }
                            ks.push(name); vs.push(if p.is_accessor() { json!({"t": "accessor"}) } else { dump(&p.value, depth - 1) });
                        }
                    }
                    json!({"t": "obj", "ks": ks, "vs": vs})
                }
                _ => json!({"t": "other"}),
            }
        }
    }
}

fn rec(tag: &JsValue, kind: &str, payload: serde_json::Value) {
    let t = match tag { JsValue::String(s) => s.as_str().to_string(), _ => "?".into() };
    REC.with(|r| r.borrow_mut().push(serde_json::json!([t, kind, payload])));
}
fn n_doc(it: &mut Interpreter, _this: JsValue, _a: &[JsValue]) -> Result<Guarded, JsError> {
    let d = DOCV.with(|d| d.borrow().clone());
    let guard = api::create_guard(it);
    let v = api::create_from_json(it, &guard, &d)?;
    Ok(Guarded::with_guard(v, guard))
}
fn n_text(_it: &mut Interpreter, _this: JsValue, _a: &[JsValue]) -> Result<Guarded, JsError> {
    Ok(Guarded::unguarded(JsValue::from(TEXTV.with(|t| t.borrow().clone()))))
}
fn n_dump(_it: &mut Interpreter, _this: JsValue, a: &[JsValue]) -> Result<Guarded, JsError> {
    rec(a.first().unwrap_or(&JsValue::Undefined), "dump", dump(a.get(1).unwrap_or(&JsValue::Undefined), 400));
    Ok(Guarded::unguarded(JsValue::Undefined))
}
fn n_out(_it: &mut Interpreter, _this: JsValue, a: &[JsValue]) -> Result<Guarded, JsError> {
    let tag = a.first().cloned().unwrap_or(JsValue::Undefined);
    match tsrun::js_value_to_json(a.get(1).unwrap_or(&JsValue::Undefined)) {
        Ok(v) => rec(&tag, "json", serde_json::Value::String(serde_json::to_string(&v).unwrap_or_default())),
        Err(e) => rec(&tag, "err", serde_json::Value::String(crate::prog::err_canon(&e))),
    }
    Ok(Guarded::unguarded(JsValue::Undefined))
}
fn n_txt(_it: &mut Interpreter, _this: JsValue, a: &[JsValue]) -> Result<Guarded, JsError> {
    let tag = a.first().cloned().unwrap_or(JsValue::Undefined);
    match a.get(1) {
        Some(JsValue::String(s)) => rec(&tag, "text", serde_json::Value::String(s.as_str().to_string())),
        Some(other) => rec(&tag, "nontext", dump(other, 3)),
        None => rec(&tag, "nontext", serde_json::json!({"t": "undef"})),
    }
    Ok(Guarded::unguarded(JsValue::Undefined))
}

fn module() -> InternalModule {
    InternalModule::native("verif:json").with_function("DOC", n_doc, 0).with_function("TEXT", n_text, 0)
        .with_function("DUMP", n_dump, 2).with_function("OUT", n_out, 2).with_function("TXT", n_txt, 2).build()
}

pub fn main(_args: &[String]) -> i32 {
    let stdin = std::io::stdin();
    let out = std::io::stdout();
    let mut out = out.lock();
    for line in stdin.lock().lines() {
        let Ok(line) = line else { break };
        if line.trim().is_empty() { continue; }
        let Ok(j) = serde_json::from_str::<serde_json::Value>(&line) else { eprintln!("bad job"); return 2; };
        REC.with(|r| r.borrow_mut().clear());
        DOCV.with(|d| *d.borrow_mut() = decode(&j["doc"]));
        TEXTV.with(|t| *t.borrow_mut() = j["text"].as_str().unwrap_or("").to_string());
        let src = j["source"].as_str().unwrap_or("").to_string();
        let r = std::panic::catch_unwind(std::panic::AssertUnwindSafe(|| {
            let mut it = Interpreter::with_config(InterpreterConfig { internal_modules: vec![create_eval_internal_module(), module()], ..Default::default() });
            if let Some(t) = j["gc"].as_u64() { it.set_gc_threshold(t as usize); }
            let mut r = it.prepare(&src, Some(ModulePath::new("/p/main.ts")));
            let mut n = 0u64;
            let status = loop {
                n += 1;
                if n > 5_000_000 { break "TIMEOUT".to_string(); }
                match r {
                    Ok(StepResult::Continue) => r = it.step(),
                    Ok(StepResult::Complete(_)) | Ok(StepResult::Done) => break "COMPLETE".into(),
                    Ok(_) => break "OTHER".into(),
                    Err(e) => break format!("ERROR {}", e.to_string().lines().next().unwrap_or("").chars().take(160).collect::<String>()),
                }
            };
            // the exported-value path: what the host reads after the run
            let exported = match api::get_export(&it, "exported") {
                None => serde_json::json!(["none"]),
                Some(v) => match tsrun::js_value_to_json(&v) {
                    Ok(x) => serde_json::json!(["json", serde_json::to_string(&x).unwrap_or_default()]),
                    Err(e) => serde_json::json!(["err", crate::prog::err_canon(&e)]),
                },
            };
            (status, exported)
        }));
        let recs: Vec<serde_json::Value> = REC.with(|r| r.borrow_mut().drain(..).collect());
        let line = match r {
            Ok((status, exported)) => serde_json::json!({"id": j["id"], "rec": recs, "status": status, "exported": exported}),
            Err(_) => serde_json::json!({"id": j["id"], "rec": recs, "status": "PANIC", "exported": ["none"]}),
        };
        let _ = writeln!(out, "{}", line);
        let _ = out.flush();
    }
    0
}
