// C09 (flow T): drives the real interpreter through a module-supply schedule and records one trace.
// stdin: ndjson jobs {t, deps:[[..]..], sources:{"0":src,..}, rounds:[[m,..],..], finish:bool}
// stdout: one ndjson line per job {t, deps, ev:[...]} in the event schema of ModulesTrace.tla.
use std::cell::RefCell;
use std::io::{BufRead, Write};
use std::rc::Rc;
use tsrun::{Interpreter, ModulePath, StepResult};

struct Cap(Rc<RefCell<Vec<String>>>);
impl tsrun::platform::ConsoleProvider for Cap {
    fn write(&self, _l: tsrun::platform::ConsoleLevel, m: &str) { self.0.borrow_mut().push(m.to_string()); }
    fn clear(&self) {}
}

thread_local! { static BASE: RefCell<String> = RefCell::new("/p/".to_string()); }
fn base() -> String { BASE.with(|b| b.borrow().clone()) }
fn idx(p: &str) -> i64 {
    let pre = format!("{}m", base());
    p.strip_prefix(pre.as_str()).and_then(|r| r.strip_suffix(".ts")).and_then(|r| r.parse::<i64>().ok()).unwrap_or(-1)
}

fn run_job(j: &serde_json::Value) -> serde_json::Value {
    let logs = Rc::new(RefCell::new(Vec::<String>::new()));
    let mut it = Interpreter::new();
    it.set_console(Box::new(Cap(logs.clone())));
    if let Some(t) = j["gc"].as_u64() { it.set_gc_threshold(t as usize); }
    let src = |m: i64| j["sources"][m.to_string()].as_str().unwrap_or("").to_string();
    let mut ev: Vec<serde_json::Value> = Vec::new();
    let rounds: Vec<Vec<i64>> = j["rounds"].as_array().map(|a| a.iter().map(|r| r.as_array().map(|x| x.iter().filter_map(|v| v.as_i64()).collect()).unwrap_or_default()).collect()).unwrap_or_default();
    let finish = j["finish"].as_bool().unwrap_or(false);
    BASE.with(|b| *b.borrow_mut() = j["base"].as_str().unwrap_or("/p/").to_string());
    let mut r = it.prepare(&src(0), Some(ModulePath::new(format!("{}m0.ts", base()))));
    let mut name = "prepare";
    let mut round = 0usize;
    let mut extra = 0usize;
    loop {
        let mut n = 0u64;
        let res = loop { match r { Ok(StepResult::Continue) => { n += 1; if n > 2_000_000 { break Err(tsrun::JsError::type_error("VERIF-STEP-BUDGET")); } r = it.step(); } o => break o } };
        let mut loads: Vec<i64> = Vec::new();
        let mut live: Vec<i64> = Vec::new();
        for l in logs.borrow_mut().drain(..) {
            if let Some(x) = l.strip_prefix("LOAD ") { if let Ok(m) = x.trim().parse::<i64>() { if m != 0 { loads.push(m); } } }
            if let Some(x) = l.strip_prefix("LIVE ") { live = x.split(',').filter_map(|s| s.trim().parse::<i64>().ok()).collect(); }
        }
        match res {
            Ok(StepResult::NeedImports(reqs)) => {
                let mods: Vec<i64> = reqs.iter().map(|q| idx(q.resolved_path.as_str())).collect();
                let imps: Vec<i64> = reqs.iter().map(|q| q.importer.as_ref().map(|p| idx(p.as_str())).unwrap_or(0)).collect();
                let raw: Vec<String> = reqs.iter().map(|q| format!("{} -> {}", q.specifier, q.resolved_path)).collect();
                ev.push(serde_json::json!({"e": name, "r": "NeedImports", "mods": mods, "imps": imps, "loads": loads, "raw": raw}));
                let supply: Vec<i64> = if round < rounds.len() { let s = rounds[round].clone(); round += 1; s }
                    else if finish && extra < 40 { extra += 1; mods.clone() } else { break };
                for m in supply {
                    let pr = it.provide_module(ModulePath::new(format!("{}m{}.ts", base(), m)), &src(m));
                    if let Err(e) = pr { ev.push(serde_json::json!({"e": "provide_error", "m": m, "err": e.to_string()})); }
                    else { ev.push(serde_json::json!({"e": "provide", "m": m})); }
                }
                name = "run";
                r = it.step();
            }
            Ok(StepResult::Complete(v)) => {
                let total = it.get_export("total").and_then(|x| match x { tsrun::JsValue::Number(n) => Some(n), _ => None });
                ev.push(serde_json::json!({"e": name, "r": "Complete", "mods": [], "imps": [], "loads": loads,
                    "value": v.as_number().map(|x| x as i64).unwrap_or(-1), "total": total.map(|x| x as i64).unwrap_or(-1), "live": live}));
                break;
            }
            Ok(other) => { ev.push(serde_json::json!({"e": name, "r": format!("{:?}", other).chars().take(40).collect::<String>(), "mods": [], "imps": [], "loads": loads})); break; }
            Err(e) => { ev.push(serde_json::json!({"e": name, "r": "Error", "err": e.to_string(), "mods": [], "imps": [], "loads": loads})); break; }
        }
    }
    serde_json::json!({"t": j["t"], "deps": j["deps"], "ev": ev})
}

pub fn main(_args: &[String]) -> i32 {
    let stdin = std::io::stdin();
    let out = std::io::stdout();
    let mut out = std::io::BufWriter::new(out.lock());
    for line in stdin.lock().lines() {
        let Ok(line) = line else { break };
        if line.trim().is_empty() { continue; }
        let Ok(j) = serde_json::from_str::<serde_json::Value>(&line) else { eprintln!("bad job"); return 2; };
        let r = std::panic::catch_unwind(std::panic::AssertUnwindSafe(|| run_job(&j)));
        let rec = match r { Ok(v) => v, Err(_) => serde_json::json!({"t": j["t"], "deps": j["deps"], "ev": [{"e": "panic", "r": "Panic", "mods": [], "imps": [], "loads": []}]}) };
        let _ = writeln!(out, "{}", rec);
    }
    0
}
