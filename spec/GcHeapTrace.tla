---- MODULE GcHeapTrace ----
(***************************************************************************)
(* C13, flow T: a history recorded from the real Heap (vrunner gctrace) is *)
(* accepted iff it is a behaviour of GcHeap.  Every recorded call is one   *)
(* GcHeap action with the logged arguments; the scalars logged at the      *)
(* call's return (stats triple, guard length, contents of the touched      *)
(* handles and of the objects they store, unguard's result) must equal the *)
(* specification's post-state.  A failing comparison prints a DIFF line.   *)
(***************************************************************************)
EXTENDS GcHeap, IOUtils
TR == ndJsonDeserialize(IOEnv.TRACE)
VARIABLE l
tvars == <<vars, l>>

Chk(name, got, want) == got = want \/ (PrintT(<<"DIFF", l, name, got, want>>) /\ FALSE)
Has(e, f) == f \in DOMAIN e

StatsNext == << IF alive' THEN nslots' - Len(free') ELSE -1,
                IF alive' THEN nslots' ELSE -1,
                IF alive' THEN Len(free') ELSE -1 >>
CurrentNext(h) == halive'[h] /\ alive' /\ ~pooled'[hslot'[h]] /\ gen'[hslot'[h]] = hgen'[h]
HvNext(h) == LET s == hslot'[h] IN
             << val'[s], Len(refs'[s]), [i \in 1..Len(refs'[s]) |-> val'[refs'[s][i][1]]] >>
HandleOK(e, key, h) ==
  Has(e, key) => /\ Chk("driver:current " \o key, CurrentNext(h), TRUE)
                 /\ Chk(key, e[key], HvNext(h))

Act(e) ==
  CASE e.op = "create_guard"  -> CreateGuard(e.g)
    [] e.op = "drop_guard"    -> DropGuard(e.g)
    [] e.op = "clear"         -> ClearGuard(e.g)
    [] e.op = "alloc"         -> Alloc(e.g, e.h)
    [] e.op = "clone"         -> CloneH(e.h, e.h2)
    [] e.op = "drop"          -> DropH(e.h)
    [] e.op = "guard"         -> GuardH(e.g, e.h)
    [] e.op = "unguard"       -> Unguard(e.g, e.h)
    [] e.op = "write"         -> WriteH(e.h, e.v)
    [] e.op = "link"          -> Link(e.h, e.h2)
    [] e.op = "unlink"        -> Unlink(e.h)
    [] e.op = "collect"       -> Collect
    [] e.op = "set_threshold" -> SetThreshold(e.n)
    [] e.op = "drop_heap"     -> DropHeap
    [] OTHER                  -> FALSE

Post(e) ==
  /\ Chk("panic", Has(e, "panic"), FALSE)
  /\ Chk("stats", e.st, StatsNext)
  /\ Has(e, "glen") => Chk("guard_len", e.glen, IF galive'[e.g] THEN Len(roots'[e.g]) ELSE -1)
  /\ Has(e, "ret")  => Chk("unguard_ret", e.ret, \E i \in 1..Len(roots[e.g]) : roots[e.g][i] = hslot[e.h])
  /\ Has(e, "h")  => HandleOK(e, "hv", e.h)
  /\ Has(e, "h2") => HandleOK(e, "hv2", e.h2)

Final(e) ==
  /\ UNCHANGED vars
  /\ \A i \in 1..Len(e.handles) :
        LET r == e.handles[i]  h == r[1] IN
        /\ Chk("driver:final current", Current(h), TRUE)
        /\ Chk("final contents", <<r[2], r[3]>>, <<val[hslot[h]], Len(refs[hslot[h]])>>)

TInit == Init /\ l = 1
TNext == /\ l <= Len(TR)
         /\ l' = l + 1
         /\ LET e == TR[l] IN
            IF e.op = "final" THEN Final(e) ELSE Act(e) /\ Post(e)
TSpec == TInit /\ [][TNext]_tvars

\* GcHeap's invariants on the recorded history: on every state right after a collection and on every 8th
\* state otherwise (ghost reachability over hundreds of slots is the expensive part of a step)
Sampled == jc \/ l % 8 = 0
TReachableIntact   == Sampled => ReachableIntact
TNoDoubleTenancy   == Sampled => NoDoubleTenancy
TPooledAreReset    == Sampled => PooledAreReset
\* the invariants of GcHeap are evaluated on every state of the recorded history as well
Accepted == /\ PrintT(<<"MATCHED", TLCGet("stats").diameter - 1, Len(TR)>>)
            /\ TLCGet("stats").diameter - 1 = Len(TR)
====
