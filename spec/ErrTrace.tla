---- MODULE ErrTrace ----
(***************************************************************************)
(* C20.  What an error report must say, given what the program was doing.  *)
(* A case (one line of the trace file) carries                             *)
(*   plan  : the call chain the scenario generator built, innermost first: *)
(*           for every active function its acceptable names, its file and  *)
(*           the source range (line, first column, end column, last line)  *)
(*           of the expression that was executing in it - the faulting     *)
(*           expression for the innermost one, the call of the next-inner  *)
(*           function for the others; the last entry is the top level;     *)
(*   got   : the frames the implementation reported, innermost first,      *)
(*   kind / wantkind : reported and expected error class.                  *)
(* The report is correct iff it lists exactly the active calls, innermost  *)
(* first, with the right names, and every reported position lies inside    *)
(* the corresponding range in the file it names.  Columns are counted in   *)
(* code points, 1-based.  Cases are validated in batch; every failing      *)
(* condition prints a DIFF line.                                           *)
(***************************************************************************)
EXTENDS Integers, Sequences, FiniteSets, TLC, Json, IOUtils
TR == ndJsonDeserialize(IOEnv.TRACE)
NT == Len(TR)
VARIABLES t, done
vars == <<t, done>>
Chk(name, ok) == ok \/ (PrintT(<<"DIFF", t, name>>) /\ FALSE)
Null == "<null>"
Inside(f, p) == /\ f.file = p.file
                /\ f.line >= p.line /\ f.line <= p.endline
                /\ (f.line = p.line => f.col >= p.c0)
                /\ (f.line = p.endline => f.col < p.c1 \/ (p.endline > p.line))
NameOK(f, p) == \E i \in 1..Len(p.names) : p.names[i] = f.fn
Min(a, b) == IF a < b THEN a ELSE b
\* every condition is evaluated (a set forces evaluation of all its elements), so that one known deviation in a
\* report does not hide another one: each failing condition prints its own DIFF line
CaseOK(c) ==
  LET results ==
        { Chk("error class", c.kind = c.wantkind) }
        \cup UNION { { Chk(<<"frame name", i, c.plan[i].via>>, NameOK(c.got[i], c.plan[i])),
                       Chk(<<"frame file", i, c.plan[i].via>>, c.got[i].file = c.plan[i].file),
                       Chk(<<"frame position", i, c.plan[i].via>>,
                           Inside([c.got[i] EXCEPT !.file = c.plan[i].file], c.plan[i])) } : i \in 1..Min(Len(c.plan), Len(c.got)) }
        \* exactly the active calls: the last reported frame tells where a truncated trace stops
        \cup { Chk(<<"number of frames", Len(c.got), IF Len(c.got) = 0 \/ Len(c.got) > Len(c.plan) THEN "none" ELSE c.plan[Len(c.got)].via>>,
                   Len(c.got) = Len(c.plan)) }
  IN results = {TRUE}
SyntaxOK(c) ==
  /\ Chk("error class", c.kind = "SyntaxError")
  /\ Chk("syntax error position", Inside(c.loc, c.range))
Init == t \in 1..NT /\ done = FALSE
Next == /\ ~done /\ done' = TRUE /\ UNCHANGED t
        /\ IF TR[t].mode = "syntax" THEN SyntaxOK(TR[t]) ELSE CaseOK(TR[t])
Spec == Init /\ [][Next]_vars
Mark == done => TLCSet(t, 1)
ASSUME \A i \in 1..NT : TLCSet(i, 0)
Rejected == { i \in 1..NT : TLCGet(i) # 1 }
AllAccepted == /\ \A i \in Rejected : PrintT(<<"REJECTED", i>>)
               /\ Rejected = {}
====
