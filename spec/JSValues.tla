---- MODULE JSValues ----
\* ECMAScript primitive values and coercions over a universe TLC can compute with:
\* numbers = 32-bit integers + NaN, +/-Infinity, -0 ; strings = sequences of UTF-16 code units.
EXTENDS Integers, Sequences, FiniteSets, TLC
U == [t |-> "undef"]
Nl == [t |-> "null"]
B(b) == [t |-> "bool", b |-> b]
N(i) == [t |-> "num", v |-> i]
NaN == [t |-> "nan"]
Inf(s) == [t |-> "inf", s |-> s]
NZ == [t |-> "nzero"]
S(cs) == [t |-> "str", s |-> cs]
\* TLC integers are 32-bit: a result beyond +-Lim is the distinguished value Big; the machine stops judging
\* a program as soon as one is produced (outcome "unmodelled"), so Big never flows into another operator.
Big == [t |-> "big"]
Lim == 1000000000
Clip(i) == IF i > Lim \/ i < 0 - Lim THEN Big ELSE N(i)
IsNumT(x) == x.t \in {"num", "nan", "inf", "nzero"}
IsPrim(x) == x.t \in {"undef", "null", "bool", "str"} \/ IsNumT(x)
\* ---- character helpers
Lit(str) == \* TLA+ string constant -> code units, only for the few ASCII literals the spec needs
  CASE str = "undefined" -> <<117,110,100,101,102,105,110,101,100>>
    [] str = "null" -> <<110,117,108,108>>
    [] str = "true" -> <<116,114,117,101>>
    [] str = "false" -> <<102,97,108,115,101>>
    [] str = "NaN" -> <<78,97,78>>
    [] str = "Infinity" -> <<73,110,102,105,110,105,116,121>>
    [] str = "[object Object]" -> <<91,111,98,106,101,99,116,32,79,98,106,101,99,116,93>>
    [] str = "" -> <<>>
RECURSIVE Digits(_)
Digits(n) == IF n < 10 THEN <<48 + n>> ELSE Digits(n \div 10) \o <<48 + (n % 10)>>
NumToStr(x) ==
  CASE x.t = "num" -> IF x.v < 0 THEN <<45>> \o Digits(0 - x.v) ELSE Digits(x.v)
    [] x.t = "nan" -> Lit("NaN")
    [] x.t = "inf" -> IF x.s = 1 THEN Lit("Infinity") ELSE <<45>> \o Lit("Infinity")
    [] x.t = "nzero" -> <<48>>
    [] x.t = "big" -> <<>>
IsWS(c) == c \in {9, 10, 11, 12, 13, 32, 160, 65279, 8232, 8233}
RECURSIVE TrimL(_)
TrimL(cs) == IF cs # <<>> /\ IsWS(Head(cs)) THEN TrimL(Tail(cs)) ELSE cs
RECURSIVE TrimR(_)
TrimR(cs) == IF cs # <<>> /\ IsWS(cs[Len(cs)]) THEN TrimR(SubSeq(cs, 1, Len(cs) - 1)) ELSE cs
IsDigit(c) == c >= 48 /\ c <= 57
RECURSIVE DigVal(_, _)
DigVal(cs, acc) == IF cs = <<>> THEN acc ELSE DigVal(Tail(cs), acc * 10 + (Head(cs) - 48))
AllDigits(cs) == cs # <<>> /\ \A i \in 1..Len(cs) : IsDigit(cs[i])
StrToNum(cs0) ==
  LET cs == TrimR(TrimL(cs0)) IN
  IF cs = <<>> THEN N(0)
  ELSE LET neg == Head(cs) = 45
           pos == Head(cs) = 43
           body == IF neg \/ pos THEN Tail(cs) ELSE cs
       IN IF body = Lit("Infinity") THEN Inf(IF neg THEN -1 ELSE 1)
          ELSE IF AllDigits(body) /\ Len(body) <= 9 THEN
                 LET v == DigVal(body, 0) IN IF neg THEN (IF v = 0 THEN NZ ELSE N(0 - v)) ELSE N(v)
          ELSE NaN
\* ---- coercions on primitives
ToNumberP(x) ==
  CASE x.t = "undef" -> NaN
    [] x.t = "null" -> N(0)
    [] x.t = "bool" -> N(IF x.b THEN 1 ELSE 0)
    [] x.t = "str" -> StrToNum(x.s)
    [] OTHER -> x
ToStringP(x) ==
  CASE x.t = "undef" -> Lit("undefined")
    [] x.t = "null" -> Lit("null")
    [] x.t = "bool" -> IF x.b THEN Lit("true") ELSE Lit("false")
    [] x.t = "str" -> x.s
    [] OTHER -> NumToStr(x)
ToBoolean(x) ==
  CASE x.t \in {"undef", "null", "nan", "nzero"} -> FALSE
    [] x.t = "bool" -> x.b
    [] x.t = "num" -> x.v # 0
    [] x.t = "str" -> x.s # <<>>
    [] OTHER -> TRUE
\* ---- number arithmetic on the extended domain
Sgn(x) == CASE x.t = "num" -> (IF x.v > 0 THEN 1 ELSE IF x.v < 0 THEN -1 ELSE 0) [] x.t = "inf" -> x.s [] OTHER -> 0
IsZero(x) == x.t = "nzero" \/ (x.t = "num" /\ x.v = 0)
SignBit(x) == x.t = "nzero" \/ (x.t = "num" /\ x.v < 0) \/ (x.t = "inf" /\ x.s = -1)   \* sign of zero matters
Neg(x) == CASE x.t = "big" -> Big [] x.t = "num" -> (IF x.v = 0 THEN NZ ELSE N(0 - x.v)) [] x.t = "nzero" -> N(0) [] x.t = "inf" -> Inf(0 - x.s) [] OTHER -> x
Add(x, y) ==
  IF x.t = "big" \/ y.t = "big" THEN Big ELSE
  IF x.t = "nan" \/ y.t = "nan" THEN NaN
  ELSE IF x.t = "inf" THEN (IF y.t = "inf" /\ y.s # x.s THEN NaN ELSE x)
  ELSE IF y.t = "inf" THEN y
  ELSE IF x.t = "nzero" THEN (IF y.t = "nzero" THEN NZ ELSE y)
  ELSE IF y.t = "nzero" THEN x
  ELSE Clip(x.v + y.v)
Sub(x, y) == Add(x, Neg(y))
Mul(x, y) ==
  IF x.t = "big" \/ y.t = "big" THEN Big ELSE
  IF x.t = "nan" \/ y.t = "nan" THEN NaN
  ELSE IF (x.t = "inf" /\ IsZero(y)) \/ (y.t = "inf" /\ IsZero(x)) THEN NaN
  ELSE LET negr == SignBit(x) # SignBit(y) IN
       IF x.t = "inf" \/ y.t = "inf" THEN Inf(IF negr THEN -1 ELSE 1)
       ELSE IF IsZero(x) \/ IsZero(y) THEN (IF negr THEN NZ ELSE N(0))
       ELSE IF (x.v <= 46000 /\ x.v >= -46000 /\ y.v <= 46000 /\ y.v >= -46000) THEN Clip(x.v * y.v)
       ELSE IF x.v \in {1, -1} \/ y.v \in {1, -1} THEN N(x.v * y.v)
       ELSE Big
Abs(i) == IF i < 0 THEN 0 - i ELSE i
Mod(x, y) ==  \* JS remainder: sign of dividend
  IF x.t = "big" \/ y.t = "big" THEN Big ELSE
  IF x.t = "nan" \/ y.t = "nan" \/ x.t = "inf" \/ IsZero(y) THEN NaN
  ELSE IF y.t = "inf" THEN x
  ELSE IF IsZero(x) THEN x
  ELSE LET r == Abs(x.v) % Abs(y.v) IN IF r = 0 THEN (IF x.v < 0 THEN NZ ELSE N(0)) ELSE N(IF x.v < 0 THEN 0 - r ELSE r)
\* numeric <  : returns "t","f","u"(undefined, NaN involved)
NumLess(x, y) ==
  IF x.t = "nan" \/ y.t = "nan" THEN "u"
  ELSE LET val(z) == CASE z.t = "num" -> z.v [] z.t = "nzero" -> 0 [] OTHER -> 0 IN
       IF x.t = "inf" THEN (IF x.s = 1 THEN "f" ELSE IF y.t = "inf" /\ y.s = -1 THEN "f" ELSE "t")
       ELSE IF y.t = "inf" THEN (IF y.s = 1 THEN "t" ELSE "f")
       ELSE IF val(x) < val(y) THEN "t" ELSE "f"
RECURSIVE StrLess(_, _)
StrLess(a, b) == IF b = <<>> THEN FALSE ELSE IF a = <<>> THEN TRUE
                 ELSE IF Head(a) < Head(b) THEN TRUE ELSE IF Head(a) > Head(b) THEN FALSE ELSE StrLess(Tail(a), Tail(b))
\* abstract relational comparison on primitives (after ToPrimitive hint number): "t","f","u"
RelLess(px, py) == IF px.t = "str" /\ py.t = "str" THEN (IF StrLess(px.s, py.s) THEN "t" ELSE "f")
                   ELSE NumLess(ToNumberP(px), ToNumberP(py))
NumEq(x, y) == IF x.t = "nan" \/ y.t = "nan" THEN FALSE
               ELSE IF IsZero(x) /\ IsZero(y) THEN TRUE
               ELSE IF x.t = "inf" \/ y.t = "inf" THEN (x.t = y.t /\ x.s = y.s)
               ELSE (x.t = "num" /\ y.t = "num" /\ x.v = y.v)
StrictEqP(x, y) ==
  IF IsNumT(x) /\ IsNumT(y) THEN NumEq(x, y)
  ELSE IF x.t # y.t THEN FALSE
  ELSE CASE x.t \in {"undef", "null"} -> TRUE [] x.t = "bool" -> x.b = y.b [] x.t = "str" -> x.s = y.s [] OTHER -> FALSE
====
