---- MODULE SyntaxFamilies ----
(***************************************************************************)
(* C05.  The input space of nesting families and the resource budget.      *)
(* (1) Generation: an input is built by WRAPPER ACTIONS applied around a    *)
(*     seed expression; a family is a short sequence of wrapper kinds that  *)
(*     is repeated cyclically to the requested depth.  TLC enumerates all   *)
(*     families of length <= MaxFam (Emit prints one line per family).      *)
(* (2) Budget: for every source text offered to prepare(), the outcome is   *)
(*     Ok or an error VALUE (never a panic, abort, overflow or hang) and    *)
(*     the work spent (tokens scanned by the lexer, re-scans included:      *)
(*     hook H2) is bounded by a polynomial of degree 2 in the input length. *)
(*     Recorded measurements (vrunner parsework) are validated in batch     *)
(*     against WithinBudget / CleanOutcome.                                 *)
(***************************************************************************)
EXTENDS Integers, Sequences, FiniteSets, TLC, Json, IOUtils
CONSTANTS MaxFam, Mode          \* Mode = "gen" | "trace"
Wrappers == {"paren", "bracket", "unary", "binary", "cond_then", "cond_else", "arrow", "template", "generic_call", "assign_paren", "call",
             "object", "function", "class", "lt_chain", "type_arg", "as", "member_call", "spread", "await_paren", "new", "comma"}
A == 3
B == 2000
Budget(len) == A * len * len + B
CleanOutcomes == {"ok", "syntax_error", "other_error"}

TR == IF Mode = "trace" THEN ndJsonDeserialize(IOEnv.TRACE) ELSE <<>>
VARIABLES fam, t, done
vars == <<fam, t, done>>
RECURSIVE SeqsOfLen(_)
SeqsOfLen(k) == IF k = 0 THEN {<<>>} ELSE { Append(s, w) : s \in SeqsOfLen(k - 1), w \in Wrappers }
Families == UNION { SeqsOfLen(k) : k \in 1..MaxFam }
Init == /\ done = FALSE
        /\ IF Mode = "gen" THEN fam \in Families /\ t = 0 ELSE fam = <<>> /\ t \in 1..Len(TR)
Chk(name, ok) == ok \/ (PrintT(<<"DIFF", t, name>>) /\ FALSE)
\* TLC integers are 32-bit: beyond 25000 characters the budget exceeds 1.8e9, more than any recordable work count
WithinBudget(r) == r.len > 25000 \/ r.work <= Budget(r.len)
CleanOutcome(r) == r.status \in CleanOutcomes
Validate(r) == { Chk("outcome is not a value", CleanOutcome(r)), Chk("work exceeds the quadratic budget", WithinBudget(r)) } = {TRUE}
Next == /\ ~done /\ done' = TRUE /\ UNCHANGED <<fam, t>>
        /\ (Mode = "trace" => Validate(TR[t]))
Spec == Init /\ [][Next]_vars
Emit == (Mode = "gen" /\ ~done) => PrintT(<<"F", ToJson(fam)>>)
Mark == (Mode = "trace" /\ done) => TLCSet(t, 1)
ASSUME Mode = "trace" => \A i \in 1..Len(TR) : TLCSet(i, 0)
Rejected == IF Mode = "trace" THEN { i \in 1..Len(TR) : TLCGet(i) # 1 } ELSE {}
AllAccepted == /\ \A i \in Rejected : PrintT(<<"REJECTED", i>>)
               /\ Rejected = {}
====
