----------------------------- MODULE Instances -----------------------------
(* C12 — execution is deterministic and interpreter instances are isolated.
   N interpreter instances live in one process (one thread).  Each runs ONE program through the host protocol
       create ; ( step-until-terminal ; fulfil )^k ; step-until-terminal ; [ step ] ; drop
   where the program's SHAPE fixes k (how often it suspends on an order) and how it ends (complete / error), and the
   host may abandon it early (drop while suspended) or keep stepping after the end.  A scheduler interleaves the
   instances' operations arbitrarily and may, at any point, run JUNK: a throw-away instance that allocates, fails
   or completes and is dropped (prior lifetimes that shift addresses, pooled slots, interned strings).
   The specification has NO variable shared between instances: st[i] is a function of instance i's own operations
   only.  `ambient` stands for everything process-wide an implementation might accidentally consult (allocator
   state, address layout, hash seeds): every operation of every instance and every junk run perturbs it, and no
   transition reads it.  NonInterference (each instance's observations = its solo run) therefore holds by
   construction and is checked by TLC as an invariant; the conformance replay checks that the CODE has no such
   dependency either: every schedule TLC enumerates is executed on real interpreters and every instance's
   recorded observations (result kinds predicted by this spec, plus outputs, payloads and values) must equal its
   solo run - in the same thread, in separate threads, and in fresh processes. *)
EXTENDS Naturals, Sequences, FiniteSets, TLC, Json

CONSTANTS N,          \* instances
          Shapes,     \* set of program shapes [k |-> suspensions, end |-> "complete"|"error", host |-> "full"|"abandon"|"overstep"]
          MaxJunk,    \* junk lifetimes per schedule
          Emitting

\* the host script of a shape: what the host does with one instance, in order
RECURSIVE Rounds(_)
Rounds(k) == IF k = 0 THEN <<>> ELSE <<"step", "fulfil">> \o Rounds(k - 1)
Script(s) ==
  LET full == <<"create">> \o Rounds(s.k) \o <<"step">>
  IN CASE s.host = "full"     -> full \o <<"drop">>
       [] s.host = "overstep" -> full \o <<"step", "step", "drop">>        \* keeps stepping after the end
       [] s.host = "abandon"  -> <<"create">> \o (IF s.k = 0 THEN <<>> ELSE <<"step">>) \o <<"drop">>   \* dropped while suspended (or before the first step)

\* one instance's private machine: phase and number of answered suspensions
Fresh == [phase |-> "none", done |-> 0]
Apply(s, st, op) ==        \* returns <<new state, observation>>
  CASE op = "create" -> << [phase |-> "ready", done |-> 0], "created" >>
    [] op = "step"   -> IF st.phase \in {"ready", "answered"}
                        THEN IF st.done < s.k THEN << [st EXCEPT !.phase = "suspended"], "Suspended" >>
                             ELSE IF s.end = "complete" THEN << [st EXCEPT !.phase = "complete"], "Complete" >>
                             ELSE << [st EXCEPT !.phase = "error"], "Error" >>
                        ELSE IF st.phase = "suspended" THEN << st, "Suspended" >>     \* nothing answered: still suspended
                        ELSE IF st.phase = "complete" THEN << [st EXCEPT !.phase = "finished"], "Done" >>
                        ELSE IF st.phase = "finished" THEN << st, "Done" >>
                        ELSE << st, "Error-again" >>                                  \* stepping a failed run: host-visible but unspecified result, compared with the solo run only
    [] op = "fulfil" -> IF st.phase = "suspended" THEN << [phase |-> "answered", done |-> st.done + 1], "fulfilled" >> ELSE << st, "ignored" >>
    [] op = "drop"   -> << [st EXCEPT !.phase = "dropped"], "dropped" >>

VARIABLES shape, pos, st, obs, ambient, njunk, sched
vars == <<shape, pos, st, obs, ambient, njunk, sched>>

Init ==
  /\ shape \in [1..N -> Shapes]
  /\ pos = [i \in 1..N |-> 0] /\ st = [i \in 1..N |-> Fresh] /\ obs = [i \in 1..N |-> <<>>]
  /\ ambient = 0 /\ njunk = 0 /\ sched = <<>>

Op(i) ==
  /\ pos[i] < Len(Script(shape[i]))
  /\ LET op == Script(shape[i])[pos[i] + 1]
         r  == Apply(shape[i], st[i], op)
     IN /\ st' = [st EXCEPT ![i] = r[1]]
        /\ obs' = [obs EXCEPT ![i] = Append(@, r[2])]
        /\ sched' = IF Emitting THEN Append(sched, [i |-> i, op |-> op, r |-> r[2]]) ELSE sched
  /\ pos' = [pos EXCEPT ![i] = @ + 1]
  /\ ambient' = (ambient * 7 + i + pos[i]) % 1009          \* every operation perturbs the process-wide state ...
  /\ UNCHANGED <<shape, njunk>>
Junk(kind) ==
  /\ njunk < MaxJunk
  /\ \E i \in 1..N : pos[i] < Len(Script(shape[i]))        \* junk only matters before somebody's operation
  /\ njunk' = njunk + 1
  /\ ambient' = (ambient * 13 + 5) % 1009                   \* ... and so does every junk lifetime
  /\ sched' = IF Emitting THEN Append(sched, [i |-> 0, op |-> kind, r |-> "junk"]) ELSE sched
  /\ UNCHANGED <<shape, pos, st, obs>>
Next == (\E i \in 1..N : Op(i)) \/ Junk("junk")          \* what the junk lifetime does (complete / fail / abandon, sizes) is the harness's seeded choice
Spec == Init /\ [][Next]_vars

\* ------------------------------------------------------------------ properties
RECURSIVE SoloObs(_, _, _, _)
SoloObs(s, state, ops, acc) ==
  IF ops = <<>> THEN acc
  ELSE LET r == Apply(s, state, Head(ops)) IN SoloObs(s, r[1], Tail(ops), Append(acc, r[2]))
NonInterference == \A i \in 1..N : obs[i] = SoloObs(shape[i], Fresh, SubSeq(Script(shape[i]), 1, pos[i]), <<>>)
DroppedStaysDropped == \A i \in 1..N : st[i].phase = "dropped" => pos[i] = Len(Script(shape[i]))
AllDone == \A i \in 1..N : pos[i] = Len(Script(shape[i]))
View == <<shape, pos, st, obs, njunk, IF Emitting THEN sched ELSE <<>> >>
\* shape sets for the configurations (records cannot be written in a .cfg file)
Sh(k, e, h) == [k |-> k, end |-> e, host |-> h]
ShapesQuick == {Sh(1, "complete", "full"), Sh(2, "error", "full"), Sh(1, "error", "overstep"), Sh(2, "complete", "abandon")}
ShapesFull  == {Sh(k, e, h) : k \in 0..2, e \in {"complete", "error"}, h \in {"full", "overstep", "abandon"}}
Emit == (Emitting /\ AllDone) => PrintT(<<"S", ToJson([shapes |-> shape, sched |-> sched])>>)
=============================================================================
