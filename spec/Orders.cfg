SPECIFICATION Spec
CONSTANTS NV = 2
 MaxLen = 4
 MaxHost = 4
 ExtraSteps = 3
 MaxStray = 1
 Emitting = FALSE
 OpKinds = {"ord", "tord", "await", "tawait", "comb", "cancel"}
VIEW View
INVARIANT EmitViolations
CHECK_DEADLOCK FALSE
