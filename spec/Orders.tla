---- MODULE Orders ----
(***************************************************************************)
(* C08 (and the host-protocol half of C07).  The order protocol between a  *)
(* program and its host, written action-for-action after                   *)
(*   order_syscall / cancel_order_syscall            (builtins/internal.rs) *)
(*   Interpreter::step, process_vm_result, fulfill_orders,                  *)
(*   check_resolved_promises                              (interpreter/mod.rs) *)
(*   api::resolve_promise / reject_promise / create_order_promise  (api.rs) *)
(*   Promise.all / race / any / allSettled           (builtins/promise.rs)  *)
(*                                                                         *)
(* A program is a straight-line script over                                *)
(*   ord(v)    x_v = order("p<v>")             (blocking syscall)           *)
(*   tord(v)   try { x_v = order("p<v>") } catch (e) { x_v = "caught" }     *)
(*   await(v)  await x_v      (v = W: the combinator result)                *)
(*   tawait(v) try { await x_v } catch (e) { x_v = "caught" }               *)
(*   comb(k)   w = Promise.k([x_1 .. x_NV])                                 *)
(*   cancel(v) __cancelOrder__(id of x_v)                                   *)
(* The host process may, between steps: answer any id (issued or not,       *)
(* answered or not) with a value / an error / a fresh pending promise /     *)
(* a pending promise linked to the order; settle or reject its promises in  *)
(* any order; and call step() at any time, ready or not.                    *)
(*                                                                         *)
(* The model follows the code, including what the code gets wrong (these    *)
(* are the known findings the properties below exhibit):                    *)
(*   - cancellations raised after the last Suspended never reach the host;  *)
(*   - Promise.allSettled settles at once over pending inputs;              *)
(*   - Promise.any over a pending input registers no reaction;              *)
(*   - a double cancel is reported twice.                                   *)
(***************************************************************************)
EXTENDS Integers, Sequences, FiniteSets, TLC, Json, IOUtils
CONSTANTS NV,        \* order variables
          MaxLen,    \* script length
          MaxHost,   \* host moves (answers + settlements) per behaviour
          ExtraSteps,\* step() calls allowed beyond MaxHost (spurious steps)
          MaxStray,  \* answers to unknown / already answered ids per behaviour
          Emitting,  \* keep the history and print one line per finished behaviour
          OpKinds,   \* which script operations to enumerate
          Kinds,     \* which combinators: subset of {"all", "race", "any", "allSettled"}
          ScriptFile \* "" = enumerate all well-formed scripts; otherwise an ndjson file holding ONE script
Vars == 1..NV
W == NV + 1
AllOps == [o : {"ord", "tord"}, v : Vars] \cup [o : {"await", "tawait"}, v : 1..W]
          \cup [o : {"comb"}, k : Kinds] \cup [o : {"cancel"}, v : Vars]
Ops == { x \in AllOps : x.o \in OpKinds }
RespKinds == {"val", "err", "prom", "promL"}
NONE == 0
MaxId == NV
CP == MaxId + 1            \* promise number of the combinator result; host promise for order i is i
Proms == 1..CP

IsOrd(x) == x.o \in {"ord", "tord"}
RECURSIVE SeqsOfLen(_)
SeqsOfLen(n) == IF n = 0 THEN {<<>>} ELSE { Append(s, o) : s \in SeqsOfLen(n - 1), o \in Ops }
\* well-formed: each variable ordered at most once and used only after it was ordered; at most one
\* combinator, over the (at least two) variables ordered before it; the combinator result awaited only after it exists
WF(s) ==
  /\ \A i, j \in 1..Len(s) : (i # j /\ IsOrd(s[i]) /\ IsOrd(s[j])) => s[i].v # s[j].v
  /\ \A i \in 1..Len(s) : (s[i].o \in {"await", "tawait", "cancel"} /\ s[i].v \in Vars)
                              => \E j \in 1..(i - 1) : IsOrd(s[j]) /\ s[j].v = s[i].v
  /\ \A i, j \in 1..Len(s) : (i # j /\ s[i].o = "comb") => s[j].o # "comb"
  /\ \A i \in 1..Len(s) : s[i].o = "comb" => Cardinality({ j \in 1..(i - 1) : IsOrd(s[j]) }) >= 2
  /\ \A i \in 1..Len(s) : (s[i].o \in {"await", "tawait"} /\ s[i].v = W) => \E j \in 1..(i - 1) : s[j].o = "comb"
  /\ IsOrd(s[1])
\* WF is prefix-closed, so well-formed scripts are built by extension (the unfiltered product is too large)
RECURSIVE WFSeqs(_)
WFSeqs(n) == IF n = 0 THEN {<<>>}
             ELSE { t \in { Append(s, o) : s \in WFSeqs(n - 1), o \in Ops } : WF(t) }
Scripts == IF ScriptFile = "" THEN UNION { WFSeqs(n) : n \in 1..MaxLen }
           ELSE { ndJsonDeserialize(ScriptFile)[1] }

VARIABLES script, pc, val, vord,                       \* program
          nextId, pend, canc, resp, suspFor, suspVar, suspTry, waitOn, waitTry, vm, phase,   \* interpreter ledger
          pst, plink, cstate,                          \* promises; combinator bookkeeping
          last,                                        \* last StepResult handed to the host
          rep, crep, craised, hraised, answered, hostMoves, nsteps, lostWake, strays, hist   \* ghost
core == <<script, pc, val, vord, nextId, pend, canc, resp, suspFor, suspVar, suspTry, waitOn, waitTry, vm, phase,
          pst, plink, cstate, last, rep, crep, craised, hraised, answered, hostMoves, nsteps, lostWake, strays>>
vars == <<core, hist>>

Init ==
  /\ script \in Scripts /\ pc = 1
  /\ val = [v \in 1..W |-> [k |-> "unset"]] /\ vord = [v \in Vars |-> NONE]
  /\ nextId = 1 /\ pend = <<>> /\ canc = <<>> /\ resp = [i \in 1..MaxId |-> "none"]
  /\ suspFor = NONE /\ suspVar = NONE /\ suspTry = FALSE /\ waitOn = NONE /\ waitTry = FALSE
  /\ vm = "active" /\ phase = "running"
  /\ pst = [p \in Proms |-> "na"] /\ plink = [p \in Proms |-> NONE]
  /\ cstate = [kind |-> "none", inputs |-> <<>>, remaining |-> 0, done |-> FALSE, sym |-> <<>>]
  /\ last = [r |-> "Prepared", pending |-> <<>>, cancelled |-> <<>>]
  /\ rep = [i \in 1..MaxId |-> 0] /\ crep = [i \in 1..MaxId |-> 0] /\ craised = [i \in 1..MaxId |-> 0]
  /\ hraised = [i \in 1..MaxId |-> 0]
  /\ answered = {} /\ hostMoves = 0 /\ nsteps = 0 /\ lostWake = FALSE /\ strays = 0 /\ hist = <<>>

\* ---- machine state as a record so that run-to-terminal can be a recursive operator
St == [pc |-> pc, val |-> val, vord |-> vord, nextId |-> nextId, pend |-> pend, canc |-> canc, resp |-> resp,
       suspFor |-> suspFor, suspVar |-> suspVar, suspTry |-> suspTry, waitOn |-> waitOn, waitTry |-> waitTry,
       vm |-> vm, phase |-> phase, pst |-> pst, plink |-> plink, cstate |-> cstate, craised |-> craised, hraised |-> hraised]
Install(st) ==
  /\ pc' = st.pc /\ val' = st.val /\ vord' = st.vord /\ nextId' = st.nextId /\ pend' = st.pend /\ canc' = st.canc
  /\ resp' = st.resp /\ suspFor' = st.suspFor /\ suspVar' = st.suspVar /\ suspTry' = st.suspTry
  /\ waitOn' = st.waitOn /\ waitTry' = st.waitTry /\ vm' = st.vm /\ phase' = st.phase
  /\ pst' = st.pst /\ plink' = st.plink /\ cstate' = st.cstate /\ craised' = st.craised /\ hraised' = st.hraised

RaiseCancel(st, id) == [st EXCEPT !.canc = Append(st.canc, id), !.craised[id] = st.craised[id] + 1]
\* the host rejected its own order-linked promise: the interpreter lists the order as cancelled as well
HostRejectCancel(st, id) == [st EXCEPT !.canc = Append(st.canc, id), !.hraised[id] = st.hraised[id] + 1]

\* settle promise p with status s ("ful"/"rej"); combinator reactions run synchronously inside the call
SettleP(st, p, s) ==
  IF st.pst[p] # "pending" THEN st
  ELSE LET s1 == [st EXCEPT !.pst[p] = s]
           \* rejecting an order-linked promise raises a cancellation for its order
           s2 == IF s = "rej" /\ st.plink[p] # NONE THEN HostRejectCancel(s1, st.plink[p]) ELSE s1
           c == s2.cstate
           isInput == \E i \in 1..Len(c.inputs) : c.inputs[i] = p
       IN IF ~isInput \/ c.kind \notin {"all", "race"} THEN s2
          ELSE IF c.kind = "all" THEN
                 (IF c.done THEN s2
                  ELSE IF s = "rej" THEN [s2 EXCEPT !.cstate.done = TRUE, !.pst[CP] = "rej"]
                  ELSE IF c.remaining = 1 THEN [s2 EXCEPT !.cstate.remaining = 0, !.cstate.done = TRUE, !.pst[CP] = "ful"]
                  ELSE [s2 EXCEPT !.cstate.remaining = c.remaining - 1])
          ELSE \* race: the first settlement wins; every order-linked loser is cancelled
                 (IF c.done THEN s2
                  ELSE LET losers == { q \in { c.inputs[i] : i \in 1..Len(c.inputs) } : q # p /\ s2.plink[q] # NONE }
                           RECURSIVE CancelAll(_, _)
                           CancelAll(S, x) == IF S = {} THEN x
                                              ELSE LET q == CHOOSE q \in S : \A r \in S : q <= r
                                                   IN CancelAll(S \ {q}, RaiseCancel(x, x.plink[q]))
                           s3 == CancelAll(losers, s2)
                       IN [s3 EXCEPT !.cstate.done = TRUE, !.pst[CP] = s, !.cstate.sym = <<"p" \o ToString(p)>>])

Susp(st) == [r |-> "Suspended", pending |-> st.pend, cancelled |-> st.canc]
TakeLists(st) == [st EXCEPT !.pend = <<>>, !.canc = <<>>]
Plain(r) == [r |-> r, pending |-> <<>>, cancelled |-> <<>>]

\* Promise.kind([x_1..x_NV]) at call time
CombCall(st, kind) ==
  LET ins == [v \in Vars |-> st.val[v]]
      In == { v \in Vars : st.vord[v] # NONE }          \* the variables ordered so far are the inputs
      status(v) == IF ins[v].k = "prom" THEN st.pst[ins[v].p] ELSE "ful"
      pendingVs == { v \in In : status(v) = "pending" }
      anyRej == \E v \in In : status(v) = "rej"
      anyFul == \E v \in In : status(v) = "ful"
      RECURSIVE Build(_)
      Build(v) == IF v > NV THEN <<>> ELSE (IF v \in pendingVs THEN <<ins[v].p>> ELSE <<>>) \o Build(v + 1)
      inputSeq == Build(1)
      setW(x, s) == [x EXCEPT !.val[W] = [k |-> "prom", p |-> CP], !.pst[CP] = s]
      \* the VALUE an input contributes (symbolically: the replay harness answers order i with 100+i and fulfils host promise p with 700+p)
      Sym(v) == IF ins[v].k = "prom" THEN "p" \o ToString(ins[v].p) ELSE IF ins[v].k = "val" THEN "v" \o ToString(st.vord[v]) ELSE ins[v].k
      RECURSIVE Syms(_)
      Syms(v) == IF v > NV THEN <<>> ELSE (IF v \in In THEN <<Sym(v)>> ELSE <<>>) \o Syms(v + 1)
      withSym(x, q) == [x EXCEPT !.cstate.sym = q]
  IN CASE kind = "all" ->
            \* fulfilled with the array of the inputs' values IN INPUT ORDER, however the settlements are ordered
            (IF anyRej THEN setW(st, "rej")
             ELSE IF pendingVs = {} THEN withSym(setW(st, "ful"), Syms(1))
             ELSE [setW(st, "pending") EXCEPT !.cstate = [kind |-> "all", inputs |-> inputSeq,
                                                          remaining |-> Cardinality(pendingVs), done |-> FALSE, sym |-> Syms(1)]])
       [] kind = "race" ->
            \* the first already-settled input (in order) wins; nobody is cancelled on that path
            (IF \E v \in In : status(v) # "pending"
             THEN LET v == CHOOSE v \in In : status(v) # "pending" /\ \A u \in In : u < v => status(u) = "pending"
                  IN withSym(setW(st, status(v)), <<Sym(v)>>)
             ELSE [setW(st, "pending") EXCEPT !.cstate = [kind |-> "race", inputs |-> inputSeq, remaining |-> 0, done |-> FALSE, sym |-> <<>>]])
       [] kind = "allSettled" -> withSym(setW(st, "ful"), <<"?">>)          \* DEVIATION: settles at once, even over pending inputs
       [] kind = "any" ->
            (IF anyFul THEN withSym(setW(st, "ful"), <<"?">>)
             ELSE IF anyRej /\ pendingVs = {} THEN setW(st, "rej")
             ELSE setW(st, "pending"))                     \* DEVIATION: no reactions registered: never settles

\* run the VM from st until a terminal result; returns <<st', result>>
RECURSIVE Run(_)
Run(st) ==
  IF st.pc > Len(script) THEN
     \* VmResult::Complete -> process_vm_result.  DEVIATION: cancellations still in the ledger are dropped.
     (IF st.pend # <<>> THEN << [TakeLists(st) EXCEPT !.vm = "none"], Susp(st) >>
      ELSE << [st EXCEPT !.vm = "none", !.phase = "done"], Plain("Complete") >>)
  ELSE LET op == script[st.pc] IN
    CASE IsOrd(op) ->
           LET id == st.nextId
               s1 == [st EXCEPT !.nextId = id + 1, !.pend = Append(st.pend, id), !.vord[op.v] = id,
                                !.suspFor = id, !.suspVar = op.v, !.suspTry = (op.o = "tord"), !.vm = "none"]
           IN << TakeLists(s1), Susp(s1) >>
      [] op.o \in {"await", "tawait"} ->
           LET x == st.val[op.v] IN
           (IF x.k # "prom" THEN Run([st EXCEPT !.pc = st.pc + 1])
            ELSE IF st.pst[x.p] = "ful" THEN Run([st EXCEPT !.pc = st.pc + 1])
            ELSE IF st.pst[x.p] = "rej" THEN
                   (IF op.o = "tawait" THEN Run([st EXCEPT !.val[op.v] = [k |-> "caught"], !.pc = st.pc + 1])
                    ELSE << [st EXCEPT !.vm = "none", !.phase = "error"], Plain("Error") >>)
            ELSE LET s1 == [st EXCEPT !.waitOn = x.p, !.waitTry = (op.o = "tawait"), !.vm = "none"]
                 IN << TakeLists(s1), Susp(s1) >>)
      [] op.o = "comb" -> Run([CombCall(st, op.k) EXCEPT !.pc = st.pc + 1])
      [] op.o = "cancel" ->
           LET id == st.vord[op.v]
               s1 == RaiseCancel(st, id)
               s2 == [s1 EXCEPT !.pend = SelectSeq(s1.pend, LAMBDA x : x # id), !.resp[id] = "none", !.pc = st.pc + 1]
           IN Run(s2)

Count(seq, i) == Cardinality({ j \in 1..Len(seq) : seq[j] = i })
Account(res) ==
  /\ last' = res
  /\ hist' = IF Emitting THEN Append(hist, [a |-> "step", r |-> res.r, pending |-> res.pending, cancelled |-> res.cancelled])
             ELSE hist
  /\ rep'  = [i \in 1..MaxId |-> rep[i] + Count(res.pending, i)]
  /\ crep' = [i \in 1..MaxId |-> crep[i] + Count(res.cancelled, i)]
  /\ nsteps' = IF ExtraSteps >= 99 THEN 0 ELSE nsteps + 1

\* is there anything the host can still do for the run in state st?
OutstandingIn(st, ans) ==
  \/ \E i \in 1..MaxId : st.suspFor = i /\ st.resp[i] = "none"            \* an order the VM is blocked on
  \/ \E p \in 1..MaxId : st.pst[p] = "pending"                            \* an unsettled host promise
  \/ \E i \in 1..MaxId : st.suspFor = i /\ st.resp[i] # "none"            \* an answer not yet consumed
  \/ st.waitOn # NONE /\ st.pst[st.waitOn] # "pending"                    \* a settled promise not yet consumed

\* ---- the host calls step() (and keeps stepping over Continue results until a terminal result)
StepFrom(st0) ==
  LET \* 1. order suspension with a response
      s1 == IF st0.vm = "none" /\ st0.suspFor # NONE /\ st0.resp[st0.suspFor] # "none" THEN
               LET id == st0.suspFor  r == st0.resp[id]
                   base == [st0 EXCEPT !.resp[id] = "none", !.suspFor = NONE]
               IN IF r = "err" THEN
                     (IF st0.suspTry THEN [base EXCEPT !.val[st0.suspVar] = [k |-> "caught"], !.pc = st0.pc + 1, !.vm = "active"]
                      ELSE [base EXCEPT !.phase = "error"])
                  ELSE [base EXCEPT !.val[st0.suspVar] = (IF r = "val" THEN [k |-> "val"] ELSE [k |-> "prom", p |-> id]),
                                    !.pc = st0.pc + 1, !.vm = "active"]
            ELSE st0
  IN IF s1.phase = "error" THEN << s1, Plain("Error") >>
     ELSE IF s1.vm = "none" /\ s1.suspFor # NONE THEN << TakeLists(s1), Susp(s1) >>       \* re-suspend
     ELSE LET s2 == IF s1.vm = "none" /\ s1.waitOn # NONE /\ s1.pst[s1.waitOn] # "pending" THEN
                       (IF s1.pst[s1.waitOn] = "ful" THEN [s1 EXCEPT !.waitOn = NONE, !.pc = s1.pc + 1, !.vm = "active"]
                        ELSE IF s1.waitTry THEN
                             [s1 EXCEPT !.waitOn = NONE, !.val[script[s1.pc].v] = [k |-> "caught"], !.pc = s1.pc + 1, !.vm = "active"]
                        ELSE [s1 EXCEPT !.waitOn = NONE, !.phase = "error"])
                    ELSE s1
          IN IF s2.phase = "error" THEN << s2, Plain("Error") >>
             ELSE IF s2.vm = "none" THEN
                    (IF s2.waitOn # NONE THEN << TakeLists(s2), Susp(s2) >>
                     ELSE << s2, Plain("Done") >>)
             ELSE Run(s2)

Step ==
  /\ phase = "running" /\ (ExtraSteps >= 99 \/ nsteps < MaxHost + ExtraSteps)    \* ExtraSteps >= 99: unbounded stepping (liveness)
  /\ LET rr == StepFrom(St) IN
       /\ Install(rr[1]) /\ Account(rr[2])
       /\ lostWake' = (lostWake \/ (rr[2].r = "Suspended" /\ rr[1].phase = "running" /\ ~OutstandingIn(rr[1], answered)))
  /\ UNCHANGED <<script, answered, hostMoves, strays>>

\* ---- host actions between steps
Fulfil(id, kind) ==
  /\ phase = "running" /\ hostMoves < MaxHost
  /\ kind \in {"prom", "promL"} => (rep[id] > 0 /\ id \notin answered)     \* one promise per order
  \* answers to unknown (not yet reported) or already answered ids: at most MaxStray per behaviour
  /\ LET stray == (rep[id] = 0 \/ id \in answered) IN
       /\ stray => strays < MaxStray
       /\ strays' = IF stray THEN strays + 1 ELSE strays
  /\ resp' = [resp EXCEPT ![id] = kind]
  /\ answered' = answered \cup {id}
  /\ pst' = IF kind \in {"prom", "promL"} THEN [pst EXCEPT ![id] = "pending"] ELSE pst
  /\ plink' = IF kind = "promL" THEN [plink EXCEPT ![id] = id] ELSE plink
  /\ hostMoves' = hostMoves + 1
  /\ hist' = IF Emitting THEN Append(hist, [a |-> "fulfil", id |-> id, kind |-> kind]) ELSE hist
  /\ UNCHANGED <<script, pc, val, vord, nextId, pend, canc, suspFor, suspVar, suspTry, waitOn, waitTry, vm, phase,
                 cstate, last, rep, crep, craised, hraised, nsteps, lostWake>>
Settle(p, s) ==
  /\ phase = "running" /\ hostMoves < MaxHost
  /\ p \in 1..MaxId /\ pst[p] = "pending"
  /\ Install(SettleP(St, p, s))
  /\ hostMoves' = hostMoves + 1
  /\ hist' = IF Emitting THEN Append(hist, [a |-> "settle", p |-> p, s |-> s]) ELSE hist
  /\ UNCHANGED <<script, last, rep, crep, answered, nsteps, lostWake, strays>>

Next == \/ Step
        \/ \E id \in 1..MaxId, k \in RespKinds : Fulfil(id, k)
        \/ \E p \in 1..MaxId, s \in {"ful", "rej"} : Settle(p, s)
Spec == Init /\ [][Next]_vars
\* liveness: the host eventually stops acting (MaxHost) but keeps stepping
FairSpec == Spec /\ WF_vars(Step)

\* ---- the properties of C08
Issued == 1..(nextId - 1)
\* every order is handed to the host exactly once ...
ReportedAtMostOnce == \A i \in 1..MaxId : rep[i] <= 1
ReportedWhenDone   == phase = "done" => \A i \in Issued : rep[i] = 1 \/ craised[i] > 0
\* ... with a fresh identifier
FreshIds           == \A v1, v2 \in Vars : (v1 # v2 /\ vord[v1] # NONE) => vord[v1] # vord[v2]
\* every cancellation names an issued order and reaches the host exactly once
CancelNamesIssued  == \A i \in 1..MaxId : crep[i] > 0 => i \in Issued
\* never more reports than cancellations raised (by the program, or implied by the host's own rejection)
CancelAtMostOnce   == \A i \in 1..MaxId : crep[i] <= craised[i] + hraised[i]
\* every cancellation the PROGRAM raised (explicit cancel, race loser) has reached the host when the run is over
CancelReachesHost  == phase = "done" => \A i \in 1..MaxId : crep[i] >= craised[i]
\* whenever Suspended is reported there is something the host can still do
NoLostWakeup       == ~lostWake
\* Complete only when nothing is outstanding
CompleteOnlyWhenQuiet == last.r = "Complete" =>
      ~(\E i \in 1..MaxId : rep[i] > 0 /\ i \notin answered /\ craised[i] = 0)
\* progress: with a host that has stopped, stepping reaches a terminal result or a state with something outstanding
Quiesces == <>[](phase # "running" \/ OutstandingIn(St, answered) \/ hostMoves < MaxHost)

PropNames == {"ReportedAtMostOnce", "ReportedWhenDone", "FreshIds", "CancelNamesIssued", "CancelAtMostOnce",
              "CancelReachesHost", "NoLostWakeup", "CompleteOnlyWhenQuiet"}
Holds(n) == CASE n = "ReportedAtMostOnce" -> ReportedAtMostOnce [] n = "ReportedWhenDone" -> ReportedWhenDone
              [] n = "FreshIds" -> FreshIds [] n = "CancelNamesIssued" -> CancelNamesIssued
              [] n = "CancelAtMostOnce" -> CancelAtMostOnce [] n = "CancelReachesHost" -> CancelReachesHost
              [] n = "NoLostWakeup" -> NoLostWakeup [] n = "CompleteOnlyWhenQuiet" -> CompleteOnlyWhenQuiet
Violated == { n \in PropNames : ~Holds(n) }

\* what the program's completion value reports about its variables
Final == [v \in 1..W |-> val[v].k]
\* what `await w` produced, if the script awaited the combinator result and it was fulfilled: the symbolic values (see Sym)
WGot == IF val[W].k = "prom" /\ pst[CP] = "ful" /\ \E i \in 1..(pc - 1) : i <= Len(script) /\ script[i].o \in {"await", "tawait"} /\ script[i].v = W
        THEN cstate.sym ELSE <<>>
Finished == phase # "running" \/ (hostMoves = MaxHost /\ nsteps = MaxHost + ExtraSteps)
\* model checking without histories: report which properties fail, with the script that exhibits it
View == core
EmitViolations == (Finished /\ Violated # {}) => PrintT(<<"V", ToJson([script |-> script, viol |-> Violated])>>)
EmitBehaviour == (Emitting /\ Finished) =>
     PrintT(<<"B", ToJson([script |-> script, hist |-> hist, viol |-> Violated, final |-> Final, wgot |-> WGot, phase |-> phase])>>)
====
