------------------------------ MODULE JsonMap ------------------------------
(* C16 — data crosses the JSON boundary without loss.
   JSON documents and JavaScript value graphs as trees over OPAQUE ATOMS (string atoms s1.., number atoms n1..;
   the harness instantiates them from pools of concrete strings / doubles).  The module defines
     ToJs(d)      the value a document becomes (JSON.parse, api::create_from_json): duplicate keys - last value
                  wins at the position of the first occurrence; own keys ordered as ECMAScript orders them
                  (array indices ascending, then strings in insertion order);
     Ser(h,v,p)   the document a value graph serialises to (JSON.stringify, js_value_to_json): undefined /
                  functions / symbols omitted from objects and null inside arrays, NaN and +-Infinity null,
                  -0 as 0, shared (acyclic) containers serialised at every occurrence, a cycle refused;
   and two builders whose behaviours ARE the inputs of the conformance replay:
     Mode = "doc"    a token-by-token document builder (leaf / open / close): every document with at most
                     MaxTok leaves+containers, nesting <= MaxDepth, <= MaxKids children per container;
     Mode = "graph"  a heap of NC containers filled by Put(c, key, value) where value is a leaf or a reference
                     to any container (sharing and cycles), at most MaxEntries entries, everything reachable from 1.
   Theorems checked by TLC on every built input: RoundTrip, Idempotent (documents), CycleIffRefused,
   PruneStable (graphs).  Every completed input is printed with the specification's expectation (flow R). *)
EXTENDS Naturals, Sequences, FiniteSets, TLC, Json, SequencesExt

CONSTANTS Mode, DocLeaves, JsLeaves, Keys, MaxTok, MaxDepth, MaxKids, NC, MaxEntries, Emitting

KeyNum == ("0" :> 0) @@ ("1" :> 1) @@ ("2" :> 2) @@ ("7" :> 7) @@ ("10" :> 10)      \* the canonical array-index keys in use
IsIdx(k) == k \in DOMAIN KeyNum

Leaf(a)     == [t |-> "leaf", a |-> a,  i |-> 0, ks |-> <<>>, vs |-> <<>>]
Arr(vs)     == [t |-> "arr",  a |-> "", i |-> 0, ks |-> <<>>, vs |-> vs]
Obj(ks, vs) == [t |-> "obj",  a |-> "", i |-> 0, ks |-> ks,   vs |-> vs]
Ref(i)      == [t |-> "ref",  a |-> "", i |-> i, ks |-> <<>>, vs |-> <<>>]
OMIT  == Leaf("omit")
CYCLE == Leaf("cycle-error")

\* ------------------------------------------------------------------ object keys
FirstPos(ks) == {p \in 1..Len(ks) : \A q \in 1..(p - 1) : ks[q] # ks[p]}
LastPos(ks, k) == CHOOSE p \in 1..Len(ks) : ks[p] = k /\ \A q \in (p + 1)..Len(ks) : ks[q] # k
\* positions of the own keys in ECMAScript order
KeyOrder(ks) ==
  LET fp  == FirstPos(ks)
      idx == {p \in fp : IsIdx(ks[p])}
  IN SetToSortSeq(idx, LAMBDA p, q : KeyNum[ks[p]] < KeyNum[ks[q]]) \o SetToSortSeq(fp \ idx, <)

\* ------------------------------------------------------------------ document -> value
RECURSIVE ToJs(_)
ToJs(d) ==
  CASE d.t = "leaf" -> d
    [] d.t = "arr"  -> Arr([p \in 1..Len(d.vs) |-> ToJs(d.vs[p])])
    [] d.t = "obj"  -> LET ord == KeyOrder(d.ks)
                       IN Obj([j \in 1..Len(ord) |-> d.ks[ord[j]]],
                              [j \in 1..Len(ord) |-> ToJs(d.vs[LastPos(d.ks, d.ks[ord[j]])])])

\* ------------------------------------------------------------------ value -> document
LeafOut(a) == IF a \in {"undef", "fun", "sym"} THEN OMIT
              ELSE IF a \in {"nan", "inf", "ninf"} THEN Leaf("null")
              ELSE IF a = "nzero" THEN Leaf("zero")
              ELSE Leaf(a)
Keep(cs) == SelectSeq([p \in 1..Len(cs) |-> p], LAMBDA p : cs[p] # OMIT)
RECURSIVE Ser(_, _, _)
Ser(h, v, path) ==
  IF v.t = "leaf" THEN LeafOut(v.a)
  ELSE LET c    == IF v.t = "ref" THEN h[v.i] ELSE v
           np   == IF v.t = "ref" THEN path \cup {v.i} ELSE path
       IN IF v.t = "ref" /\ v.i \in path THEN CYCLE
          ELSE LET ord  == IF c.t = "obj" THEN KeyOrder(c.ks) ELSE [p \in 1..Len(c.vs) |-> p]
                   kids == [j \in 1..Len(ord) |-> Ser(h, c.vs[ord[j]], np)]
               IN IF \E j \in 1..Len(kids) : kids[j] = CYCLE THEN CYCLE
                  ELSE IF c.t = "arr" THEN Arr([j \in 1..Len(kids) |-> IF kids[j] = OMIT THEN Leaf("null") ELSE kids[j]])
                  ELSE LET kp == Keep(kids)
                       IN Obj([j \in 1..Len(kp) |-> c.ks[ord[kp[j]]]], [j \in 1..Len(kp) |-> kids[kp[j]]])
FromJs(v) == Ser(<<>>, v, {})

\* ------------------------------------------------------------------ the builders
VARIABLES stack, result, ntok,      \* document builder
          heap, nent                \* graph builder
vars == <<stack, result, ntok, heap, nent>>
NONE == Leaf("none")

Frame(t, pk) == [t |-> t, pk |-> pk, ks |-> <<>>, vs |-> <<>>]
Attach(k, node) ==      \* put a finished node where it belongs
  IF stack = <<>> THEN /\ result' = node /\ stack' = stack
  ELSE LET top == stack[Len(stack)]
       IN /\ Len(top.vs) < MaxKids
          /\ stack' = [stack EXCEPT ![Len(stack)] = [top EXCEPT !.ks = IF top.t = "obj" THEN Append(@, k) ELSE @, !.vs = Append(@, node)]]
          /\ result' = result
KeyChoices == IF stack # <<>> /\ stack[Len(stack)].t = "obj" THEN Keys ELSE {""}

PutLeaf(a, k) ==
  /\ Mode = "doc" /\ result = NONE /\ ntok < MaxTok
  /\ Attach(k, Leaf(a)) /\ ntok' = ntok + 1 /\ UNCHANGED <<heap, nent>>
Open(t, k) ==
  /\ Mode = "doc" /\ result = NONE /\ ntok < MaxTok /\ Len(stack) < MaxDepth
  /\ stack # <<>> => Len(stack[Len(stack)].vs) < MaxKids
  /\ stack' = Append(stack, Frame(t, k)) /\ ntok' = ntok + 1 /\ UNCHANGED <<result, heap, nent>>
Close ==
  /\ Mode = "doc" /\ result = NONE /\ stack # <<>>
  /\ LET top  == stack[Len(stack)]
         node == IF top.t = "arr" THEN Arr(top.vs) ELSE Obj(top.ks, top.vs)
         rest == SubSeq(stack, 1, Len(stack) - 1)
     IN IF rest = <<>> THEN result' = node /\ stack' = rest
        ELSE LET par == rest[Len(rest)]
             IN /\ stack' = [rest EXCEPT ![Len(rest)] = [par EXCEPT !.ks = IF par.t = "obj" THEN Append(@, top.pk) ELSE @, !.vs = Append(@, node)]]
                /\ result' = result
  /\ UNCHANGED <<ntok, heap, nent>>

\* graph builder: heap[c] is a container; values are leaves or references
Reach ==
  LET Step(S) == S \cup {v.i : v \in UNION {{heap[c].vs[p] : p \in 1..Len(heap[c].vs)} : c \in S} \cap {Ref(i) : i \in 1..NC}}
  IN Step(Step(Step({1})))
Put(c, k, v) ==
  /\ Mode = "graph" /\ nent < MaxEntries /\ c \in Reach
  /\ LET cur == heap[c]
     IN IF cur.t = "arr"
        THEN /\ k = "" /\ heap' = [heap EXCEPT ![c].vs = Append(@, v)]
        ELSE /\ k \in Keys
             /\ IF \E p \in 1..Len(cur.ks) : cur.ks[p] = k
                THEN heap' = [heap EXCEPT ![c].vs[CHOOSE p \in 1..Len(cur.ks) : cur.ks[p] = k] = v]      \* plain assignment: overwrite in place
                ELSE heap' = [heap EXCEPT ![c].ks = Append(@, k), ![c].vs = Append(@, v)]
  /\ nent' = nent + 1 /\ UNCHANGED <<stack, result, ntok>>

Init ==
  /\ stack = <<>> /\ result = NONE /\ ntok = 0 /\ nent = 0
  /\ IF Mode = "graph" THEN heap \in [1..NC -> {Arr(<<>>), Obj(<<>>, <<>>)}] ELSE heap = <<>>
Next ==
  \/ \E a \in DocLeaves, k \in KeyChoices : PutLeaf(a, k)
  \/ \E t \in {"arr", "obj"}, k \in KeyChoices : Open(t, k)
  \/ Close
  \/ \E c \in 1..NC, k \in Keys \cup {""}, v \in {Leaf(a) : a \in JsLeaves} \cup {Ref(i) : i \in 1..NC} : Put(c, k, v)
Spec == Init /\ [][Next]_vars

\* ------------------------------------------------------------------ theorems (checked on every built input)
RECURSIVE DocOnly(_)
DocOnly(d) == IF d.t = "leaf" THEN d.a \in (JsLeaves \cup {"null", "zero"}) \ {"undef", "fun", "sym", "nan", "inf", "ninf", "nzero"} ELSE \A p \in 1..Len(d.vs) : DocOnly(d.vs[p])
RoundTrip   == (Mode = "doc" /\ result # NONE) => FromJs(ToJs(result)) = ToJs(result)       \* nothing a document contains is lost
Idempotent  == (Mode = "doc" /\ result # NONE) => ToJs(ToJs(result)) = ToJs(result)
\* a graph is refused iff a container is reachable from itself
Cyclic ==
  LET Succ(c) == {v.i : v \in {heap[c].vs[p] : p \in 1..Len(heap[c].vs)} \cap {Ref(i) : i \in 1..NC}}
      S1(c) == Succ(c)
      S2(c) == S1(c) \cup UNION {Succ(d) : d \in S1(c)}
      S3(c) == S2(c) \cup UNION {Succ(d) : d \in S2(c)}
  IN \E c \in Reach : c \in S3(c)
CycleIffRefused == Mode = "graph" => (Cyclic <=> Ser(heap, Ref(1), {}) = CYCLE)
\* what a graph serialises to is a document, and parsing that document and serialising again changes nothing
PruneStable == (Mode = "graph" /\ ~Cyclic) =>
                 LET d == Ser(heap, Ref(1), {}) IN DocOnly(d) /\ FromJs(ToJs(d)) = d

\* ------------------------------------------------------------------ emission (flow R)
Emit ==
  IF ~Emitting THEN TRUE
  ELSE IF Mode = "doc" THEN
         (result # NONE) => PrintT(<<"J", ToJson([kind |-> "doc", doc |-> result, js |-> ToJs(result)])>>)
       ELSE PrintT(<<"J", ToJson([kind |-> "graph", heap |-> heap, out |-> Ser(heap, Ref(1), {})])>>)
=============================================================================
