---- MODULE PathNorm ----
(***************************************************************************)
(* C18.  Specification of module-specifier resolution                      *)
(*   Resolve(specifier, importer)                                          *)
(* as a segment-stack machine.  A path is                                  *)
(*   [abs : BOOLEAN, segs : Seq(Segment)]                                  *)
(* and denotes the text (abs ? "/" : "") ++ join(segs, "/"); the empty     *)
(* segment "" stands for a doubled or trailing slash.  TLC enumerates the  *)
(* whole bounded input space as initial states, checks the properties of   *)
(* the function on every one of them and prints one line per input with    *)
(* the expected result; the harness replays every line on the real         *)
(* ModulePath::resolve (flow R of DESIGN.md).                              *)
(***************************************************************************)
EXTENDS Integers, Sequences, FiniteSets, TLC, Json
CONSTANTS MaxSegs,      \* total number of segments in specifier + importer
          Emitting      \* TRUE: print one replay line per input
Alphabet == {"", ".", "..", "a", "b", "..a", "a.ts"}

RECURSIVE SeqsOfLen(_)
SeqsOfLen(n) == IF n = 0 THEN {<<>>}
                ELSE { Append(s, x) : s \in SeqsOfLen(n - 1), x \in Alphabet }
SeqsLe(n) == UNION { SeqsOfLen(k) : k \in 0..n }

\* a non-absolute path whose first segment is empty prints as an absolute one: not a distinct input
WellFormed(p) == p.abs \/ p.segs = <<>> \/ p.segs[1] # ""
Paths(n) == { p \in [abs : BOOLEAN, segs : SeqsLe(n)] : WellFormed(p) }

\* "./x" or "../x": first segment "." or ".." FOLLOWED BY A SLASH (a lone "." or ".." is bare)
IsRelSpec(p) == ~p.abs /\ Len(p.segs) > 1 /\ p.segs[1] \in {".", ".."}
IsBare(p)    == ~p.abs /\ ~IsRelSpec(p)

RECURSIVE Norm(_, _)
Norm(segs, stack) ==
  IF segs = <<>> THEN stack
  ELSE LET s == Head(segs) IN
       IF s \in {"", "."} THEN Norm(Tail(segs), stack)
       ELSE IF s = ".." THEN Norm(Tail(segs), IF stack = <<>> THEN <<>>      \* clamp at the root
                                               ELSE SubSeq(stack, 1, Len(stack) - 1))
       ELSE Norm(Tail(segs), Append(stack, s))

\* directory of the importer = everything before its last "/".
\*   "/main.ts" has directory "/" (absolute, no segments); "main.ts" has none.
HasDir(imp)  == imp.abs \/ Len(imp.segs) > 1
DirSegs(imp) == IF imp.segs = <<>> THEN <<>> ELSE SubSeq(imp.segs, 1, Len(imp.segs) - 1)

NoImporter == [abs |-> FALSE, segs |-> <<"<none>">>]

Resolve(spec, imp) ==
  IF IsBare(spec) THEN spec
  ELSE IF spec.abs THEN [abs |-> TRUE, segs |-> Norm(spec.segs, <<>>)]
  ELSE IF imp # NoImporter /\ HasDir(imp)
       THEN [abs |-> imp.abs, segs |-> Norm(DirSegs(imp) \o spec.segs, <<>>)]
  ELSE [abs |-> FALSE, segs |-> Norm(spec.segs, <<>>)]

Clean(p) == \A i \in 1..Len(p.segs) : p.segs[i] \notin {"", ".", ".."}

\* The input space is built segment by segment so that TLC's workers explore it in parallel:
\* every reachable state IS one (specifier, importer) input; the importer is completed first.
VARIABLES spec, imp, phase
vars == <<spec, imp, phase>>
Empty(a) == [abs |-> a, segs |-> <<>>]
Total == Len(spec.segs) + (IF imp = NoImporter THEN 0 ELSE Len(imp.segs))
Init == /\ spec \in { Empty(a) : a \in BOOLEAN }
        /\ imp \in { Empty(a) : a \in BOOLEAN } \cup {NoImporter}
        /\ phase = "imp"
Grow(p) == { q \in { [p EXCEPT !.segs = Append(p.segs, x)] : x \in Alphabet } : WellFormed(q) }
Next == /\ Total < MaxSegs
        /\ \/ /\ phase = "imp" /\ imp # NoImporter /\ spec.segs = <<>>
              /\ imp' \in Grow(imp) /\ UNCHANGED <<spec, phase>>
           \/ /\ spec' \in Grow(spec) /\ phase' = "spec" /\ UNCHANGED imp
Spec == Init /\ [][Next]_vars

R == Resolve(spec, imp)
AbsImp == imp # NoImporter /\ imp.abs

\* ---- the properties of C18, evaluated on every enumerated input
AbsoluteFromAbsoluteImporter == (AbsImp /\ ~IsBare(spec)) => R.abs
CleanResult     == ~IsBare(spec) => Clean(R)                 \* no "", ".", ".." and hence no trailing slash
Idempotent      == ~IsBare(spec) => Resolve(R, imp) = R
BarePassThrough == IsBare(spec) => R = spec
\* equivalent spellings: inserting "." or "" segments, or "x/.." pairs, anywhere in the specifier
\* does not change the result (checked against every other enumerated spelling of the same length+1)
Spellings(p) == { [p EXCEPT !.segs = SubSeq(p.segs, 1, i) \o ins \o SubSeq(p.segs, i + 1, Len(p.segs))] :
                    i \in 1..Len(p.segs), ins \in {<<".">>, <<"">>, <<"a", "..">>} }
EquivalentSpellings == (~IsBare(spec) /\ spec.segs # <<>>) =>
                          \A q \in Spellings(spec) : (~IsBare(q)) => Resolve(q, imp) = R

Emit == Emitting => PrintT(<<"P", ToJson([spec |-> spec, imp |-> imp, res |-> R])>>)
====
