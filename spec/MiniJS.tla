---- MODULE MiniJS ----
\* Small-step (CEK-style) semantics of a JavaScript core, strict mode.
\* Programs arrive as flattened node tables (ndjson, one program per line):
\*   [id, root, nodes: <<node>>]   node = record with field ty and type-specific fields; child links are node indices.
EXTENDS JSValues, Json, IOUtils
Progs == ndJsonDeserialize(IOEnv.PROGS)
VARIABLES pi,    \* program index
          ctl,   \* [m |-> "ev", n |-> node] | [m |-> "ret", c |-> completion]
          k,     \* continuation: sequence of frames, head = innermost
          env,   \* heap address of the current scope
          heap,  \* sequence of records: scopes and closures (address = index)
          out,   \* observable events
          feat,  \* ghost: semantic events this run went through (attribution of known findings)
          st, steps
vars == <<pi, ctl, k, env, heap, out, feat, st, steps>>
Nd(n) == Progs[pi].nodes[n]
MaxSteps == 4000

\* ---------------- completions
Normal(v) == [c |-> "normal", v |-> v, l |-> ""]
Abrupt(c, v, l) == [c |-> c, v |-> v, l |-> l]
Throw(v) == Abrupt("throw", v, "")
Err(kind) == [t |-> "err", kind |-> kind]
Ev(n) == [m |-> "ev", n |-> n]
Ret(c) == [m |-> "ret", c |-> c]
RetV(v) == Ret(Normal(v))
Fun(a) == [t |-> "fun", a |-> a]

\* ---------------- scopes (heap records [k |-> "env", vars |-> <<[n, v, init, mut]>>, outer |-> addr])
NoEnv == 0
RECURSIVE FindEnv(_, _, _)
FindEnv(h, e, name) ==   \* address of the scope that binds name, or NoEnv
  IF e = NoEnv THEN NoEnv
  ELSE IF \E i \in 1..Len(h[e].vars) : h[e].vars[i].n = name THEN e ELSE FindEnv(h, h[e].outer, name)
VarIdx(h, e, name) == CHOOSE i \in 1..Len(h[e].vars) : h[e].vars[i].n = name
HasOwn(h, e, name) == \E i \in 1..Len(h[e].vars) : h[e].vars[i].n = name
Declare(h, e, name, v, init, mut) ==
  IF HasOwn(h, e, name) THEN h   \* redeclaration (var/function): keep
  ELSE [h EXCEPT ![e].vars = Append(@, [n |-> name, v |-> v, init |-> init, mut |-> mut])]
SetBinding(h, e, name, v) == LET i == VarIdx(h, e, name) IN [h EXCEPT ![e].vars[i].v = v, ![e].vars[i].init = TRUE]
NewEnv(h, outer) == Append(h, [k |-> "env", vars |-> <<>>, outer |-> outer])

\* ---------------- hoisting: declarations directly contained in a statement list
\* lexical (let/const/class/function-in-block) go to the block scope; var goes to the function scope
RECURSIVE FlatBodies(_)
FlatBodies(bs) == IF bs = <<>> THEN <<>> ELSE bs[1] \o FlatBodies(Tail(bs))     \* the statements of a case block, in order
RECURSIVE VarNames(_)
RECURSIVE VarNamesList(_)
VarNamesList(xs) == IF xs = <<>> THEN <<>> ELSE VarNames(xs[1]) \o VarNamesList(Tail(xs))
VarNames(n) == LET d == Nd(n) IN
  CASE d.ty = "decl" -> IF d.kind = "var" THEN <<d.name>> ELSE <<>>
    [] d.ty = "ddecl" -> IF d.kind = "var" THEN d.names ELSE <<>>
    [] d.ty = "block" -> VarNamesList(d.xs)
    [] d.ty = "if" -> VarNames(d.b) \o (IF d.c # 0 THEN VarNames(d.c) ELSE <<>>)
    [] d.ty \in {"while", "dowhile"} -> VarNames(d.b)
    [] d.ty = "for" -> (IF d.init # 0 THEN VarNames(d.init) ELSE <<>>) \o VarNames(d.body)
    [] d.ty = "forof" -> (IF d.kind = "var" THEN <<d.name>> ELSE <<>>) \o VarNames(d.body)
    [] d.ty = "try" -> VarNames(d.a) \o (IF d.b # 0 THEN VarNames(d.b) ELSE <<>>) \o (IF d.c # 0 THEN VarNames(d.c) ELSE <<>>)
    [] d.ty = "labeled" -> VarNames(d.body)
    [] d.ty = "switch" -> VarNamesList(FlatBodies(d.bodies))
    [] OTHER -> <<>>
\* declare hoisted names of a statement list into scope e (block-level) and fe (function-level vars)
RECURSIVE DeclareAll(_, _, _, _)
DeclareAll(h, e, names, mut) == IF names = <<>> THEN h ELSE DeclareAll(Declare(h, e, names[1], U, FALSE, mut), e, Tail(names), mut)
RECURSIVE HoistLex(_, _, _)
HoistLex(h, e, xs) ==
  IF xs = <<>> THEN h
  ELSE LET d == Nd(xs[1]) IN
       LET h1 == CASE d.ty = "decl" /\ d.kind \in {"let", "const"} -> Declare(h, e, d.name, U, FALSE, d.kind = "let")
                   [] d.ty = "ddecl" /\ d.kind \in {"let", "const"} -> DeclareAll(h, e, d.names, d.kind = "let")
                   [] d.ty = "classdecl" -> Declare(h, e, d.name, U, FALSE, TRUE)
                   [] d.ty = "funcdecl" -> LET h2 == Append(h, [k |-> "fun", params |-> d.params, defs |-> d.defs, body |-> d.body, env |-> e, name |-> d.name, arrow |-> FALSE, gen |-> (d.gen = 1), cls |-> FALSE, home |-> 0])
                                           IN Declare(h2, e, d.name, Fun(Len(h2)), TRUE, TRUE)
                   [] OTHER -> h
       IN HoistLex(h1, e, Tail(xs))
RECURSIVE HoistVars(_, _, _)
HoistVars(h, fe, names) == IF names = <<>> THEN h ELSE HoistVars(Declare(h, fe, names[1], U, TRUE, TRUE), fe, Tail(names))


\* ---------------- heap objects: arrays [k |-> "arr", e |-> <<v>>], objects [k |-> "obj", ks |-> <<code units>>, vs |-> <<v>>]
Ref(a) == [t |-> "ref", a |-> a]
IsRef(v) == v.t = "ref"
RECURSIVE JoinArr(_, _)
\* arrays nested deeper than 5 levels (in particular cyclic ones) are outside the model: ToPrimitive yields Big,
\* which every consumer turns into the outcome "unmodelled"
RECURSIVE TooDeep(_, _, _)
TooDeep(h, v, d) == v.t = "ref" /\ h[v.a].k = "arr" /\ (d = 0 \/ \E i \in 1..Len(h[v.a].e) : TooDeep(h, h[v.a].e[i], d - 1))
ToPrimH(h, v) ==   \* default ToPrimitive of heap values (no user valueOf/toString)
  IF v.t = "fun" THEN S(<<102>>) ELSE IF v.t = "err" THEN S(<<69>>)
  ELSE IF v.t = "ref" THEN (IF h[v.a].k = "arr" THEN (IF TooDeep(h, v, 5) THEN Big ELSE S(JoinArr(h, h[v.a].e)))
                            ELSE IF h[v.a].k = "gen" THEN S(<<91,111,98,106,101,99,116,32,71,101,110,101,114,97,116,111,114,93>>) ELSE S(Lit("[object Object]")))
  ELSE v
JoinArr(h, es) == IF es = <<>> THEN <<>>
                  ELSE LET x == Head(es)
                           xs == IF x.t \in {"undef", "null"} THEN <<>> ELSE ToStringP(ToPrimH(h, x))
                       IN IF Len(es) = 1 THEN xs ELSE xs \o <<44>> \o JoinArr(h, Tail(es))
\* canonical numeric index of a property key string, or -1
IdxOfKey(cs) == IF AllDigits(cs) /\ Len(cs) <= 6 /\ (Len(cs) = 1 \/ cs[1] # 48) THEN DigVal(cs, 0) ELSE -1
KeyOf(h, v) == ToStringP(ToPrimH(h, v))       \* ToPropertyKey (no symbols)
LengthKey == <<108,101,110,103,116,104>>
ProtoOf(o) == IF "proto" \in DOMAIN o THEN o.proto ELSE 0        \* [[Prototype]] of an ordinary object (0: Object.prototype)
IsCls(h, v) == v.t = "fun" /\ h[v.a].cls
ObjFind(o, key) == IF \E i \in 1..Len(o.ks) : o.ks[i] = key THEN CHOOSE i \in 1..Len(o.ks) : o.ks[i] = key ELSE 0
\* [[Get]] : returns [ok |-> TRUE, v |-> value] or [ok |-> FALSE] (TypeError on undefined/null base)
RECURSIVE ObjGet(_, _, _)       \* [[Get]] on an ordinary object: own property, then the prototype chain
ObjGet(h, a, key) == LET o == h[a] i == ObjFind(o, key) IN
  IF i > 0 THEN [found |-> TRUE, v |-> o.vs[i]] ELSE IF ProtoOf(o) = 0 THEN [found |-> FALSE, v |-> U] ELSE ObjGet(h, ProtoOf(o), key)
RECURSIVE ClsGet(_, _, _)       \* static member of a class: own, then the parent class (a class's [[Prototype]] is its parent)
ClsGet(h, a, key) == LET o == h[a] i == ObjFind(o, key) IN
  IF i > 0 THEN o.vs[i] ELSE IF o.parent = 0 THEN U ELSE ClsGet(h, o.parent, key)
RECURSIVE ProtoChainHas(_, _, _)
ProtoChainHas(h, a, target) == LET p == ProtoOf(h[a]) IN IF p = 0 THEN FALSE ELSE IF p = target THEN TRUE ELSE ProtoChainHas(h, p, target)
GetProp(h, base, key) ==
  CASE base.t \in {"undef", "null"} -> [ok |-> FALSE, v |-> U]
    [] base.t = "str" -> IF key = LengthKey THEN [ok |-> TRUE, v |-> N(Len(base.s))]
                         ELSE LET i == IdxOfKey(key) IN
                              IF i >= 0 /\ i < Len(base.s) THEN [ok |-> TRUE, v |-> S(<<base.s[i + 1]>>)] ELSE [ok |-> TRUE, v |-> U]
    [] base.t = "ref" ->
         LET o == h[base.a] IN
         IF o.k = "gen" THEN [ok |-> TRUE, v |-> U]
         ELSE IF o.k = "arr" THEN
            IF key = LengthKey THEN [ok |-> TRUE, v |-> N(Len(o.e))]
            ELSE LET i == IdxOfKey(key) IN IF i >= 0 /\ i < Len(o.e) THEN [ok |-> TRUE, v |-> o.e[i + 1]] ELSE [ok |-> TRUE, v |-> U]
         ELSE [ok |-> TRUE, v |-> ObjGet(h, base.a, key).v]
    [] OTHER -> [ok |-> TRUE, v |-> U]
\* [[HasProperty]] for the `in` operator: own keys, array indices and length, and what every object inherits from
\* Object.prototype / Array.prototype (only the names the generators use).  "unmodelled" for generators.
ObjectProtoNames == {<<116,111,83,116,114,105,110,103>>, <<118,97,108,117,101,79,102>>, <<104,97,115,79,119,110,80,114,111,112,101,114,116,121>>, <<99,111,110,115,116,114,117,99,116,111,114>>}
ArrayProtoNames == {<<112,117,115,104>>, <<109,97,112>>, <<106,111,105,110>>}
HasProp(h, base, key) ==
  LET o == h[base.a] IN
  IF o.k = "gen" THEN "unmodelled"
  ELSE IF key \in ObjectProtoNames THEN "t"
  ELSE IF o.k = "arr" THEN (IF key = LengthKey \/ key \in ArrayProtoNames THEN "t"
                           ELSE LET i == IdxOfKey(key) IN IF i >= 0 /\ i < Len(o.e) THEN "t" ELSE "f")
  ELSE IF ObjGet(h, base.a, key).found THEN "t" ELSE "f"
\* [[Set]] in strict mode: returns [r |-> "ok", h |-> heap'] | [r |-> "type"] | [r |-> "unmodelled"]
SetProp(h, base, key, v) ==
  IF base.t # "ref" THEN [r |-> "type", h |-> h]
  ELSE LET o == h[base.a] IN
       IF o.k = "gen" THEN [r |-> "unmodelled", h |-> h]
       ELSE IF o.k = "arr" THEN
          LET i == IdxOfKey(key) IN
          IF key = LengthKey \/ i < 0 THEN [r |-> "unmodelled", h |-> h]
          ELSE IF i < Len(o.e) THEN [r |-> "ok", h |-> [h EXCEPT ![base.a].e[i + 1] = v]]
          ELSE IF i = Len(o.e) THEN [r |-> "ok", h |-> [h EXCEPT ![base.a].e = Append(@, v)]]
          ELSE [r |-> "unmodelled", h |-> h]
       ELSE LET i == ObjFind(o, key) IN
            IF i > 0 THEN [r |-> "ok", h |-> [h EXCEPT ![base.a].vs[i] = v]]
            ELSE [r |-> "ok", h |-> [h EXCEPT ![base.a].ks = Append(@, key), ![base.a].vs = Append(o.vs, v)]]

\* ---------------- ToPrimitive etc. for heap values (v1: functions print as "function", errors as their kind)
ToPrim(v) == ToPrimH(heap, v)
TypeOf(v) == CASE v.t = "undef" -> "undefined" [] v.t \in {"null", "ref"} -> "object" [] v.t = "bool" -> "boolean"
               [] v.t = "str" -> "string" [] v.t = "fun" -> "function" [] v.t = "err" -> "object" [] OTHER -> "number"
TypeStr(s) == CASE s = "undefined" -> Lit("undefined") [] s = "object" -> <<111,98,106,101,99,116>> [] s = "boolean" -> <<98,111,111,108,101,97,110>>
                [] s = "string" -> <<115,116,114,105,110,103>> [] s = "function" -> <<102,117,110,99,116,105,111,110>> [] s = "number" -> <<110,117,109,98,101,114>>
RECURSIVE LooseEq(_, _)
LooseEq(a, b) ==
  IF IsPrim(a) /\ IsPrim(b) THEN
     IF (IsNumT(a) /\ IsNumT(b)) \/ a.t = b.t THEN StrictEqP(a, b)
     ELSE IF a.t \in {"undef", "null"} /\ b.t \in {"undef", "null"} THEN TRUE
     ELSE IF a.t \in {"undef", "null"} \/ b.t \in {"undef", "null"} THEN FALSE
     ELSE IF a.t = "bool" THEN LooseEq(ToNumberP(a), b)
     ELSE IF b.t = "bool" THEN LooseEq(a, ToNumberP(b))
     ELSE NumEq(ToNumberP(a), ToNumberP(b))
  ELSE IF ~IsPrim(a) /\ ~IsPrim(b) THEN (a.t = b.t /\ a.t \in {"fun", "ref"} /\ a.a = b.a)
  ELSE IF IsPrim(a) THEN (IF a.t \in {"undef", "null"} THEN FALSE ELSE LooseEq(a, ToPrim(b)))
  ELSE (IF b.t \in {"undef", "null"} THEN FALSE ELSE LooseEq(ToPrim(a), b))
StrictEq(a, b) == IF IsPrim(a) /\ IsPrim(b) THEN StrictEqP(a, b) ELSE (a.t = b.t /\ a.t \in {"fun", "ref"} /\ a.a = b.a)
BinP(op, a, b) ==
  CASE op = "+" -> LET pa == ToPrim(a) pb == ToPrim(b) IN
                   IF pa.t = "str" \/ pb.t = "str" THEN S(ToStringP(pa) \o ToStringP(pb)) ELSE Add(ToNumberP(pa), ToNumberP(pb))
    [] op = "-" -> Sub(ToNumberP(ToPrim(a)), ToNumberP(ToPrim(b)))
    [] op = "*" -> Mul(ToNumberP(ToPrim(a)), ToNumberP(ToPrim(b)))
    [] op = "%" -> Mod(ToNumberP(ToPrim(a)), ToNumberP(ToPrim(b)))
    [] op = "<" -> B(RelLess(ToPrim(a), ToPrim(b)) = "t")
    [] op = ">" -> B(RelLess(ToPrim(b), ToPrim(a)) = "t")
    [] op = "<=" -> B(RelLess(ToPrim(b), ToPrim(a)) = "f")
    [] op = ">=" -> B(RelLess(ToPrim(a), ToPrim(b)) = "f")
    [] op = "===" -> B(StrictEq(a, b))
    [] op = "!==" -> B(~StrictEq(a, b))
    [] op = "==" -> B(LooseEq(a, b))
    [] op = "!=" -> B(~LooseEq(a, b))
Bin(op, a, b) == IF op \notin {"===", "!=="} /\ (ToPrim(a).t = "big" \/ ToPrim(b).t = "big") THEN Big ELSE BinP(op, a, b)
\* the result of a binary operator, or Big when it is outside the model: error objects are modelled by their class only (whether
\* two of them are the same object is not known) and the text of an error or of a function is engine-specific
BinX(op, l, v) == LET r == Bin(op, l, v) IN
  IF r.t = "big" \/ (op \in {"==", "!=", "===", "!=="} /\ l.t = "err" /\ v.t = "err")
                \/ (op \in {"+", "<", "<=", ">", ">="} /\ (l.t \in {"fun", "err"} \/ v.t \in {"fun", "err"})) THEN Big ELSE r
UnP(op, a) ==
  CASE op = "-" -> Neg(ToNumberP(ToPrim(a)))
    [] op = "+" -> ToNumberP(ToPrim(a))
    [] op = "!" -> B(~ToBoolean(a))
    [] op = "typeof" -> S(TypeStr(TypeOf(a)))
    [] op = "void" -> U

Un(op, a) == IF op \in {"-", "+"} /\ ToPrim(a).t = "big" THEN Big ELSE UnP(op, a)
\* logical assignment: does the current value end the evaluation?
Short(op, cur) == CASE op = "||=" -> ToBoolean(cur) [] op = "&&=" -> ~ToBoolean(cur) [] op = "??=" -> cur.t \notin {"undef", "null"}

ValueKey == <<118,97,108,117,101>>
DoneKey == <<100,111,110,101>>
IterRes(h, v, done) == Append(h, [k |-> "obj", ks |-> <<ValueKey, DoneKey>>, vs |-> <<v, B(done)>>])
IsGen(h, v) == v.t = "ref" /\ h[v.a].k = "gen"
NextKey == <<110,101,120,116>>
ReturnKey == <<114,101,116,117,114,110>>
ThrowKey == <<116,104,114,111,119>>
GenOpOf(key) == IF key = NextKey THEN "next" ELSE IF key = ReturnKey THEN "return" ELSE IF key = ThrowKey THEN "throw" ELSE ""
\* split continuation at the nearest genret frame: <<segment above, genret frame, rest below>>
RECURSIVE SplitAtGenRet(_, _)
SplitAtGenRet(kk, acc) == IF kk = <<>> THEN [found |-> FALSE, seg |-> acc, fr |-> [f |-> "none"], rest |-> <<>>]
                          ELSE IF Head(kk).f = "genret" THEN [found |-> TRUE, seg |-> acc, fr |-> Head(kk), rest |-> Tail(kk)]
                          ELSE SplitAtGenRet(Tail(kk), Append(acc, Head(kk)))

\* deep snapshot of a value for the observable trace (the heap keeps changing after the log)
RECURSIVE Snap(_, _, _)
Snap(h, v, d) ==
  IF v.t # "ref" THEN v
  ELSE LET o == h[v.a] IN
       IF o.k = "gen" THEN [t |-> "gen"]
       ELSE IF d = 0 THEN [t |-> "deep"]
       ELSE IF o.k = "arr" THEN [t |-> "arr", e |-> [i \in 1..Len(o.e) |-> Snap(h, o.e[i], d - 1)]]
       ELSE [t |-> "obj", ks |-> o.ks, vs |-> [i \in 1..Len(o.vs) |-> Snap(h, o.vs[i], d - 1)]]

\* ---------------- ghost features: which semantic situations did this step go through?
RelOps == {"<", ">", "<=", ">="}
LoopFrames == {"wtest", "wbody", "forofB", "forofN", "forI", "forT", "forB", "forU"}
\* frames of the current function activation only
RECURSIVE FnFrames(_)
FnFrames(kk) == IF kk = <<>> \/ Head(kk).f \in {"callret", "genret"} THEN <<>> ELSE <<Head(kk)>> \o FnFrames(Tail(kk))
\* a loop that sits inside a try that sits inside another loop (same function)
LoopInTryInLoop(rest) == LET fs == FnFrames(rest) IN
   \E i \in 1..Len(fs) : fs[i].f \in {"try", "catch"} /\ \E j \in (i + 1)..Len(fs) : fs[j].f \in LoopFrames
TdzShadow(name) ==
  LET e == FindEnv(heap, env, name) IN
  e # NoEnv /\ ~heap[e].vars[VarIdx(heap, e, name)].init /\ FindEnv(heap, heap[e].outer, name) # NoEnv
StepFeat ==
  IF ctl.m = "ret" /\ k # <<>> THEN
    LET f == Head(k)  c == ctl.c IN
    (IF f.f = "binR" /\ c.c = "normal" THEN
        LET op == Nd(f.n).op  pa == ToPrim(f.l)  pb == ToPrim(c.v) IN
          (IF op \in RelOps /\ (pa.t = "str" \/ pb.t = "str") THEN {"rel_str"} ELSE {})
          \cup (IF op \in RelOps /\ (~IsPrim(f.l) \/ ~IsPrim(c.v)) THEN {"rel_obj"} ELSE {})
          \cup (IF op \in {"==", "!="} /\ (IsPrim(f.l) # IsPrim(c.v)) THEN {"eq_obj_prim"} ELSE {})
          \cup (IF op \in {"+", "-", "*", "%"} /\ (~IsPrim(f.l) \/ ~IsPrim(c.v)) THEN {"arith_obj"} ELSE {})
     ELSE {})
    \cup (IF f.f = "assign" /\ c.c = "normal" /\ TdzShadow(Nd(f.n).name) THEN {"tdz_shadow"} ELSE {})
    \cup (IF f.f = "popenv" /\ c.c \in {"break", "continue"} THEN {"brk_scope"} ELSE {})
    \cup (IF f.f = "catch" /\ c.c = "normal" /\ Nd(f.n).c # 0 THEN {"tcf_catch_normal"} ELSE {})
    \cup (IF f.f \in {"try", "catch"} /\ c.c \in {"break", "continue", "return"} /\ Nd(f.n).c # 0 THEN {"fin_abrupt"} ELSE {})
    \cup (IF f.f = "fin" /\ c.c # "normal" THEN {"fin_override"} ELSE {})
    \cup (IF f.f = "fin" /\ c.c # "normal" /\ f.pend.c # "normal" THEN {"fin_override_pending"} ELSE {})
    \cup (IF f.f = "setmB" /\ c.c = "normal" /\ f.base.t \notin {"ref", "fun", "err", "undef", "null"} THEN {"set_on_prim"} ELSE {})
    \cup (IF f.f = "label" /\ c.c = "continue" THEN {"continue_thru_label"} ELSE {})
    \cup (IF f.f = "label" /\ c.c \in {"break", "continue"} /\ c.l = "" THEN {"unlabelled_thru_label"} ELSE {})
    \cup (IF f.f = "member" /\ c.c = "normal" /\ c.v.t \in {"str", "num", "nan", "inf", "nzero", "bool"} THEN
             (IF c.v.t = "str" /\ f.key = LengthKey THEN {}
              ELSE IF c.v.t = "str" /\ IdxOfKey(f.key) >= 0 THEN {"str_index_strkey"} ELSE {"prim_member"})
          ELSE {})
    \cup (IF f.f = "indexB" /\ c.c = "normal" /\ f.base.t \in {"str", "num", "nan", "inf", "nzero", "bool"} THEN
             (IF f.base.t = "str" /\ c.v.t = "num" /\ c.v.v >= 0 THEN {}
              ELSE IF f.base.t = "str" /\ c.v.t = "str" /\ c.v.s = LengthKey THEN {}
              ELSE IF f.base.t = "str" THEN {"str_index_odd"} ELSE {"prim_member"})
          ELSE {})
    \cup (IF f.f \in {"indexB", "setiB"} /\ c.c = "normal" /\ ~IsPrim(c.v) THEN {"key_nonprim"} ELSE {})
    \cup (IF f.f \in {"try", "catch"} /\ c.c \in {"break", "continue"} THEN {"brk_thru_try"} ELSE {})
    \cup (IF f.f \in LoopFrames /\ c.c \in {"break", "continue"} /\ LoopInTryInLoop(Tail(k)) THEN {"brk_loop_in_try_in_loop"} ELSE {})
    \cup (IF f.f \in LoopFrames /\ c.c \in {"break", "continue"} /\ (\E i \in 1..Len(FnFrames(Tail(k))) : FnFrames(Tail(k))[i].f = "catch")
           THEN {"brk_in_catch_body"} ELSE {})
    \cup (IF f.f \in LoopFrames /\ c.c \in {"break", "continue"} /\ (\E i \in 1..Len(FnFrames(Tail(k))) : FnFrames(Tail(k))[i].f = "fin")
           THEN {"brk_in_finally_body"} ELSE {})
    \cup (IF f.f = "apply" /\ c.c = "normal" /\ f.isnew /\ f.fv.t = "fun" /\ (heap[f.fv.a].gen \/ heap[f.fv.a].arrow) THEN {"new_nonconstructor"} ELSE {})
    \* suspension points (the VM state is saved and restored around every order)
    \cup (IF f.f = "order" /\ c.c = "normal" THEN
             (IF \E i \in 1..Len(k) : k[i].f = "fin" /\ k[i].pend.c # "normal" THEN {"suspend_pending_completion"} ELSE {})
             \cup (IF \E i \in 1..Len(k) : k[i].f = "catch" THEN {"suspend_in_catch"} ELSE {})
             \cup (IF \E i \in 1..Len(k) : k[i].f = "fin" THEN {"suspend_in_finally"} ELSE {})
             \cup (IF \E i \in 1..Len(k) : k[i].f \in {"forofB", "forofN"} THEN {"suspend_in_forof"} ELSE {})
             \cup (IF \E i \in 1..Len(k) : k[i].f = "callret" THEN {"suspend_in_call"} ELSE {})
             \cup (LET e == FindEnv(heap, env, "this") IN
                   IF e # NoEnv /\ heap[e].vars[VarIdx(heap, e, "this")].v.t # "undef" THEN {"suspend_with_this"} ELSE {})
             \cup (LET nth == Cardinality({ i \in 1..Len(out) : out[i].e = "order" }) + 1  rs == Progs[pi].resp IN
                   IF nth <= Len(rs) /\ rs[nth].k = "err" /\ (\E i \in 1..Len(k) : k[i].f = "callret") THEN {"suspend_err_in_call"} ELSE {})
          ELSE {})
    \cup (IF f.f = "mcallA" /\ c.c = "normal" /\ c.v.t \in {"str", "num", "nan", "inf", "nzero", "bool"} THEN {"prim_method"} ELSE {})
    \cup (IF f.f = "lasgM" /\ c.c = "normal" /\ c.v.t \in {"str", "num", "nan", "inf", "nzero", "bool"} /\ Short(Nd(f.n).op, GetProp(heap, c.v, Nd(f.n).key).v)
           THEN {"lassign_prim_short"} ELSE {})
    \cup (IF f.f \in {"wbody", "forofB", "forB"} /\ c.c \in {"break", "continue"} /\ c.l # "" THEN {"labelled_loop_exit"} ELSE {})
  ELSE IF ctl.m = "ev" THEN
    LET d == Nd(ctl.n) IN
    (IF d.ty = "try" /\ \E i \in 1..Len(k) : k[i].f = "fin" /\ k[i].pend.c # "normal" THEN {"fin_nested_try"} ELSE {})
    \* a reference that resolves to a binding still in its temporal dead zone while an enclosing scope has a binding of that name
    \cup (IF d.ty \in {"var", "typeofvar", "update", "lassignv", "cassignv"} /\ TdzShadow(d.name) THEN {"tdz_shadow"} ELSE {})
    \cup (IF d.ty = "classdecl" /\ d.parent # "" /\ TdzShadow(d.parent) THEN {"tdz_shadow"} ELSE {})
    \cup (IF d.ty = "this" /\ FindEnv(heap, env, "this") = NoEnv THEN {"toplevel_this"} ELSE {})
    \cup (IF d.ty = "this" /\ (\E i \in 1..Len(out) : out[i].e = "order") THEN {"this_after_suspend"} ELSE {})
    \cup
    (IF d.ty = "update" /\ FindEnv(heap, env, d.name) # NoEnv THEN
        LET b == heap[FindEnv(heap, env, d.name)].vars[VarIdx(heap, FindEnv(heap, env, d.name), d.name)] IN
        IF b.init /\ ~IsNumT(b.v) THEN {"upd_nonnum"} ELSE {}
     ELSE {})
  ELSE {}

\* ---------------- the machine
Init == /\ pi \in 1..Len(Progs)
        /\ heap = <<[k |-> "env", vars |-> <<>>, outer |-> NoEnv]>>
        /\ env = 1 /\ ctl = Ev(Progs[pi].root) /\ k = <<>> /\ out = <<>> /\ feat = {} /\ st = "run" /\ steps = 0

Push(f) == k' = <<f>> \o k
Same == UNCHANGED <<env, heap, out>>
Go(c) == ctl' = c

\* enter a statement list in a fresh block scope (blockenv=TRUE) or in the current scope
EnterList(n, xs, fresh, funcEnv) ==
  LET h0 == IF fresh THEN NewEnv(heap, env) ELSE heap
      e == IF fresh THEN Len(h0) ELSE env
      h1 == HoistLex(h0, e, xs)
  IN /\ heap' = h1 /\ env' = e
     /\ IF xs = <<>> THEN /\ ctl' = RetV(U) /\ k' = <<[f |-> "popenv", e |-> env]>> \o k
        ELSE /\ ctl' = Ev(xs[1]) /\ k' = <<[f |-> "list", xs |-> xs, i |-> 1], [f |-> "popenv", e |-> env]>> \o k
     /\ UNCHANGED out

ElemExpr(n) == IF Nd(n).ty = "spread" THEN Nd(n).a ELSE n       \* the expression to evaluate for an array-literal element
\* ---- destructuring declarations: the elements of an iterable source (arrays and strings are modelled), or "type" / "unmodelled"
IterElems(h, v) ==
  IF v.t = "ref" /\ h[v.a].k = "arr" THEN [r |-> "ok", es |-> h[v.a].e]
  ELSE IF v.t = "str" THEN [r |-> "ok", es |-> [i \in 1..Len(v.s) |-> S(<<v.s[i]>>)]]
  ELSE IF v.t = "ref" /\ h[v.a].k = "gen" THEN [r |-> "unmodelled", es |-> <<>>]
  ELSE [r |-> "type", es |-> <<>>]
\* the i-th target of pattern d from source base: arrays read position i, objects read the property key
PatValue(h, d, base, es, i) ==
  IF d.shape = "arr" THEN (IF i <= Len(es) THEN es[i] ELSE U) ELSE GetProp(h, base, d.keys[i]).v
\* the object collected by `...rest` of an object pattern: own properties whose key is not listed
RestObj(o, keys) == LET idx == SelectSeq([i \in 1..Len(o.ks) |-> i], LAMBDA i : \A j \in 1..Len(keys) : keys[j] # o.ks[i]) IN
   [k |-> "obj", ks |-> [i \in 1..Len(idx) |-> o.ks[idx[i]]], vs |-> [i \in 1..Len(idx) |-> o.vs[idx[i]]]]
\* bind target i (or the rest element when i = Len(names)+1 ...) - one step of the binding loop
DBind(n, base, es, i, rest) == LET d == Nd(n) IN
  IF i > Len(d.names) THEN Go(RetV(U)) /\ k' = rest /\ Same
  ELSE IF d.rest = 1 /\ i = Len(d.names) THEN
       \* the last name collects what is left
       (IF d.shape = "arr" THEN
            LET h1 == Append(heap, [k |-> "arr", e |-> IF i <= Len(es) THEN SubSeq(es, i, Len(es)) ELSE <<>>])
            IN heap' = SetBinding(h1, FindEnv(h1, env, d.names[i]), d.names[i], Ref(Len(h1))) /\ UNCHANGED <<env, out>> /\ Go(RetV(U)) /\ k' = rest
        ELSE IF base.t = "ref" /\ heap[base.a].k = "obj" THEN
            LET h1 == Append(heap, RestObj(heap[base.a], SubSeq(d.keys, 1, i - 1)))
            IN heap' = SetBinding(h1, FindEnv(h1, env, d.names[i]), d.names[i], Ref(Len(h1))) /\ UNCHANGED <<env, out>> /\ Go(RetV(U)) /\ k' = rest
        ELSE Go(Ret(Abrupt("unmodelled", U, ""))) /\ k' = rest /\ Same)
  ELSE LET v == PatValue(heap, d, base, es, i) IN
       IF v.t = "undef" /\ d.defs[i] # 0 THEN Go(Ev(d.defs[i])) /\ k' = <<[f |-> "ddD", n |-> n, base |-> base, es |-> es, i |-> i]>> \o rest /\ Same
       ELSE /\ heap' = SetBinding(heap, FindEnv(heap, env, d.names[i]), d.names[i], v) /\ UNCHANGED <<env, out>>
            /\ Go(RetV(U)) /\ k' = <<[f |-> "ddN", n |-> n, base |-> base, es |-> es, i |-> i + 1]>> \o rest
\* ---- classes.  A class is a function record with cls = TRUE: protoObj (the object instances inherit from; methods live there),
\* parent (address of the parent class or 0), instance fields (fkeys / finit), static members (ks / vs), hasctor.
\* Instances are ordinary objects with proto = newTarget.protoObj.  Field initialisers run when the instance exists:
\* at the start of a base constructor, right after super() returns in a derived one.
RECURSIVE AppendFuns(_, _, _, _)
AppendFuns(h, nodes, home, e) == IF nodes = <<>> THEN h
   ELSE LET d == Nd(nodes[1]) IN
        AppendFuns(Append(h, [k |-> "fun", params |-> d.params, defs |-> d.defs, body |-> d.body, env |-> e, name |-> d.name,
                              arrow |-> FALSE, gen |-> FALSE, cls |-> FALSE, home |-> home]), Tail(nodes), home, e)
EnvVal(name) == LET e == FindEnv(heap, env, name) IN heap[e].vars[VarIdx(heap, e, name)]
RECURSIVE BindParams(_, _, _, _, _)
BindParams(h, e, params, args, i) == IF i > Len(params) THEN h
   ELSE BindParams(Declare(h, e, params[i], IF i <= Len(args) THEN args[i] ELSE U, TRUE, TRUE), e, params, args, i + 1)
\* a label directly in front of a loop names the loop: break L and continue L are addressed to it
LblOf(kk) == IF kk # <<>> /\ Head(kk).f = "label" THEN Head(kk).l ELSE ""
\* ---- for (init; test; update) body.  With `let` in the head every iteration runs in a fresh copy of the loop
\* scope (CreatePerIterationEnvironment): closures made in one iteration keep that iteration's bindings
PerIter(n) == LET d == Nd(n) IN d.init # 0 /\ Nd(d.init).ty = "decl" /\ Nd(d.init).kind = "let"
CopyIter(h, cur, outer, name) == LET h0 == NewEnv(h, outer) IN Declare(h0, Len(h0), name, h[cur].vars[VarIdx(h, cur, name)].v, TRUE, TRUE)
ForGoTest(n, e, lbl, rest) == LET d == Nd(n) IN
   IF d.test = 0 THEN Go(Ev(d.body)) /\ k' = <<[f |-> "forB", n |-> n, e |-> e, lbl |-> lbl]>> \o rest
   ELSE Go(Ev(d.test)) /\ k' = <<[f |-> "forT", n |-> n, e |-> e, lbl |-> lbl]>> \o rest
ForAfterBody(f, rest) == LET d == Nd(f.n) IN
   /\ IF PerIter(f.n) THEN LET h1 == CopyIter(heap, env, f.e, Nd(d.init).name) IN heap' = h1 /\ env' = Len(h1) /\ UNCHANGED out ELSE Same
   /\ IF d.upd # 0 THEN Go(Ev(d.upd)) /\ k' = <<[f |-> "forU", n |-> f.n, e |-> f.e, lbl |-> f.lbl]>> \o rest ELSE ForGoTest(f.n, f.e, f.lbl, rest)
\* ---- switch: case tests are evaluated in order (default skipped) until one is === the discriminant; execution then
\* falls through the following clauses; the whole case block is one scope
NextCase(tests, i) == IF \E j \in i..Len(tests) : tests[j] # 0 THEN CHOOSE j \in i..Len(tests) : tests[j] # 0 /\ \A m \in i..(j - 1) : tests[m] = 0 ELSE 0
DefaultCase(tests) == IF \E j \in 1..Len(tests) : tests[j] = 0 THEN CHOOSE j \in 1..Len(tests) : tests[j] = 0 ELSE 0
SwRun(n, j, rest) == LET d == Nd(n) xs == IF j = 0 THEN <<>> ELSE FlatBodies(SubSeq(d.bodies, j, Len(d.bodies))) IN
   IF xs = <<>> THEN Go(RetV(U)) /\ k' = rest
   ELSE Go(Ev(xs[1])) /\ k' = <<[f |-> "list", xs |-> xs, i |-> 1], [f |-> "switch"]>> \o rest
SwNext(n, disc, i, rest) == LET d == Nd(n) j == NextCase(d.tests, i) IN
   IF j # 0 THEN Go(Ev(d.tests[j])) /\ k' = <<[f |-> "swT", n |-> n, disc |-> disc, i |-> j]>> \o rest
   ELSE SwRun(n, DefaultCase(d.tests), rest)

StepEv(n) == LET d == Nd(n) IN
  CASE d.ty = "num" -> Go(RetV(N(d.v))) /\ UNCHANGED k /\ Same
    [] d.ty = "str" -> Go(RetV(S(d.cs))) /\ UNCHANGED k /\ Same
    [] d.ty = "bool" -> Go(RetV(B(d.v = 1))) /\ UNCHANGED k /\ Same
    [] d.ty = "undef" -> Go(RetV(U)) /\ UNCHANGED k /\ Same
    [] d.ty = "null" -> Go(RetV(Nl)) /\ UNCHANGED k /\ Same
    [] d.ty = "nan" -> Go(RetV(NaN)) /\ UNCHANGED k /\ Same
    [] d.ty = "inf" -> Go(RetV(Inf(d.s))) /\ UNCHANGED k /\ Same
    [] d.ty = "var" ->
         LET e == FindEnv(heap, env, d.name) IN
         /\ IF e = NoEnv THEN Go(Ret(Throw(Err("ReferenceError"))))
            ELSE LET b == heap[e].vars[VarIdx(heap, e, d.name)] IN
                 IF ~b.init THEN Go(Ret(Throw(Err("ReferenceError")))) ELSE Go(RetV(b.v))
         /\ UNCHANGED k /\ Same
    [] d.ty = "typeofvar" ->   \* typeof x on an unresolvable reference is "undefined"
         LET e == FindEnv(heap, env, d.name) IN
         /\ IF e = NoEnv THEN Go(RetV(S(Lit("undefined"))))
            ELSE LET b == heap[e].vars[VarIdx(heap, e, d.name)] IN
                 IF ~b.init THEN Go(Ret(Throw(Err("ReferenceError")))) ELSE Go(RetV(S(TypeStr(TypeOf(b.v)))))
         /\ UNCHANGED k /\ Same
    [] d.ty = "assign" -> Go(Ev(d.a)) /\ Push([f |-> "assign", n |-> n]) /\ Same
    [] d.ty = "lassignv" ->      \* x ||= e, x &&= e, x ??= e : the right-hand side is evaluated (and assigned) only if the current value does not short-circuit
         LET e == FindEnv(heap, env, d.name) IN
         IF e = NoEnv THEN Go(Ret(Throw(Err("ReferenceError")))) /\ UNCHANGED k /\ Same
         ELSE LET b == heap[e].vars[VarIdx(heap, e, d.name)] IN
              IF ~b.init THEN Go(Ret(Throw(Err("ReferenceError")))) /\ UNCHANGED k /\ Same
              ELSE IF Short(d.op, b.v) THEN Go(RetV(b.v)) /\ UNCHANGED k /\ Same
              ELSE Go(Ev(d.a)) /\ Push([f |-> "assign", n |-> n]) /\ Same
    [] d.ty = "lassignm" -> Go(Ev(d.a)) /\ Push([f |-> "lasgM", n |-> n]) /\ Same      \* o.k ||= e ... : the base is evaluated once
    [] d.ty = "cassignv" ->      \* x op= e : the current value is read BEFORE the right-hand side runs, the assignment happens after
         LET e == FindEnv(heap, env, d.name) IN
         IF e = NoEnv THEN Go(Ret(Throw(Err("ReferenceError")))) /\ UNCHANGED k /\ Same
         ELSE LET b == heap[e].vars[VarIdx(heap, e, d.name)] IN
              IF ~b.init THEN Go(Ret(Throw(Err("ReferenceError")))) /\ UNCHANGED k /\ Same
              ELSE Go(Ev(d.a)) /\ Push([f |-> "casgV", n |-> n, l |-> b.v]) /\ Same
    [] d.ty = "cassignm" -> Go(Ev(d.a)) /\ Push([f |-> "casgM", n |-> n]) /\ Same      \* o.k op= e
    [] d.ty = "tmpl" -> IF d.xs = <<>> THEN Go(RetV(S(d.quasis[1]))) /\ UNCHANGED k /\ Same
                        ELSE Go(Ev(d.xs[1])) /\ Push([f |-> "tmpl", n |-> n, i |-> 1, acc |-> d.quasis[1]]) /\ Same
    [] d.ty = "ochain" -> Go(Ev(d.a)) /\ Push([f |-> "ochain", n |-> n, i |-> 0]) /\ Same   \* a?.[k1][k2]... : only the first link is optional
    [] d.ty = "spread" -> Go(Ret(Abrupt("unmodelled", U, ""))) /\ UNCHANGED k /\ Same     \* only meaningful inside an array literal (handled there)
    [] d.ty = "ddecl" -> Go(Ev(d.a)) /\ Push([f |-> "ddA", n |-> n]) /\ Same
    [] d.ty = "classdecl" ->
         \* ClassDefinitionEvaluation: the heritage must be a constructor; prototype object, class record and methods are created;
         \* static field initialisers run in order; finally the (so far uninitialised) class binding is initialised
         LET pe == IF d.parent = "" THEN NoEnv ELSE FindEnv(heap, env, d.parent) IN
         IF d.parent # "" /\ pe = NoEnv THEN Go(Ret(Throw(Err("ReferenceError")))) /\ UNCHANGED k /\ Same
         ELSE IF d.parent # "" /\ ~heap[pe].vars[VarIdx(heap, pe, d.parent)].init THEN Go(Ret(Throw(Err("ReferenceError")))) /\ UNCHANGED k /\ Same
         ELSE LET pv == IF d.parent = "" THEN U ELSE heap[pe].vars[VarIdx(heap, pe, d.parent)].v IN
              IF d.parent # "" /\ pv.t = "fun" /\ ~IsCls(heap, pv) /\ ~heap[pv.a].arrow /\ ~heap[pv.a].gen THEN Go(Ret(Abrupt("unmodelled", U, ""))) /\ UNCHANGED k /\ Same
              ELSE IF d.parent # "" /\ pv.t = "null" THEN Go(Ret(Abrupt("unmodelled", U, ""))) /\ UNCHANGED k /\ Same
              ELSE IF d.parent # "" /\ ~IsCls(heap, pv) THEN Go(Ret(Throw(Err("TypeError")))) /\ UNCHANGED k /\ Same
              ELSE LET par == IF d.parent = "" THEN 0 ELSE pv.a
                       L == Len(heap)  M == Len(d.mkeys)  SM == Len(d.smkeys)
                       \* accessors (get k() / set k(v)) live on the prototype as one property holding both halves declared in THIS class
                       AG == SelectSeq(d.agets, LAMBDA x : x # 0)  AS == SelectSeq(d.asets, LAMBDA x : x # 0)
                       GIdx(i) == Cardinality({j \in 1..i : d.agets[j] # 0})      \* position of getter i among the getters
                       SIdx(i) == Cardinality({j \in 1..i : d.asets[j] # 0})
                       accBase == L + 2 + M + SM
                       accVals == [i \in 1..Len(d.akeys) |-> [t |-> "acc", g |-> IF d.agets[i] # 0 THEN Fun(accBase + GIdx(i)) ELSE U,
                                                                           s |-> IF d.asets[i] # 0 THEN Fun(accBase + Len(AG) + SIdx(i)) ELSE U]]
                       protoA == L + 1  clsA == L + 2
                       h1 == Append(heap, [k |-> "obj", ks |-> d.mkeys \o d.akeys, vs |-> [i \in 1..M |-> Fun(L + 2 + i)] \o accVals, proto |-> IF par = 0 THEN 0 ELSE heap[par].protoObj])
                       h2 == Append(h1, [k |-> "fun", cls |-> TRUE, params |-> d.params, defs |-> d.defs, body |-> d.body, env |-> env, name |-> d.name,
                                         arrow |-> FALSE, gen |-> FALSE, home |-> 0, protoObj |-> protoA, parent |-> par, fkeys |-> d.fkeys, finit |-> d.finit,
                                         ks |-> d.smkeys, vs |-> [i \in 1..SM |-> Fun(L + 2 + M + i)], hasctor |-> (d.hasctor = 1)])
                       h3 == AppendFuns(AppendFuns(AppendFuns(AppendFuns(h2, d.mfuncs, protoA, env), d.smfuncs, clsA, env), AG, protoA, env), AS, protoA, env)
                   IN /\ heap' = h3 /\ UNCHANGED <<env, out>> /\ Go(RetV(U)) /\ Push([f |-> "clsS", n |-> n, c |-> clsA, i |-> 0])
    [] d.ty = "supercall" -> IF d.args = <<>> THEN Go(RetV(U)) /\ Push([f |-> "superGo", args |-> <<>>]) /\ Same
                             ELSE Go(Ev(d.args[1])) /\ Push([f |-> "superA", n |-> n, args |-> <<>>]) /\ Same
    [] d.ty = "supermcall" -> IF d.args = <<>> THEN Go(RetV(U)) /\ Push([f |-> "superM", key |-> d.key, args |-> <<>>]) /\ Same
                              ELSE Go(Ev(d.args[1])) /\ Push([f |-> "superMA", n |-> n, args |-> <<>>]) /\ Same
    [] d.ty = "bin" -> Go(Ev(d.a)) /\ Push([f |-> "binL", n |-> n]) /\ Same
    [] d.ty = "logical" -> Go(Ev(d.a)) /\ Push([f |-> "logical", n |-> n]) /\ Same
    [] d.ty = "unary" ->
         IF d.op = "typeof" /\ Nd(d.a).ty = "var" /\ FindEnv(heap, env, Nd(d.a).name) = NoEnv
         THEN Go(RetV(S(Lit("undefined")))) /\ UNCHANGED k /\ Same      \* typeof of an unresolvable reference
         ELSE Go(Ev(d.a)) /\ Push([f |-> "unary", n |-> n]) /\ Same
    [] d.ty = "update" ->
         LET e == FindEnv(heap, env, d.name) IN
         IF e = NoEnv THEN Go(Ret(Throw(Err("ReferenceError")))) /\ UNCHANGED k /\ Same
         ELSE LET b == heap[e].vars[VarIdx(heap, e, d.name)] IN
              IF ~b.init THEN Go(Ret(Throw(Err("ReferenceError")))) /\ UNCHANGED k /\ Same
              ELSE IF ~b.mut THEN Go(Ret(Throw(Err("TypeError")))) /\ UNCHANGED k /\ Same
              ELSE LET old == ToNumberP(ToPrim(b.v))
                       new == IF d.op = "++" THEN Add(old, N(1)) ELSE Sub(old, N(1)) IN
                   IF new.t = "big" THEN Go(Ret(Abrupt("unmodelled", U, ""))) /\ UNCHANGED k /\ Same
                   ELSE /\ heap' = SetBinding(heap, e, d.name, new)
                        /\ Go(RetV(IF d.prefix = 1 THEN new ELSE old)) /\ UNCHANGED <<k, env, out>>
    [] d.ty = "cond" -> Go(Ev(d.a)) /\ Push([f |-> "cond", n |-> n]) /\ Same
    [] d.ty = "func" ->
         /\ heap' = Append(heap, [k |-> "fun", params |-> d.params, defs |-> d.defs, body |-> d.body, env |-> env, name |-> d.name, arrow |-> (d.arrow = 1), gen |-> (d.gen = 1), cls |-> FALSE, home |-> 0])
         /\ Go(RetV(Fun(Len(heap) + 1))) /\ UNCHANGED <<k, env, out>>
    [] d.ty \in {"call", "new"} -> Go(Ev(d.f)) /\ Push([f |-> "callF", n |-> n]) /\ Same
    [] d.ty = "order" -> Go(Ev(d.a)) /\ Push([f |-> "order"]) /\ Same
    [] d.ty = "yield" -> IF d.a = 0 THEN Go(RetV(U)) /\ Push([f |-> "yield"]) /\ Same ELSE Go(Ev(d.a)) /\ Push([f |-> "yield"]) /\ Same
    [] d.ty = "arrlit" -> IF d.xs = <<>> THEN /\ heap' = Append(heap, [k |-> "arr", e |-> <<>>]) /\ Go(RetV(Ref(Len(heap) + 1))) /\ UNCHANGED <<k, env, out>>
                          ELSE Go(Ev(ElemExpr(d.xs[1]))) /\ Push([f |-> "arrlit", xs |-> d.xs, acc |-> <<>>, i |-> 1]) /\ Same
    [] d.ty = "objlit" -> IF d.vals = <<>> THEN /\ heap' = Append(heap, [k |-> "obj", ks |-> <<>>, vs |-> <<>>]) /\ Go(RetV(Ref(Len(heap) + 1))) /\ UNCHANGED <<k, env, out>>
                          ELSE Go(Ev(d.vals[1])) /\ Push([f |-> "objlit", n |-> n, acc |-> <<>>]) /\ Same
    [] d.ty = "member" -> Go(Ev(d.a)) /\ Push([f |-> "member", key |-> d.key]) /\ Same
    [] d.ty = "index" -> Go(Ev(d.a)) /\ Push([f |-> "indexA", n |-> n]) /\ Same
    [] d.ty = "setmember" -> Go(Ev(d.a)) /\ Push([f |-> "setmA", n |-> n]) /\ Same
    [] d.ty = "setindex" -> Go(Ev(d.a)) /\ Push([f |-> "setiA", n |-> n]) /\ Same
    [] d.ty = "mcall" -> Go(Ev(d.a)) /\ Push([f |-> "mcallA", n |-> n]) /\ Same
    [] d.ty = "this" ->
         LET e == FindEnv(heap, env, "this") IN
         Go(IF e = NoEnv THEN RetV(U)
            ELSE IF ~heap[e].vars[VarIdx(heap, e, "this")].init THEN Ret(Throw(Err("ReferenceError")))      \* derived constructor before super()
            ELSE RetV(heap[e].vars[VarIdx(heap, e, "this")].v)) /\ UNCHANGED k /\ Same
    [] d.ty = "forof" ->
         \* ForIn/OfHeadEvaluation: with a let/const binding the iterable is evaluated in a scope where the name is in its dead zone
         IF d.kind = "var" THEN Go(Ev(d.a)) /\ Push([f |-> "forofA", n |-> n, e |-> env, lbl |-> LblOf(k)]) /\ Same
         ELSE LET h0 == NewEnv(heap, env) e == Len(h0) IN
              /\ heap' = Declare(h0, e, d.name, U, FALSE, TRUE) /\ env' = e /\ UNCHANGED out
              /\ Go(Ev(d.a)) /\ Push([f |-> "forofA", n |-> n, e |-> env, lbl |-> LblOf(k)])
    [] d.ty = "seq" -> Go(Ev(d.xs[1])) /\ Push([f |-> "seq", xs |-> d.xs, i |-> 1]) /\ Same
    \* ----- statements
    [] d.ty = "exprstmt" -> Go(Ev(d.a)) /\ Push([f |-> "discard"]) /\ Same
    [] d.ty = "log" -> Go(Ev(d.a)) /\ Push([f |-> "log"]) /\ Same
    [] d.ty = "decl" -> IF d.a = 0 THEN
                           (IF d.kind = "var" THEN Go(RetV(U)) /\ UNCHANGED k /\ Same
                            ELSE /\ heap' = SetBinding(heap, FindEnv(heap, env, d.name), d.name, U) /\ Go(RetV(U)) /\ UNCHANGED <<k, env, out>>)
                        ELSE Go(Ev(d.a)) /\ Push([f |-> "decl", n |-> n]) /\ Same
    [] d.ty = "funcdecl" -> Go(RetV(U)) /\ UNCHANGED k /\ Same       \* hoisted at block entry
    [] d.ty = "block" -> EnterList(n, d.xs, TRUE, NoEnv)
    [] d.ty = "program" ->
         LET h1 == HoistVars(heap, env, VarNamesList(d.xs))
             h2 == HoistLex(h1, env, d.xs) IN
         /\ heap' = h2 /\ UNCHANGED <<env, out>>
         /\ IF d.xs = <<>> THEN Go(RetV(U)) /\ UNCHANGED k
            ELSE Go(Ev(d.xs[1])) /\ Push([f |-> "list", xs |-> d.xs, i |-> 1])
    [] d.ty = "if" -> Go(Ev(d.a)) /\ Push([f |-> "if", n |-> n]) /\ Same
    [] d.ty = "while" -> Go(Ev(d.a)) /\ Push([f |-> "wtest", n |-> n, lbl |-> LblOf(k)]) /\ Same
    [] d.ty = "dowhile" -> Go(Ev(d.b)) /\ Push([f |-> "wbody", n |-> n, lbl |-> LblOf(k)]) /\ Same
    [] d.ty = "for" ->
         IF d.init = 0 THEN ForGoTest(n, env, LblOf(k), k) /\ Same
         ELSE IF PerIter(n) THEN      \* the head's let binding lives in a scope of its own; it is in its dead zone while the initialiser runs
              LET h0 == NewEnv(heap, env) e == Len(h0) IN
              /\ heap' = Declare(h0, e, Nd(d.init).name, U, FALSE, TRUE) /\ env' = e /\ UNCHANGED out
              /\ Go(Ev(d.init)) /\ Push([f |-> "forI", n |-> n, e |-> env, lbl |-> LblOf(k)])
         ELSE Go(Ev(d.init)) /\ Push([f |-> "forI", n |-> n, e |-> env, lbl |-> LblOf(k)]) /\ Same
    [] d.ty = "switch" -> Go(Ev(d.a)) /\ Push([f |-> "swD", n |-> n]) /\ Same
    [] d.ty = "break" -> Go(Ret(Abrupt("break", U, d.label))) /\ UNCHANGED k /\ Same
    [] d.ty = "continue" -> Go(Ret(Abrupt("continue", U, d.label))) /\ UNCHANGED k /\ Same
    [] d.ty = "return" -> IF d.a = 0 THEN Go(Ret(Abrupt("return", U, ""))) /\ UNCHANGED k /\ Same
                          ELSE Go(Ev(d.a)) /\ Push([f |-> "return"]) /\ Same
    [] d.ty = "throw" -> Go(Ev(d.a)) /\ Push([f |-> "throw"]) /\ Same
    [] d.ty = "try" -> Go(Ev(d.a)) /\ Push([f |-> "try", n |-> n, e |-> env]) /\ Same
    [] d.ty = "labeled" -> Go(Ev(d.body)) /\ Push([f |-> "label", l |-> d.label]) /\ Same

\* a loop frame absorbs break/continue addressed to it (unlabelled, or labelled with its own label)
RECURSIVE NeedDefault(_, _, _)
NeedDefault(fn, args, i) == IF i > Len(fn.params) THEN 0
                            ELSE IF fn.defs[i] # 0 /\ (i > Len(args) \/ args[i].t = "undef") THEN i ELSE NeedDefault(fn, args, i + 1)
\* enter a function body: hoist its declarations into the function scope e, run the statement list, return to callerEnv
EnterBody(h, e, body, callerEnv, nw, rest) ==
  /\ heap' = HoistLex(HoistVars(h, e, VarNamesList(body.xs)), e, body.xs) /\ env' = e /\ UNCHANGED out
  /\ IF body.xs = <<>> THEN Go(RetV(U)) /\ k' = <<[f |-> "callret", e |-> callerEnv, nw |-> nw]>> \o rest
     ELSE Go(Ev(body.xs[1])) /\ k' = <<[f |-> "list", xs |-> body.xs, i |-> 1], [f |-> "callret", e |-> callerEnv, nw |-> nw]>> \o rest
Mine(f, c) == c.l = "" \/ c.l = f.lbl
\* [[Construct]] of class C with new.target nt
ConstructCls(C, args, nt, rest) == LET cls == heap[C] IN
  IF cls.parent = 0 THEN
     LET hN == Append(heap, [k |-> "obj", ks |-> <<>>, vs |-> <<>>, proto |-> heap[nt].protoObj])
         obj == Ref(Len(hN))
         h0 == NewEnv(hN, cls.env)  e == Len(h0)
         h1 == BindParams(h0, e, IF cls.hasctor THEN cls.params ELSE <<>>, args, 1)
         h2 == Declare(Declare(Declare(h1, e, "this", obj, TRUE, FALSE), e, "%cls", Fun(C), TRUE, FALSE), e, "%nt", Fun(nt), TRUE, FALSE)
     IN /\ heap' = h2 /\ env' = e /\ UNCHANGED out /\ Go(RetV(U))
        /\ k' = <<[f |-> "clsF", c |-> C, i |-> 0, after |-> "body", cenv |-> env, nw |-> obj]>> \o rest
  ELSE
     LET h0 == NewEnv(heap, cls.env)  e == Len(h0)
         h1 == BindParams(h0, e, IF cls.hasctor THEN cls.params ELSE <<>>, args, 1)
         h2 == Declare(Declare(Declare(h1, e, "this", U, FALSE, FALSE), e, "%cls", Fun(C), TRUE, FALSE), e, "%nt", Fun(nt), TRUE, FALSE)
     IN IF cls.hasctor THEN EnterBody(h2, e, Nd(cls.body), env, [t |-> "derived"], rest)
        ELSE \* implicit constructor(...args) { super(...args); }
             /\ heap' = h2 /\ env' = e /\ UNCHANGED out /\ Go(RetV(U))
             /\ k' = <<[f |-> "apply", fv |-> Fun(cls.parent), args |-> args, thisv |-> U, isnew |-> TRUE, nt |-> nt],
                       [f |-> "superR", c |-> C], [f |-> "callret", e |-> env, nw |-> [t |-> "derived"]]>> \o rest


StepRet == LET c == ctl.c IN
  IF k = <<>> THEN
     /\ st' = "done"
     /\ out' = Append(out, IF c.c = "throw" THEN [e |-> "error", v |-> Snap(heap, c.v, 3)] ELSE IF c.c = "unmodelled" THEN [e |-> "unmodelled", v |-> U] ELSE [e |-> "complete", v |-> c.v])
     /\ UNCHANGED <<ctl, k, env, heap>>
  ELSE LET f == Head(k) rest == Tail(k) IN
   /\ UNCHANGED st
   /\ IF f.f = "popenv" THEN env' = f.e /\ k' = rest /\ Go(ctl) /\ UNCHANGED <<heap, out>>
      ELSE IF f.f = "genret" THEN    \* generator body finished (normally, by return, or by throw)
           /\ env' = f.e /\ k' = rest /\ UNCHANGED out
           /\ IF c.c = "throw" THEN heap' = [heap EXCEPT ![f.g].st = "done"] /\ Go(Ret(c))
              ELSE IF c.c = "unmodelled" THEN heap' = heap /\ Go(Ret(c))
              ELSE LET h1 == [heap EXCEPT ![f.g].st = "done"]
                       h2 == IterRes(h1, IF c.c = "return" THEN c.v ELSE U, TRUE) IN
                   heap' = h2 /\ Go(RetV(Ref(Len(h2))))
      ELSE IF f.f = "callret" THEN    \* function boundary
           /\ env' = f.e /\ k' = rest /\ UNCHANGED <<heap, out>>
           /\ Go(IF c.c \in {"throw", "unmodelled"} THEN Ret(c)
                 ELSE IF f.nw.t = "derived" THEN      \* derived class constructor: the result is the returned object, else the initialised `this`
                      (IF c.c = "return" /\ c.v.t \in {"ref", "fun", "err"} THEN RetV(c.v)
                       ELSE IF c.c = "return" /\ c.v.t # "undef" THEN Ret(Throw(Err("TypeError")))
                       ELSE LET e == FindEnv(heap, env, "this") b == heap[e].vars[VarIdx(heap, e, "this")] IN
                            IF b.init THEN RetV(b.v) ELSE Ret(Throw(Err("ReferenceError"))))
                 ELSE IF f.nw.t = "ref" THEN (IF c.c = "return" /\ c.v.t \in {"ref", "fun", "err"} THEN RetV(c.v) ELSE RetV(f.nw))
                 ELSE IF c.c = "return" THEN RetV(c.v) ELSE RetV(U))
      ELSE IF c.c = "unmodelled" THEN Go(ctl) /\ k' = rest /\ Same    \* outside the model: no handler and no finally block may turn it into something judged
      ELSE IF c.c # "normal" THEN
        \* abrupt completion travelling outwards
        CASE f.f \in {"wtest", "wbody"} /\ c.c = "break" /\ Mine(f, c) -> Go(RetV(U)) /\ k' = rest /\ Same
          [] f.f = "wbody" /\ c.c = "continue" /\ Mine(f, c) ->
               LET d == Nd(f.n) IN Go(Ev(d.a)) /\ k' = <<[f |-> "wtest", n |-> f.n, lbl |-> f.lbl]>> \o rest /\ Same
          [] f.f = "label" /\ c.c = "break" /\ c.l = f.l -> Go(RetV(U)) /\ k' = rest /\ Same
          [] f.f = "forB" /\ c.c = "break" /\ Mine(f, c) -> Go(RetV(U)) /\ k' = rest /\ env' = f.e /\ UNCHANGED <<heap, out>>
          [] f.f = "forB" /\ c.c = "continue" /\ Mine(f, c) -> ForAfterBody(f, rest)
          [] f.f = "switch" /\ c.c = "break" /\ c.l = "" -> Go(RetV(U)) /\ k' = rest /\ Same
          [] f.f = "forofB" /\ c.c = "break" /\ Mine(f, c) -> Go(RetV(U)) /\ k' = rest /\ Same
          [] f.f = "forofB" /\ c.c = "continue" /\ Mine(f, c) -> Go(RetV(U)) /\ k' = <<[f EXCEPT !.f = "forofN"]>> \o rest /\ Same
          [] f.f = "try" ->
               LET d == Nd(f.n) IN
               IF c.c = "throw" /\ d.b # 0 THEN
                  \* enter catch: fresh scope binding the parameter
                  LET h0 == NewEnv(heap, f.e) e == Len(h0)
                      h1 == IF d.cname # "" THEN Declare(h0, e, d.cname, c.v, TRUE, TRUE) ELSE h0 IN
                  /\ heap' = h1 /\ env' = e /\ Go(Ev(d.b))
                  /\ k' = <<[f |-> "popenv", e |-> f.e], [f |-> "catch", n |-> f.n, e |-> f.e]>> \o rest /\ UNCHANGED out
               ELSE IF d.c # 0 THEN env' = f.e /\ Go(Ev(d.c)) /\ k' = <<[f |-> "fin", pend |-> c]>> \o rest /\ UNCHANGED <<heap, out>>
               ELSE Go(ctl) /\ k' = rest /\ Same
          [] f.f = "catch" ->
               LET d == Nd(f.n) IN
               IF d.c # 0 THEN env' = f.e /\ Go(Ev(d.c)) /\ k' = <<[f |-> "fin", pend |-> c]>> \o rest /\ UNCHANGED <<heap, out>>
               ELSE Go(ctl) /\ k' = rest /\ Same
          [] OTHER -> Go(ctl) /\ k' = rest /\ Same     \* every other frame is discarded
      ELSE LET v == c.v IN
        CASE f.f = "assign" ->
               LET name == Nd(f.n).name e == FindEnv(heap, env, name) IN
               IF e = NoEnv THEN Go(Ret(Throw(Err("ReferenceError")))) /\ k' = rest /\ Same
               ELSE LET b == heap[e].vars[VarIdx(heap, e, name)] IN
                    IF ~b.init THEN Go(Ret(Throw(Err("ReferenceError")))) /\ k' = rest /\ Same
                    ELSE IF ~b.mut THEN Go(Ret(Throw(Err("TypeError")))) /\ k' = rest /\ Same
                    ELSE heap' = SetBinding(heap, e, name, v) /\ Go(RetV(v)) /\ k' = rest /\ UNCHANGED <<env, out>>
          [] f.f = "binL" -> Go(Ev(Nd(f.n).b)) /\ k' = <<[f |-> "binR", n |-> f.n, l |-> v]>> \o rest /\ Same
          [] f.f = "binR" /\ Nd(f.n).op = "in" ->
               \* RelationalExpression in ShiftExpression: the right operand must be an object, the left one is ToPropertyKey'ed
               IF v.t \in {"fun", "err"} \/ f.l.t \in {"fun", "err"} THEN Go(Ret(Abrupt("unmodelled", U, ""))) /\ k' = rest /\ Same
               ELSE IF v.t # "ref" THEN Go(Ret(Throw(Err("TypeError")))) /\ k' = rest /\ Same
               ELSE IF ToPrim(f.l).t = "big" THEN Go(Ret(Abrupt("unmodelled", U, ""))) /\ k' = rest /\ Same
               ELSE LET r == HasProp(heap, v, KeyOf(heap, f.l)) IN
                    Go(IF r = "unmodelled" THEN Ret(Abrupt("unmodelled", U, "")) ELSE RetV(B(r = "t"))) /\ k' = rest /\ Same
          [] f.f = "binR" /\ Nd(f.n).op = "instanceof" ->
               \* OrdinaryHasInstance: the right operand must be callable; only classes are modelled as right operands
               IF v.t # "fun" THEN Go(Ret(Throw(Err("TypeError")))) /\ k' = rest /\ Same
               ELSE IF ~IsCls(heap, v) THEN Go(Ret(Abrupt("unmodelled", U, ""))) /\ k' = rest /\ Same
               ELSE Go(RetV(B(f.l.t = "ref" /\ ProtoChainHas(heap, f.l.a, heap[v.a].protoObj)))) /\ k' = rest /\ Same
          [] f.f = "binR" /\ Nd(f.n).op \notin {"in", "instanceof"} -> LET r == BinX(Nd(f.n).op, f.l, v) IN
                             Go(IF r.t = "big" THEN Ret(Abrupt("unmodelled", U, "")) ELSE RetV(r)) /\ k' = rest /\ Same
          [] f.f = "logical" ->
               LET op == Nd(f.n).op
                   short == CASE op = "&&" -> ~ToBoolean(v) [] op = "||" -> ToBoolean(v) [] op = "??" -> v.t \notin {"undef", "null"} IN
               IF short THEN Go(RetV(v)) /\ k' = rest /\ Same ELSE Go(Ev(Nd(f.n).b)) /\ k' = rest /\ Same
          [] f.f = "unary" -> LET r == Un(Nd(f.n).op, v) IN
                              Go(IF r.t = "big" THEN Ret(Abrupt("unmodelled", U, "")) ELSE RetV(r)) /\ k' = rest /\ Same
          [] f.f = "cond" -> Go(Ev(IF ToBoolean(v) THEN Nd(f.n).b ELSE Nd(f.n).c)) /\ k' = rest /\ Same
          [] f.f = "seq" -> IF f.i = Len(f.xs) THEN Go(RetV(v)) /\ k' = rest /\ Same
                            ELSE Go(Ev(f.xs[f.i + 1])) /\ k' = <<[f EXCEPT !.i = f.i + 1]>> \o rest /\ Same
          [] f.f = "discard" -> Go(RetV(U)) /\ k' = rest /\ Same
          [] f.f = "log" -> out' = Append(out, [e |-> "log", v |-> Snap(heap, v, 3)]) /\ Go(RetV(U)) /\ k' = rest /\ UNCHANGED <<env, heap>>
          [] f.f = "order" ->
               LET nth == Cardinality({ i \in 1..Len(out) : out[i].e = "order" }) + 1
                   rs == Progs[pi].resp
                   r == IF nth <= Len(rs) THEN rs[nth] ELSE [k |-> "val", v |-> 0] IN
               /\ out' = Append(out, [e |-> "order", v |-> Snap(heap, v, 3)])
               /\ Go(IF r.k = "err" THEN Ret(Throw(S(<<84,121,112,101,69,114,114,111,114,58,32,98,111,111,109>>))) ELSE RetV(N(r.v)))
               /\ k' = rest /\ UNCHANGED <<env, heap>>
          [] f.f = "arrlit" ->
               \* element f.i has been evaluated; a spread element contributes every element of its (iterable) operand
               LET sp == Nd(f.xs[f.i]).ty = "spread"
                   it == IF sp THEN IterElems(heap, v) ELSE [r |-> "ok", es |-> <<v>>]
                   acc == f.acc \o it.es IN
               IF it.r = "type" THEN Go(Ret(Throw(Err("TypeError")))) /\ k' = rest /\ Same
               ELSE IF it.r = "unmodelled" THEN Go(Ret(Abrupt("unmodelled", U, ""))) /\ k' = rest /\ Same
               ELSE IF f.i = Len(f.xs) THEN /\ heap' = Append(heap, [k |-> "arr", e |-> acc]) /\ Go(RetV(Ref(Len(heap) + 1))) /\ k' = rest /\ UNCHANGED <<env, out>>
               ELSE Go(Ev(ElemExpr(f.xs[f.i + 1]))) /\ k' = <<[f EXCEPT !.acc = acc, !.i = f.i + 1]>> \o rest /\ Same
          [] f.f = "objlit" ->
               LET d == Nd(f.n) acc == Append(f.acc, v) IN
               IF Len(acc) = Len(d.vals) THEN
                    \* duplicate keys: last value wins, position of first occurrence
                    LET RECURSIVE Build(_, _, _)
                        Build(i, ks, vs) == IF i > Len(acc) THEN [ks |-> ks, vs |-> vs]
                                            ELSE LET j == IF \E q \in 1..Len(ks) : ks[q] = d.keys[i] THEN CHOOSE q \in 1..Len(ks) : ks[q] = d.keys[i] ELSE 0 IN
                                                 IF j > 0 THEN Build(i + 1, ks, [vs EXCEPT ![j] = acc[i]]) ELSE Build(i + 1, Append(ks, d.keys[i]), Append(vs, acc[i]))
                        o == Build(1, <<>>, <<>>) IN
                    /\ heap' = Append(heap, [k |-> "obj", ks |-> o.ks, vs |-> o.vs]) /\ Go(RetV(Ref(Len(heap) + 1))) /\ k' = rest /\ UNCHANGED <<env, out>>
               ELSE Go(Ev(d.vals[Len(acc) + 1])) /\ k' = <<[f EXCEPT !.acc = acc]>> \o rest /\ Same
          [] f.f = "member" ->
               LET g == GetProp(heap, v, f.key) IN
               IF ~IsCls(heap, v) /\ v.t \notin {"fun", "err"} /\ g.ok /\ g.v.t = "acc" THEN
                    \* an accessor property: [[Get]] calls the getter with the receiver as this (undefined without a getter)
                    (IF g.v.g.t = "undef" THEN Go(RetV(U)) /\ k' = rest /\ Same
                     ELSE Go(RetV(U)) /\ k' = <<[f |-> "apply", fv |-> g.v.g, args |-> <<>>, thisv |-> v, isnew |-> FALSE]>> \o rest /\ Same)
               ELSE
               Go(IF IsCls(heap, v) /\ f.key # LengthKey THEN RetV(ClsGet(heap, v.a, f.key))
                  ELSE IF v.t \in {"fun", "err"} THEN Ret(Abrupt("unmodelled", U, "")) ELSE IF g.ok THEN RetV(g.v) ELSE Ret(Throw(Err("TypeError")))) /\ k' = rest /\ Same
          [] f.f = "indexA" -> Go(Ev(Nd(f.n).b)) /\ k' = <<[f |-> "indexB", base |-> v]>> \o rest /\ Same
          [] f.f = "indexB" ->
               \* base null/undefined throws before ToPropertyKey
               IF f.base.t \in {"undef", "null"} THEN Go(Ret(Throw(Err("TypeError")))) /\ k' = rest /\ Same
               ELSE IF f.base.t \in {"fun", "err"} \/ v.t \in {"fun", "err"} \/ ToPrim(v).t = "big" THEN Go(Ret(Abrupt("unmodelled", U, ""))) /\ k' = rest /\ Same
               ELSE LET g == GetProp(heap, f.base, KeyOf(heap, v)) IN Go(RetV(g.v)) /\ k' = rest /\ Same
          [] f.f = "clsS" ->       \* static field f.i has been evaluated (v); go on with the next one, finally initialise the class binding
               LET d == Nd(f.n)
                   h1 == IF f.i = 0 THEN heap
                         ELSE LET o == heap[f.c] j == ObjFind(o, d.skeys[f.i]) IN
                              IF j > 0 THEN [heap EXCEPT ![f.c].vs[j] = v] ELSE [heap EXCEPT ![f.c].ks = Append(@, d.skeys[f.i]), ![f.c].vs = Append(o.vs, v)]
               IN IF f.i = Len(d.skeys) THEN heap' = SetBinding(h1, FindEnv(h1, env, d.name), d.name, Fun(f.c)) /\ UNCHANGED <<env, out>> /\ Go(RetV(U)) /\ k' = rest
                  ELSE heap' = h1 /\ UNCHANGED <<env, out>> /\ Go(Ev(d.sinit[f.i + 1])) /\ k' = <<[f EXCEPT !.i = f.i + 1]>> \o rest
          [] f.f = "clsF" ->       \* instance field f.i has been evaluated (v): define it on `this`, go on; afterwards the constructor body or back to super()
               LET cls == heap[f.c]
                   tv == EnvVal("this").v
                   r == IF f.i = 0 THEN [r |-> "ok", h |-> heap] ELSE SetProp(heap, tv, cls.fkeys[f.i], v)
               IN IF r.r # "ok" THEN Go(Ret(Abrupt("unmodelled", U, ""))) /\ k' = rest /\ Same
                  ELSE IF f.i < Len(cls.fkeys) THEN
                       /\ heap' = r.h /\ UNCHANGED <<env, out>>
                       /\ (IF cls.finit[f.i + 1] = 0 THEN Go(RetV(U)) ELSE Go(Ev(cls.finit[f.i + 1]))) /\ k' = <<[f EXCEPT !.i = f.i + 1]>> \o rest
                  ELSE IF f.after = "super" THEN heap' = r.h /\ UNCHANGED <<env, out>> /\ Go(RetV(tv)) /\ k' = rest
                  ELSE IF cls.hasctor THEN EnterBody(r.h, env, Nd(cls.body), f.cenv, f.nw, rest)
                  ELSE heap' = r.h /\ UNCHANGED <<env, out>> /\ Go(RetV(U)) /\ k' = <<[f |-> "callret", e |-> f.cenv, nw |-> f.nw]>> \o rest
          [] f.f = "superA" ->
               LET d == Nd(f.n) as == Append(f.args, v) IN
               IF Len(as) = Len(d.args) THEN Go(RetV(U)) /\ k' = <<[f |-> "superGo", args |-> as]>> \o rest /\ Same
               ELSE Go(Ev(d.args[Len(as) + 1])) /\ k' = <<[f EXCEPT !.args = as]>> \o rest /\ Same
          [] f.f = "superGo" ->    \* super(args): construct the parent with the current new.target
               IF FindEnv(heap, env, "%cls") = NoEnv THEN Go(Ret(Abrupt("unmodelled", U, ""))) /\ k' = rest /\ Same
               ELSE LET C == EnvVal("%cls").v.a nt == EnvVal("%nt").v.a IN
                    IF heap[C].parent = 0 THEN Go(Ret(Abrupt("unmodelled", U, ""))) /\ k' = rest /\ Same
                    ELSE Go(RetV(U)) /\ Same
                         /\ k' = <<[f |-> "apply", fv |-> Fun(heap[C].parent), args |-> f.args, thisv |-> U, isnew |-> TRUE, nt |-> nt], [f |-> "superR", c |-> C]>> \o rest
          [] f.f = "superR" ->     \* the parent constructor returned the instance: bind `this` (once), then this class's field initialisers
               LET e == FindEnv(heap, env, "this") IN
               IF heap[e].vars[VarIdx(heap, e, "this")].init THEN Go(Ret(Throw(Err("ReferenceError")))) /\ k' = rest /\ Same
               ELSE /\ heap' = SetBinding(heap, e, "this", v) /\ UNCHANGED <<env, out>> /\ Go(RetV(U))
                    /\ k' = <<[f |-> "clsF", c |-> f.c, i |-> 0, after |-> "super", cenv |-> NoEnv, nw |-> U]>> \o rest
          [] f.f = "superMA" ->
               LET d == Nd(f.n) as == Append(f.args, v) IN
               IF Len(as) = Len(d.args) THEN Go(RetV(U)) /\ k' = <<[f |-> "superM", key |-> d.key, args |-> as]>> \o rest /\ Same
               ELSE Go(Ev(d.args[Len(as) + 1])) /\ k' = <<[f EXCEPT !.args = as]>> \o rest /\ Same
          [] f.f = "superM" ->     \* super.m(args): the method is looked up from the prototype of the home object, this stays the same
               IF FindEnv(heap, env, "%home") = NoEnv THEN Go(Ret(Abrupt("unmodelled", U, ""))) /\ k' = rest /\ Same
               ELSE LET home == EnvVal("%home").v.v
                        start == ProtoOf(heap[home])
                        g == IF start = 0 THEN U ELSE ObjGet(heap, start, f.key).v IN
                    Go(RetV(U)) /\ k' = <<[f |-> "apply", fv |-> g, args |-> f.args, thisv |-> EnvVal("this").v, isnew |-> FALSE]>> \o rest /\ Same
          [] f.f = "casgV" -> LET r == BinX(Nd(f.n).op, f.l, v) IN
               IF r.t = "big" THEN Go(Ret(Abrupt("unmodelled", U, ""))) /\ k' = rest /\ Same
               ELSE Go(RetV(r)) /\ k' = <<[f |-> "assign", n |-> f.n]>> \o rest /\ Same
          [] f.f = "casgM" ->
               LET d == Nd(f.n) IN
               IF v.t \in {"undef", "null"} THEN Go(Ret(Throw(Err("TypeError")))) /\ k' = rest /\ Same
               ELSE IF v.t \in {"fun", "err"} \/ (v.t = "ref" /\ heap[v.a].k = "gen") THEN Go(Ret(Abrupt("unmodelled", U, ""))) /\ k' = rest /\ Same
               ELSE Go(Ev(d.c)) /\ k' = <<[f |-> "casgM2", n |-> f.n, base |-> v, cur |-> GetProp(heap, v, d.key).v]>> \o rest /\ Same
          [] f.f = "casgM2" -> LET r == BinX(Nd(f.n).op, f.cur, v) IN
               IF r.t = "big" THEN Go(Ret(Abrupt("unmodelled", U, ""))) /\ k' = rest /\ Same
               ELSE Go(RetV(r)) /\ k' = <<[f |-> "setmB", base |-> f.base, key |-> Nd(f.n).key]>> \o rest /\ Same
          [] f.f = "tmpl" ->
               \* ToString of the substitution (objects through ToPrimitive); the text of functions and errors is engine-specific
               LET d == Nd(f.n) p == ToPrim(v) IN
               IF v.t \in {"fun", "err"} \/ p.t = "big" THEN Go(Ret(Abrupt("unmodelled", U, ""))) /\ k' = rest /\ Same
               ELSE LET acc == f.acc \o ToStringP(p) \o d.quasis[f.i + 1] IN
                    IF f.i = Len(d.xs) THEN Go(RetV(S(acc))) /\ k' = rest /\ Same
                    ELSE Go(Ev(d.xs[f.i + 1])) /\ k' = <<[f EXCEPT !.i = f.i + 1, !.acc = acc]>> \o rest /\ Same
          [] f.f = "ochain" ->
               LET d == Nd(f.n) IN
               IF f.i = 0 /\ v.t \in {"undef", "null"} THEN Go(RetV(U)) /\ k' = rest /\ Same       \* the whole chain short-circuits
               ELSE IF v.t \in {"fun", "err"} THEN Go(Ret(Abrupt("unmodelled", U, ""))) /\ k' = rest /\ Same
               ELSE LET g == GetProp(heap, v, d.keys[f.i + 1]) IN
                    IF ~g.ok THEN Go(Ret(Throw(Err("TypeError")))) /\ k' = rest /\ Same
                    ELSE IF f.i + 1 = Len(d.keys) THEN Go(RetV(g.v)) /\ k' = rest /\ Same
                    ELSE Go(RetV(g.v)) /\ k' = <<[f EXCEPT !.i = f.i + 1]>> \o rest /\ Same
          [] f.f = "ddA" ->
               \* the source value is known: array patterns need an iterable, object patterns anything but null / undefined
               LET d == Nd(f.n) it == IF d.shape = "arr" THEN IterElems(heap, v) ELSE [r |-> "ok", es |-> <<>>] IN
               IF d.shape = "obj" /\ v.t \in {"undef", "null"} THEN Go(Ret(Throw(Err("TypeError")))) /\ k' = rest /\ Same
               ELSE IF d.shape = "obj" /\ (v.t \in {"fun", "err"} \/ (v.t = "ref" /\ heap[v.a].k = "gen")) THEN Go(Ret(Abrupt("unmodelled", U, ""))) /\ k' = rest /\ Same
               ELSE IF it.r = "type" THEN Go(Ret(Throw(Err("TypeError")))) /\ k' = rest /\ Same
               ELSE IF it.r = "unmodelled" THEN Go(Ret(Abrupt("unmodelled", U, ""))) /\ k' = rest /\ Same
               ELSE DBind(f.n, v, it.es, 1, rest)
          [] f.f = "ddN" -> DBind(f.n, f.base, f.es, f.i, rest)
          [] f.f = "ddD" ->     \* a default initialiser has been evaluated for target f.i
               /\ heap' = SetBinding(heap, FindEnv(heap, env, Nd(f.n).names[f.i]), Nd(f.n).names[f.i], v) /\ UNCHANGED <<env, out>>
               /\ Go(RetV(U)) /\ k' = <<[f |-> "ddN", n |-> f.n, base |-> f.base, es |-> f.es, i |-> f.i + 1]>> \o rest
          [] f.f = "lasgM" ->
               LET d == Nd(f.n) IN
               IF v.t \in {"undef", "null"} THEN Go(Ret(Throw(Err("TypeError")))) /\ k' = rest /\ Same
               ELSE IF v.t \in {"fun", "err"} \/ (v.t = "ref" /\ heap[v.a].k = "gen") THEN Go(Ret(Abrupt("unmodelled", U, ""))) /\ k' = rest /\ Same
               ELSE LET cur == GetProp(heap, v, d.key).v IN
                    IF Short(d.op, cur) THEN Go(RetV(cur)) /\ k' = rest /\ Same
                    ELSE Go(Ev(d.c)) /\ k' = <<[f |-> "setmB", base |-> v, key |-> d.key]>> \o rest /\ Same
          [] f.f = "setmA" -> Go(Ev(Nd(f.n).c)) /\ k' = <<[f |-> "setmB", base |-> v, key |-> Nd(f.n).key]>> \o rest /\ Same
          [] f.f = "setiA" -> Go(Ev(Nd(f.n).b)) /\ k' = <<[f |-> "setiB", n |-> f.n, base |-> v]>> \o rest /\ Same
          [] f.f = "setiB" -> IF ToPrim(v).t = "big" THEN Go(Ret(Abrupt("unmodelled", U, ""))) /\ k' = rest /\ Same
                              ELSE Go(Ev(Nd(f.n).c)) /\ k' = <<[f |-> "setmB", base |-> f.base, key |-> IF f.base.t \in {"undef", "null"} THEN <<>> ELSE KeyOf(heap, v)]>> \o rest /\ Same
          [] f.f = "setmB" /\ f.base.t = "ref" /\ heap[f.base.a].k = "obj" /\ ObjGet(heap, f.base.a, f.key).v.t = "acc" ->
               \* [[Set]] reaches an accessor (own or inherited): the setter runs with the receiver as this; without a setter strict code throws
               LET a == ObjGet(heap, f.base.a, f.key).v IN
               IF a.s.t = "undef" THEN Go(Ret(Throw(Err("TypeError")))) /\ k' = rest /\ Same
               ELSE Go(RetV(U)) /\ k' = <<[f |-> "apply", fv |-> a.s, args |-> <<v>>, thisv |-> f.base, isnew |-> FALSE], [f |-> "setret", v |-> v]>> \o rest /\ Same
          [] f.f = "setret" -> Go(RetV(f.v)) /\ k' = rest /\ Same        \* the value of an assignment is the assigned value, not what the setter returns
          [] f.f = "setmB" ->
               LET r == IF f.base.t \in {"fun", "err"} THEN [r |-> "unmodelled", h |-> heap] ELSE SetProp(heap, f.base, f.key, v) IN
               IF r.r = "ok" THEN heap' = r.h /\ Go(RetV(v)) /\ k' = rest /\ UNCHANGED <<env, out>>
               ELSE IF r.r = "type" THEN Go(Ret(Throw(Err("TypeError")))) /\ k' = rest /\ Same
               ELSE Go(Ret(Abrupt("unmodelled", U, ""))) /\ k' = rest /\ Same
          [] f.f = "mcallA" ->
               LET d == Nd(f.n) g == GetProp(heap, v, d.key) IN
               IF IsGen(heap, v) THEN
                  (IF GenOpOf(d.key) = "" THEN Go(Ret(Abrupt("unmodelled", U, ""))) /\ k' = rest /\ Same
                   ELSE IF d.args = <<>> THEN Go(RetV(U)) /\ k' = <<[f |-> "genop", g |-> v.a, op |-> GenOpOf(d.key), arg |-> U]>> \o rest /\ Same
                   ELSE Go(Ev(d.args[1])) /\ k' = <<[f |-> "genarg", g |-> v.a, op |-> GenOpOf(d.key)]>> \o rest /\ Same)
               ELSE IF IsCls(heap, v) /\ d.key # LengthKey THEN      \* static method call: this = the class
                    LET sg == ClsGet(heap, v.a, d.key) IN
                    IF d.args = <<>> THEN Go(RetV(v)) /\ k' = <<[f |-> "apply", fv |-> sg, args |-> <<>>, thisv |-> v, isnew |-> FALSE]>> \o rest /\ Same
                    ELSE Go(Ev(d.args[1])) /\ k' = <<[f |-> "callA", n |-> f.n, fv |-> sg, args |-> <<>>, thisv |-> v]>> \o rest /\ Same
               ELSE IF v.t \in {"fun", "err"} THEN Go(Ret(Abrupt("unmodelled", U, ""))) /\ k' = rest /\ Same
               ELSE IF ~g.ok THEN Go(Ret(Throw(Err("TypeError")))) /\ k' = rest /\ Same
               ELSE IF d.args = <<>> THEN Go(RetV(v)) /\ k' = <<[f |-> "apply", fv |-> g.v, args |-> <<>>, thisv |-> v, isnew |-> FALSE]>> \o rest /\ Same
               ELSE Go(Ev(d.args[1])) /\ k' = <<[f |-> "callA", n |-> f.n, fv |-> g.v, args |-> <<>>, thisv |-> v]>> \o rest /\ Same
          [] f.f = "forofA" ->
               IF ~(v.t = "ref" /\ heap[v.a].k = "arr") THEN
                  (IF v.t = "str" \/ IsGen(heap, v) THEN Go(Ret(Abrupt("unmodelled", U, ""))) ELSE Go(Ret(Throw(Err("TypeError"))))) /\ k' = rest /\ env' = f.e /\ UNCHANGED <<heap, out>>
               ELSE Go(RetV(U)) /\ k' = <<[f |-> "forofN", n |-> f.n, arr |-> v.a, i |-> 0, lbl |-> f.lbl, e |-> f.e]>> \o rest /\ env' = f.e /\ UNCHANGED <<heap, out>>
          [] f.f = "forofN" ->
               LET d == Nd(f.n) a == heap[f.arr].e IN
               IF f.i >= Len(a) THEN Go(RetV(U)) /\ k' = rest /\ env' = f.e /\ UNCHANGED <<heap, out>>
               ELSE LET h0 == NewEnv(heap, f.e) e == Len(h0)
                        h1 == Declare(h0, e, d.name, a[f.i + 1], TRUE, d.kind # "const") IN
                    /\ heap' = h1 /\ env' = e /\ Go(Ev(d.body)) /\ UNCHANGED out
                    /\ k' = <<[f |-> "popenv", e |-> f.e], [f EXCEPT !.f = "forofB", !.i = f.i + 1]>> \o rest
          [] f.f = "forofB" -> Go(RetV(U)) /\ k' = <<[f EXCEPT !.f = "forofN"]>> \o rest /\ Same
          [] f.f = "yield" ->
               LET sp == SplitAtGenRet(rest, <<>>) IN
               IF ~sp.found THEN Go(Ret(Abrupt("unmodelled", U, ""))) /\ k' = rest /\ Same
               ELSE LET g == sp.fr.g
                        h1 == [heap EXCEPT ![g].st = "suspended", ![g].kont = sp.seg, ![g].genv = env]
                        h2 == IterRes(h1, v, FALSE) IN
                    /\ heap' = h2 /\ env' = sp.fr.e /\ k' = sp.rest /\ Go(RetV(Ref(Len(h2)))) /\ UNCHANGED out
          [] f.f = "genop" ->      \* all arguments evaluated: f.g generator address, f.op, argument = v (or U)
               LET g == heap[f.g] IN
               (CASE g.st = "running" -> Go(Ret(Throw(Err("TypeError")))) /\ k' = rest /\ Same
                 [] g.st = "done" ->
                      IF f.op = "throw" THEN Go(Ret(Throw(f.arg))) /\ k' = rest /\ Same
                      ELSE LET h2 == IterRes(heap, IF f.op = "return" THEN f.arg ELSE U, TRUE) IN
                           heap' = h2 /\ Go(RetV(Ref(Len(h2)))) /\ k' = rest /\ UNCHANGED <<env, out>>
                 [] g.st = "start" ->
                      IF f.op = "throw" THEN heap' = [heap EXCEPT ![f.g].st = "done"] /\ Go(Ret(Throw(f.arg))) /\ k' = rest /\ UNCHANGED <<env, out>>
                      ELSE IF f.op = "return" THEN
                           LET h1 == [heap EXCEPT ![f.g].st = "done"] h2 == IterRes(h1, f.arg, TRUE) IN
                           heap' = h2 /\ Go(RetV(Ref(Len(h2)))) /\ k' = rest /\ UNCHANGED <<env, out>>
                      ELSE \* first next(): start the body (the argument of the first next is ignored)
                           LET fn == heap[g.fn]
                               h0 == NewEnv([heap EXCEPT ![f.g].st = "running"], fn.env)  e == Len(h0)
                               RECURSIVE BindG(_, _)
                               BindG(h, i) == IF i > Len(fn.params) THEN h
                                              ELSE BindG(Declare(h, e, fn.params[i], IF i <= Len(g.args) THEN g.args[i] ELSE U, TRUE, TRUE), i + 1)
                               h1 == Declare(BindG(h0, 1), e, "this", g.thisv, TRUE, FALSE)
                               body == Nd(fn.body)
                               h2 == HoistVars(h1, e, VarNamesList(body.xs))
                               h3 == HoistLex(h2, e, body.xs)
                           IN /\ heap' = h3 /\ env' = e /\ UNCHANGED out
                              /\ IF body.xs = <<>> THEN Go(RetV(U)) /\ k' = <<[f |-> "genret", g |-> f.g, e |-> env]>> \o rest
                                 ELSE Go(Ev(body.xs[1])) /\ k' = <<[f |-> "list", xs |-> body.xs, i |-> 1], [f |-> "genret", g |-> f.g, e |-> env]>> \o rest
                 [] g.st = "suspended" ->
                      /\ heap' = [heap EXCEPT ![f.g].st = "running", ![f.g].kont = <<>>]
                      /\ env' = g.genv /\ UNCHANGED out
                      /\ k' = g.kont \o <<[f |-> "genret", g |-> f.g, e |-> env]>> \o rest
                      /\ Go(IF f.op = "next" THEN RetV(f.arg) ELSE IF f.op = "return" THEN Ret(Abrupt("return", f.arg, "")) ELSE Ret(Throw(f.arg))))
          [] f.f = "genarg" ->     \* single optional argument of next/return/throw evaluated
               Go(RetV(U)) /\ k' = <<[f |-> "genop", g |-> f.g, op |-> f.op, arg |-> v]>> \o rest /\ Same
          [] f.f = "decl" ->
               LET d == Nd(f.n) e == FindEnv(heap, env, d.name) IN
               heap' = SetBinding(heap, e, d.name, v) /\ Go(RetV(U)) /\ k' = rest /\ UNCHANGED <<env, out>>
          [] f.f = "list" -> IF f.i = Len(f.xs) THEN Go(RetV(U)) /\ k' = rest /\ Same
                             ELSE Go(Ev(f.xs[f.i + 1])) /\ k' = <<[f EXCEPT !.i = f.i + 1]>> \o rest /\ Same
          [] f.f = "if" -> LET d == Nd(f.n) IN
                 IF ToBoolean(v) THEN Go(Ev(d.b)) /\ k' = rest /\ Same
                 ELSE IF d.c # 0 THEN Go(Ev(d.c)) /\ k' = rest /\ Same ELSE Go(RetV(U)) /\ k' = rest /\ Same
          [] f.f = "wtest" -> IF ToBoolean(v) THEN Go(Ev(Nd(f.n).b)) /\ k' = <<[f |-> "wbody", n |-> f.n, lbl |-> f.lbl]>> \o rest /\ Same
                              ELSE Go(RetV(U)) /\ k' = rest /\ Same
          [] f.f = "wbody" -> Go(Ev(Nd(f.n).a)) /\ k' = <<[f |-> "wtest", n |-> f.n, lbl |-> f.lbl]>> \o rest /\ Same
          [] f.f = "forI" ->
               IF PerIter(f.n) THEN LET h1 == CopyIter(heap, env, f.e, Nd(Nd(f.n).init).name) IN
                                    heap' = h1 /\ env' = Len(h1) /\ UNCHANGED out /\ ForGoTest(f.n, f.e, f.lbl, rest)
               ELSE ForGoTest(f.n, f.e, f.lbl, rest) /\ Same
          [] f.f = "forT" -> IF ToBoolean(v) THEN Go(Ev(Nd(f.n).body)) /\ k' = <<[f EXCEPT !.f = "forB"]>> \o rest /\ Same
                             ELSE Go(RetV(U)) /\ k' = rest /\ env' = f.e /\ UNCHANGED <<heap, out>>
          [] f.f = "forB" -> ForAfterBody(f, rest)
          [] f.f = "forU" -> ForGoTest(f.n, f.e, f.lbl, rest) /\ Same
          [] f.f = "swD" ->
               LET d == Nd(f.n) h0 == NewEnv(heap, env) e == Len(h0) IN
               /\ heap' = HoistLex(h0, e, FlatBodies(d.bodies)) /\ env' = e /\ UNCHANGED out
               /\ SwNext(f.n, v, 1, <<[f |-> "popenv", e |-> env]>> \o rest)
          [] f.f = "swT" ->
               IF f.disc.t = "err" /\ v.t = "err" THEN Go(Ret(Abrupt("unmodelled", U, ""))) /\ k' = rest /\ Same
               ELSE (IF StrictEq(f.disc, v) THEN SwRun(f.n, f.i, rest) ELSE SwNext(f.n, f.disc, f.i + 1, rest)) /\ Same
          [] f.f = "switch" -> Go(RetV(U)) /\ k' = rest /\ Same
          [] f.f = "return" -> Go(Ret(Abrupt("return", v, ""))) /\ k' = rest /\ Same
          [] f.f = "throw" -> Go(Ret(Throw(v))) /\ k' = rest /\ Same
          [] f.f = "label" -> Go(RetV(U)) /\ k' = rest /\ Same
          [] f.f = "try" -> LET d == Nd(f.n) IN
                 IF d.c # 0 THEN Go(Ev(d.c)) /\ k' = <<[f |-> "fin", pend |-> c]>> \o rest /\ Same
                 ELSE Go(RetV(U)) /\ k' = rest /\ Same
          [] f.f = "catch" -> LET d == Nd(f.n) IN
                 IF d.c # 0 THEN Go(Ev(d.c)) /\ k' = <<[f |-> "fin", pend |-> Normal(U)]>> \o rest /\ Same
                 ELSE Go(RetV(U)) /\ k' = rest /\ Same
          [] f.f = "fin" -> Go(Ret(f.pend)) /\ k' = rest /\ Same       \* finally completed normally: resume the pending completion
          [] f.f = "callF" ->
               LET d == Nd(f.n) IN
               IF d.args = <<>> THEN Go(RetV(v)) /\ k' = <<[f |-> "apply", fv |-> v, args |-> <<>>, thisv |-> U, isnew |-> d.ty = "new"]>> \o rest /\ Same
               ELSE Go(Ev(d.args[1])) /\ k' = <<[f |-> "callA", n |-> f.n, fv |-> v, args |-> <<>>, thisv |-> U]>> \o rest /\ Same
          [] f.f = "callA" ->
               LET d == Nd(f.n) as == Append(f.args, v) IN
               IF Len(as) = Len(d.args) THEN Go(RetV(v)) /\ k' = <<[f |-> "apply", fv |-> f.fv, args |-> as, thisv |-> f.thisv, isnew |-> d.ty = "new"]>> \o rest /\ Same
               ELSE Go(Ev(d.args[Len(as) + 1])) /\ k' = <<[f EXCEPT !.args = as]>> \o rest /\ Same
          [] f.f = "apply" ->
               IF f.fv.t # "fun" THEN Go(Ret(Throw(Err("TypeError")))) /\ k' = rest /\ Same
               ELSE IF f.isnew /\ (heap[f.fv.a].gen \/ heap[f.fv.a].arrow) THEN Go(Ret(Throw(Err("TypeError")))) /\ k' = rest /\ Same    \* not a constructor
               ELSE IF heap[f.fv.a].cls /\ ~f.isnew THEN Go(Ret(Throw(Err("TypeError")))) /\ k' = rest /\ Same      \* a class constructor cannot be called
               ELSE IF heap[f.fv.a].cls THEN ConstructCls(f.fv.a, f.args, IF "nt" \in DOMAIN f THEN f.nt ELSE f.fv.a, rest)
               ELSE IF heap[f.fv.a].gen THEN
                    /\ heap' = Append(heap, [k |-> "gen", st |-> "start", fn |-> f.fv.a, args |-> f.args, thisv |-> f.thisv, kont |-> <<>>, genv |-> NoEnv])
                    /\ Go(RetV(Ref(Len(heap) + 1))) /\ k' = rest /\ UNCHANGED <<env, out>>
               ELSE LET fn == heap[f.fv.a]
                        \* [[Construct]]: a fresh ordinary object is `this`; it is the result unless the body returns an object
                        hN == IF f.isnew THEN Append(heap, [k |-> "obj", ks |-> <<>>, vs |-> <<>>]) ELSE heap
                        nw == IF f.isnew THEN Ref(Len(hN)) ELSE U
                        thisv == IF f.isnew THEN nw ELSE f.thisv
                        h0 == NewEnv(hN, fn.env)  e == Len(h0)
                        RECURSIVE Bind(_, _)
                        Bind(h, i) == IF i > Len(fn.params) THEN h
                                      ELSE Bind(Declare(h, e, fn.params[i], IF i <= Len(f.args) THEN f.args[i] ELSE U, TRUE, TRUE), i + 1)
                        h1a == Bind(h0, 1)
                        h1b == IF fn.arrow THEN h1a ELSE Declare(h1a, e, "this", thisv, TRUE, FALSE)
                        h1 == IF fn.home # 0 THEN Declare(h1b, e, "%home", N(fn.home), TRUE, FALSE) ELSE h1b
                        body == Nd(fn.body)
                        \* parameters whose argument is undefined (missing or explicit) and that have a default initialiser, in order
                        need == NeedDefault(fn, f.args, 1)
                    IN IF need = 0 THEN EnterBody(h1, e, body, env, nw, rest)
                       ELSE /\ heap' = h1 /\ env' = e /\ UNCHANGED out /\ Go(Ev(fn.defs[need]))
                            /\ k' = <<[f |-> "pdef", fa |-> f.fv.a, i |-> need, args |-> f.args, e |-> env, nw |-> nw]>> \o rest
          [] f.f = "pdef" ->
               \* a default initialiser was evaluated (in the function scope, earlier parameters visible): bind it, go on with the next one
               LET fn == heap[f.fa]
                   h1 == SetBinding(heap, env, fn.params[f.i], v)
                   need == NeedDefault(fn, f.args, f.i + 1)
               IN IF need = 0 THEN EnterBody(h1, env, Nd(fn.body), f.e, f.nw, rest)
                  ELSE /\ heap' = h1 /\ UNCHANGED <<env, out>> /\ Go(Ev(fn.defs[need])) /\ k' = <<[f EXCEPT !.i = need]>> \o rest

Next == /\ st = "run" /\ steps < MaxSteps /\ steps' = steps + 1 /\ UNCHANGED pi
        /\ feat' = feat \cup StepFeat
        /\ IF ctl.m = "ev" THEN StepEv(ctl.n) /\ UNCHANGED st ELSE StepRet
Spec == Init /\ [][Next]_vars
Report == (st = "done" \/ steps = MaxSteps) => PrintT(<<"R", ToJson([id |-> Progs[pi].id, out |-> out, fin |-> st, feat |-> feat, steps |-> steps])>>)
NoErr == ~(ctl.m = "ret" /\ ctl.c.c = "throw")
====
