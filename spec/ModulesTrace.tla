---- MODULE ModulesTrace ----
(***************************************************************************)
(* C09, flow T: traces recorded from the real interpreter (vrunner modules)*)
(* are accepted iff they are behaviours of Modules.  One TLC run validates *)
(* a whole file: one initial state per trace; the ready-set order the code *)
(* takes from its hash map is left to the specification's nondeterminism   *)
(* and resolved by the logged load order.  Each logged call must agree on: *)
(* result kind; the request LIST (no duplicates, exactly the modules the   *)
(* spec says are missing); every request's importer (a module that really  *)
(* imports it, or the entry program); the load log; on completion the      *)
(* value, the export read back through the host API and the live-binding   *)
(* reads.                                                                  *)
(***************************************************************************)
EXTENDS Modules
TR == ndJsonDeserialize(IOEnv.TRACE)
NT == Len(TR)
VARIABLES tix, l
ToSet(s) == { s[i] : i \in 1..Len(s) }
Ev(t) == TR[t].ev
TraceInit == /\ tix \in 1..NT /\ l = 1
             /\ deps = [m \in All |-> ToSet(TR[tix].deps[m + 1])]
             /\ provided = {} /\ loaded = <<>> /\ pendingProgram = FALSE
             /\ phase = "new" /\ last = [r |-> "none", mods |-> {}, loads |-> <<>>]
             /\ fresh = FALSE /\ hostMoves = 0 /\ runs = 0 /\ hist = <<>>
Cur == Ev(tix)[l]
IsEvent(e) == l <= Len(Ev(tix)) /\ Cur.e = e /\ l' = l + 1 /\ UNCHANGED tix
\* importer 0 = the entry program (ImportRequest.importer = None)
ImporterOK(m, i) == IF i = 0 THEN m \in deps[0] ELSE (i \in Mods /\ m \in deps[i] /\ i \notin LoadedSet)
Matches ==
  /\ last'.r = Cur.r
  /\ last'.mods = ToSet(Cur.mods) /\ Len(Cur.mods) = Cardinality(last'.mods)      \* a list without duplicates
  /\ last'.loads = Cur.loads
  /\ \A i \in 1..Len(Cur.mods) : ImporterOK(Cur.mods[i], Cur.imps[i])
  /\ Cur.r = "Complete" => /\ Cur.value = MainValue
                           /\ Cur.total = MainValue
                           /\ \A i \in 1..Len(Cur.live) : Cur.live[i] = 2
TPrepare == IsEvent("prepare") /\ Prepare /\ Matches
TProvide == IsEvent("provide") /\ Provide(Cur.m)
TRun     == IsEvent("run") /\ Run /\ Matches
TraceNext == TPrepare \/ TProvide \/ TRun
TraceSpec == TraceInit /\ [][TraceNext]_<<vars, tix, l>>
\* per-trace high-water mark in TLC registers (needs -workers 1)
Mark == TLCSet(tix, IF TLCGet(tix) > l THEN TLCGet(tix) ELSE l)
ASSUME \A t \in 1..NT : TLCSet(t, 0)
Accepted == \A t \in 1..NT :
              IF TLCGet(t) = Len(Ev(t)) + 1 THEN TRUE
              ELSE PrintT(<<"REJECTED", t, TLCGet(t) - 1, Len(Ev(t))>>)
AllAccepted == /\ Accepted
               /\ \A t \in 1..NT : TLCGet(t) = Len(Ev(t)) + 1
====
