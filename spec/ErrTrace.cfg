SPECIFICATION Spec
CONSTRAINT Mark
POSTCONDITION AllAccepted
CHECK_DEADLOCK FALSE
