SPECIFICATION TraceSpec
CONSTANTS N = 6
 MaxHost = 100000
 MaxRuns = 100000
 Emitting = FALSE
CONSTRAINT Mark
INVARIANT OnceEach
INVARIANT DepsFirst
INVARIANT RequestsMissing
INVARIANT RequestsHaveImporter
INVARIANT CompleteLoadsAllNeeded
POSTCONDITION AllAccepted
CHECK_DEADLOCK FALSE
