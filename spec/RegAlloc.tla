---- MODULE RegAlloc ----
\* RegisterAllocator of src/compiler/builder.rs at width W (real W = 8; model-checked at W = 3).
EXTENDS Integers, Sequences, FiniteSets, TLC
CONSTANTS W, MaxOps
Limit == 2^W - 1          \* 255 at W = 8 : alloc refuses when next = Limit
VARIABLES next, freeList, saved, maxUsed, live, windows, err, ops
\* live    : set of registers handed out by alloc and not yet freed (ghost)
\* windows : set of <<start,count>> handed out by reserve_range (ghost; the code never releases them except through restore)
vars == <<next, freeList, saved, maxUsed, live, windows, err, ops>>
Init == next = 0 /\ freeList = <<>> /\ saved = <<>> /\ maxUsed = 0 /\ live = {} /\ windows = {} /\ err = FALSE /\ ops = 0
Tick == ops < MaxOps /\ ops' = ops + 1
InWindow(r) == \E w \in windows : r >= w[1] /\ r < w[1] + w[2]
Alloc ==
  /\ Tick
  /\ IF freeList # <<>> THEN
        LET r == freeList[Len(freeList)] IN
        /\ freeList' = SubSeq(freeList, 1, Len(freeList) - 1) /\ live' = live \cup {r}
        /\ UNCHANGED <<next, saved, maxUsed, windows, err>>
     ELSE IF next = Limit THEN err' = TRUE /\ UNCHANGED <<next, freeList, saved, maxUsed, live, windows>>
     ELSE /\ live' = live \cup {next} /\ next' = next + 1 /\ maxUsed' = (IF next + 1 > maxUsed THEN next + 1 ELSE maxUsed)
          /\ UNCHANGED <<freeList, saved, windows, err>>
Free(r) ==      \* the compiler only frees registers it got from alloc and still holds
  /\ Tick /\ r \in live
  /\ live' = live \ {r}
  /\ IF next > 0 /\ r = next - 1 THEN next' = r /\ UNCHANGED freeList ELSE freeList' = Append(freeList, r) /\ UNCHANGED next
  /\ UNCHANGED <<saved, maxUsed, windows, err>>
Reserve(c) ==
  /\ Tick
  /\ IF next + c > 2^W - 1 THEN err' = TRUE /\ UNCHANGED <<next, freeList, saved, maxUsed, live, windows>>
     ELSE /\ windows' = windows \cup {<<next, c>>} /\ next' = next + c
          /\ maxUsed' = (IF next + c > maxUsed THEN next + c ELSE maxUsed) /\ UNCHANGED <<freeList, saved, live, err>>
Save == Tick /\ saved' = Append(saved, next) /\ UNCHANGED <<next, freeList, maxUsed, live, windows, err>>
Restore ==
  /\ Tick /\ saved # <<>>
  /\ LET pos == saved[Len(saved)] IN
     /\ saved' = SubSeq(saved, 1, Len(saved) - 1) /\ next' = pos
     /\ freeList' = SelectSeq(freeList, LAMBDA r : r < pos)
     \* whoever restores gives up everything at or above pos
     /\ live' = { r \in live : r < pos } /\ windows' = { w \in windows : w[1] + w[2] <= pos }
  /\ UNCHANGED <<maxUsed, err>>
Next == Alloc \/ (\E r \in 0..(2^W - 1) : Free(r)) \/ (\E c \in 0..3 : Reserve(c)) \/ Save \/ Restore
Spec == Init /\ [][Next]_vars
FreeListSet == { freeList[i] : i \in 1..Len(freeList) }
FreeListBelowNext == \A r \in FreeListSet : r < next
FreeListDistinct == \A i, j \in 1..Len(freeList) : i # j => freeList[i] # freeList[j]
NoClobber == /\ FreeListSet \cap live = {}                      \* a free register is never also live
             /\ \A r \in live : r < next /\ ~InWindow(r)          \* live registers are below next and outside reserved windows
             /\ \A r \in FreeListSet : ~InWindow(r)
             /\ \A w1, w2 \in windows : w1 # w2 => (w1[1] + w1[2] <= w2[1] \/ w2[1] + w2[2] <= w1[1] \/ w1[2] = 0 \/ w2[2] = 0)
WindowInBounds == \A w \in windows : w[1] + w[2] <= 2^W
MaxUsedCovers == next <= maxUsed /\ \A r \in live : r < maxUsed
====
