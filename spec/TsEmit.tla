---- MODULE TsEmit ----
(***************************************************************************)
(* C04.  The run-time meaning of TypeScript's non-erasable constructs, as   *)
(* the TypeScript compiler is specified to emit them.                       *)
(*                                                                         *)
(* ENUMS are a state machine over the member list: the state is the enum    *)
(* object (a function from keys to values, numbers as integers and strings  *)
(* as TLA+ strings) and the auto counter; one action per member kind:       *)
(*   auto      E[E[name] = last + 1] = name          (first member: 0)      *)
(*   num(v)    E[E[name] = v] = name                                        *)
(*   str(s)    E[name] = s                          (no reverse mapping)    *)
(*   ref(m,k)  E[E[name] = E.m + k] = name          (reference to an        *)
(*                                                   earlier numeric member)*)
(*   comp(v)   E[E[name] = <expr evaluating to v>] = name   (computed)      *)
(* A later assignment to the same key overwrites (duplicate values: the     *)
(* last writer wins the reverse mapping); a second `enum E { ... }` block   *)
(* continues on the SAME object.                                            *)
(*                                                                         *)
(* PARAMETER PROPERTIES: the constructor prologue assigns this.p = p for    *)
(* every parameter with a modifier, in parameter order, after super().      *)
(* NAMESPACES: an object tree; exported declarations become properties,     *)
(* non-exported ones stay local; a second block merges into the same        *)
(* object and sees the first block's exports through the namespace name.    *)
(*                                                                         *)
(* TLC enumerates every declaration within the bounds; Emit prints the      *)
(* declaration together with the expected object, which the harness         *)
(* compares with what the implementation builds from the printed source.    *)
(***************************************************************************)
EXTENDS Integers, Sequences, FiniteSets, TLC, Json
CONSTANTS MaxMembers, MaxBlocks, Family
Names == <<"A", "B", "C", "D", "E">>
NumVals == {0, 1, 2, 6}
StrVals == {"a", "x"}
\* member descriptors (the name is given by the position)
Kinds == [k : {"auto"}] \cup [k : {"num"}, v : NumVals] \cup [k : {"str"}, s : StrVals]
         \cup [k : {"ref"}, m : 1..(MaxMembers - 1), op : {"id", "plus1", "neg", "not", "shl"}] \cup [k : {"comp"}, v : {3}]
RECURSIVE SeqsOfLen(_, _)
SeqsOfLen(S, n) == IF n = 0 THEN {<<>>} ELSE { Append(s, x) : s \in SeqsOfLen(S, n - 1), x \in S }
\* ---- enum state machine: obj is a sequence of <<key, value>> pairs in write order (later pairs overwrite earlier ones)
Put(obj, key, val) == Append(SelectSeq(obj, LAMBDA p : p[1] # key), <<key, val>>)
NumKey(v) == "#" \o ToString(v)       \* numeric keys are kept apart from name keys by a marker
\* well-formedness as TypeScript enforces it: auto needs a numeric predecessor (or to be first in the first block);
\* a reference names an earlier NUMERIC member
\* Dev = TRUE computes what the implementation is KNOWN to do instead (the three open findings of C04, modelled as named
\* deviations so that a failing declaration is excused only if the implementation shows exactly this behaviour):
\*   nonliteral   - in a block with a member whose initialiser is not a literal, such members get no reverse entry and do not
\*                  advance the auto counter (the block is built by assignments; literal members behave as the emit)
\*   dup-first    - in a block of literal members only (built as one table) the reverse entry of a value keeps the FIRST name
\*   second-block - a second `enum E` block starts from an empty object
\* dev is "emit" (the specification), "table" (deviating, all-literal block) or "assign" (deviating, block with a non-literal)
PutRev(obj, v, name, dev) == IF dev = "table" /\ \E p \in 1..Len(obj) : obj[p][1] = NumKey(v) THEN obj ELSE Put(obj, NumKey(v), [s |-> name])
UnOp(op, v) == CASE op = "id" -> v [] op = "plus1" -> v + 1 [] op = "neg" -> 0 - v [] op = "not" -> 0 - v - 1 [] op = "shl" -> 2 * v
RECURSIVE Run(_, _, _, _, _, _, _)
\* ms: remaining members; i: index of the next name; obj; last: last numeric value or -1 (none);
\* vals / nums: value and "is numeric" of every member so far
Run(ms, i, obj, last, vals, nums, dev) ==
  IF ms = <<>> THEN [ok |-> TRUE, obj |-> obj, vals |-> vals, nums |-> nums]
  ELSE LET m == Head(ms)  name == Names[i] IN
    CASE m.k = "auto" ->
           (IF last = -1 /\ i > 1 /\ dev = "emit" THEN [ok |-> FALSE]
            ELSE LET v == last + 1 IN
                 Run(Tail(ms), i + 1, PutRev(Put(obj, name, [n |-> v]), v, name, dev), v, Append(vals, v), Append(nums, TRUE), dev))
      [] m.k = "num" -> Run(Tail(ms), i + 1, PutRev(Put(obj, name, [n |-> m.v]), m.v, name, dev), m.v, Append(vals, m.v), Append(nums, TRUE), dev)
      [] m.k = "comp" ->
           IF dev # "emit" THEN Run(Tail(ms), i + 1, Put(obj, name, [n |-> m.v]), last, Append(vals, m.v), Append(nums, TRUE), dev)
           ELSE Run(Tail(ms), i + 1, PutRev(Put(obj, name, [n |-> m.v]), m.v, name, dev), m.v, Append(vals, m.v), Append(nums, TRUE), dev)
      [] m.k = "str" -> Run(Tail(ms), i + 1, Put(obj, name, [s |-> m.s]), -1, Append(vals, 0), Append(nums, FALSE), dev)
      [] m.k = "ref" ->
           (IF m.m >= i THEN [ok |-> FALSE] ELSE IF ~nums[m.m] THEN [ok |-> FALSE]
            ELSE IF m.op = "neg" /\ vals[m.m] = 0 THEN [ok |-> FALSE]          \* -0: outside the integer model
            ELSE LET v == UnOp(m.op, vals[m.m]) IN
                 IF dev # "emit" THEN Run(Tail(ms), i + 1, Put(obj, name, [n |-> v]), last, Append(vals, v), Append(nums, TRUE), dev)
                 ELSE Run(Tail(ms), i + 1, PutRev(Put(obj, name, [n |-> v]), v, name, dev), v, Append(vals, v), Append(nums, TRUE), dev))
\* two blocks: the second continues on the same object; its first member must have an initializer
EnumDecls == { <<b1, b2>> : b1 \in UNION { SeqsOfLen(Kinds, n) : n \in 1..MaxMembers },
                            b2 \in {<<>>} \cup (IF MaxBlocks >= 2 THEN { <<x>> : x \in { k \in Kinds : k.k \in {"num", "str"} } } ELSE {}) }
AllLit(b) == \A p \in 1..Len(b) : b[p].k \in {"auto", "num", "str"}
DevOf(b) == IF AllLit(b) THEN "table" ELSE "assign"
EnumResultD(d, dev) == LET r1 == Run(d[1], 1, <<>>, -1, <<>>, <<>>, IF dev THEN DevOf(d[1]) ELSE "emit") IN
                 IF ~r1.ok THEN r1
                 ELSE IF d[2] = <<>> THEN r1
                 ELSE Run(d[2], Len(d[1]) + 1, IF dev THEN <<>> ELSE r1.obj, -1, r1.vals, r1.nums, IF dev THEN DevOf(d[2]) ELSE "emit")
EnumResult(d) == EnumResultD(d, FALSE)
\* ---- parameter properties: parameters = sequence of [mod : "none"|"public"|"private"|"readonly", dflt : 0 | value]
ParamDecls == UNION { SeqsOfLen([mod : {"none", "public", "private", "readonly"}, dflt : {0, 7}], n) : n \in 0..3 }
\* own keys (in order) and values of `new C(1, 2, 3)` resp. `new C()` for defaults
ParamKeys(ps) == SelectSeq([i \in 1..Len(ps) |-> i], LAMBDA i : ps[i].mod # "none")
VARIABLES decl, done
vars == <<decl, done>>
Init == /\ done = FALSE
        /\ decl \in (CASE Family = "enum" -> { [f |-> "enum", d |-> d] : d \in EnumDecls }
                       [] Family = "params" -> { [f |-> "params", ps |-> ps, ext |-> e] : ps \in ParamDecls, e \in BOOLEAN })
Next == ~done /\ done' = TRUE /\ UNCHANGED decl
Spec == Init /\ [][Next]_vars
Emit == ~done =>
  (IF decl.f = "enum" THEN
      LET r == EnumResult(decl.d) IN
      (r.ok /\ EnumResultD(decl.d, TRUE).ok) => PrintT(<<"T", ToJson([f |-> "enum", b1 |-> decl.d[1], b2 |-> decl.d[2],
                                    pairs |-> [i \in 1..Len(r.obj) |-> [key |-> r.obj[i][1], val |-> r.obj[i][2]]],
                                    devpairs |-> LET q == EnumResultD(decl.d, TRUE).obj IN [i \in 1..Len(q) |-> [key |-> q[i][1], val |-> q[i][2]]]])>>)
   ELSE PrintT(<<"T", ToJson([f |-> "params", ps |-> decl.ps, ext |-> decl.ext, keys |-> ParamKeys(decl.ps)])>>))
====
