---- MODULE TsEmit ----
(***************************************************************************)
(* C04.  The run-time meaning of TypeScript's non-erasable constructs, as   *)
(* the TypeScript compiler is specified to emit them.                       *)
(*                                                                         *)
(* ENUMS are a state machine over the member list: the state is the enum    *)
(* object (a function from keys to values, numbers as integers and strings  *)
(* as TLA+ strings) and the auto counter; one action per member kind:       *)
(*   auto      E[E[name] = last + 1] = name          (first member: 0)      *)
(*   num(v)    E[E[name] = v] = name                                        *)
(*   str(s)    E[name] = s                          (no reverse mapping)    *)
(*   ref(m,k)  E[E[name] = E.m + k] = name          (reference to an        *)
(*                                                   earlier numeric member)*)
(*   comp(v)   E[E[name] = <expr evaluating to v>] = name   (computed)      *)
(* A later assignment to the same key overwrites (duplicate values: the     *)
(* last writer wins the reverse mapping); a second `enum E { ... }` block   *)
(* continues on the SAME object.                                            *)
(*                                                                         *)
(* PARAMETER PROPERTIES: the constructor prologue assigns this.p = p for    *)
(* every parameter with a modifier, in parameter order, after super().      *)
(* NAMESPACES: an object tree; exported declarations become properties,     *)
(* non-exported ones stay local; a second block merges into the same        *)
(* object and sees the first block's exports through the namespace name.    *)
(*                                                                         *)
(* TLC enumerates every declaration within the bounds; Emit prints the      *)
(* declaration together with the expected object, which the harness         *)
(* compares with what the implementation builds from the printed source.    *)
(***************************************************************************)
EXTENDS Integers, Sequences, FiniteSets, TLC, Json
CONSTANTS MaxMembers, MaxBlocks, Family
Names == <<"A", "B", "C", "D", "E">>
NumVals == {0, 1, 2, 6}
StrVals == {"a", "x"}
\* member descriptors (the name is given by the position)
Kinds == [k : {"auto"}] \cup [k : {"num"}, v : NumVals] \cup [k : {"str"}, s : StrVals]
         \cup [k : {"ref"}, m : 1..(MaxMembers - 1), add : {0, 1}] \cup [k : {"comp"}, v : {3}]
RECURSIVE SeqsOfLen(_, _)
SeqsOfLen(S, n) == IF n = 0 THEN {<<>>} ELSE { Append(s, x) : s \in SeqsOfLen(S, n - 1), x \in S }
\* ---- enum state machine: obj is a sequence of <<key, value>> pairs in write order (later pairs overwrite earlier ones)
Put(obj, key, val) == Append(SelectSeq(obj, LAMBDA p : p[1] # key), <<key, val>>)
NumKey(v) == "#" \o ToString(v)       \* numeric keys are kept apart from name keys by a marker
\* well-formedness as TypeScript enforces it: auto needs a numeric predecessor (or to be first in the first block);
\* a reference names an earlier NUMERIC member
RECURSIVE Run(_, _, _, _, _, _)
\* ms: remaining members; i: index of the next name; obj; last: last numeric value or -1 (none);
\* vals / nums: value and "is numeric" of every member so far
Run(ms, i, obj, last, vals, nums) ==
  IF ms = <<>> THEN [ok |-> TRUE, obj |-> obj, vals |-> vals, nums |-> nums]
  ELSE LET m == Head(ms)  name == Names[i] IN
    CASE m.k = "auto" ->
           (IF last = -1 /\ i > 1 THEN [ok |-> FALSE]
            ELSE LET v == last + 1 IN
                 Run(Tail(ms), i + 1, Put(Put(obj, name, [n |-> v]), NumKey(v), [s |-> name]), v, Append(vals, v), Append(nums, TRUE)))
      [] m.k \in {"num", "comp"} -> Run(Tail(ms), i + 1, Put(Put(obj, name, [n |-> m.v]), NumKey(m.v), [s |-> name]), m.v, Append(vals, m.v), Append(nums, TRUE))
      [] m.k = "str" -> Run(Tail(ms), i + 1, Put(obj, name, [s |-> m.s]), -1, Append(vals, 0), Append(nums, FALSE))
      [] m.k = "ref" ->
           (IF m.m >= i THEN [ok |-> FALSE] ELSE IF ~nums[m.m] THEN [ok |-> FALSE]
            ELSE LET v == vals[m.m] + m.add IN
                 Run(Tail(ms), i + 1, Put(Put(obj, name, [n |-> v]), NumKey(v), [s |-> name]), v, Append(vals, v), Append(nums, TRUE)))
\* two blocks: the second continues on the same object; its first member must have an initializer
EnumDecls == { <<b1, b2>> : b1 \in UNION { SeqsOfLen(Kinds, n) : n \in 1..MaxMembers },
                            b2 \in {<<>>} \cup (IF MaxBlocks >= 2 THEN { <<x>> : x \in { k \in Kinds : k.k \in {"num", "str"} } } ELSE {}) }
EnumResult(d) == LET r1 == Run(d[1], 1, <<>>, -1, <<>>, <<>>) IN
                 IF ~r1.ok THEN r1
                 ELSE IF d[2] = <<>> THEN r1 ELSE Run(d[2], Len(d[1]) + 1, r1.obj, -1, r1.vals, r1.nums)
\* ---- parameter properties: parameters = sequence of [mod : "none"|"public"|"private"|"readonly", dflt : 0 | value]
ParamDecls == UNION { SeqsOfLen([mod : {"none", "public", "private", "readonly"}, dflt : {0, 7}], n) : n \in 0..3 }
\* own keys (in order) and values of `new C(1, 2, 3)` resp. `new C()` for defaults
ParamKeys(ps) == SelectSeq([i \in 1..Len(ps) |-> i], LAMBDA i : ps[i].mod # "none")
VARIABLES decl, done
vars == <<decl, done>>
Init == /\ done = FALSE
        /\ decl \in (CASE Family = "enum" -> { [f |-> "enum", d |-> d] : d \in EnumDecls }
                       [] Family = "params" -> { [f |-> "params", ps |-> ps, ext |-> e] : ps \in ParamDecls, e \in BOOLEAN })
Next == ~done /\ done' = TRUE /\ UNCHANGED decl
Spec == Init /\ [][Next]_vars
Emit == ~done =>
  (IF decl.f = "enum" THEN
      LET r == EnumResult(decl.d) IN
      r.ok => PrintT(<<"T", ToJson([f |-> "enum", b1 |-> decl.d[1], b2 |-> decl.d[2],
                                    pairs |-> [i \in 1..Len(r.obj) |-> [key |-> r.obj[i][1], val |-> r.obj[i][2]]]])>>)
   ELSE PrintT(<<"T", ToJson([f |-> "params", ps |-> decl.ps, ext |-> decl.ext, keys |-> ParamKeys(decl.ps)])>>))
====
