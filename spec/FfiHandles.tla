----------------------------- MODULE FfiHandles -----------------------------
(* C17 — the C API is memory-safe and total for every call sequence.
   Contexts and value handles as the header (examples/c-embedding/tsrun.h) presents them: a context is created and
   freed; a value handle is obtained from a call, belongs to the context it was obtained from, denotes a primitive
   or an object of that context's heap, and is released with tsrun_value_free - before or AFTER its context (a
   survivor).  One action per class of exported functions; every action carries the RESULT the API has to produce:
   the value read back, ok / error for misuse (NULL arguments, wrong kind), NULL for a NULL context.  Where the
   header promises nothing about a result (inspecting an object handle that survived its context) the expectation is
   "any" - the call must merely be harmless, which the AddressSanitizer build of the replay decides.
   The order protocol and native callbacks are part of the histories: a response handle may be released right after
   it was submitted and collections forced before the script reads it; a callback re-enters the API.
   Invariants (the design): HandlesRooted - the referent of every live handle of a live context is present in the
   store with the contents last written; ResponsesRooted - a submitted response is still what the host submitted
   when the script resumes.  The conformance replay (flow R) executes TLC's behaviours against the real extern "C"
   symbols and compares every result; the same binary built with AddressSanitizer supplies the memory verdict. *)
EXTENDS Naturals, Sequences, FiniteSets, TLC, Json

CONSTANTS NC, NV, NO, MaxLen, Emitting, Classes      \* Classes: which action classes are enabled

Kinds == {"undef", "null", "bool", "num", "str", "obj", "arr", "fn"}
Prim(k, a) == [k |-> k, a |-> a, o |-> 0]
ObjV(k, o) == [k |-> k, a |-> "", o |-> o]
PrimPool == {Prim("undef", ""), Prim("null", ""), Prim("bool", "t"), Prim("num", "n1"), Prim("num", "n2"), Prim("str", "s1"), Prim("str", "s2")}
NoVal == [st |-> "none", c |-> 0, v |-> Prim("undef", "")]
NoObj == [c |-> 0, t |-> "none", ks |-> <<>>, vs |-> <<>>]
KeyPool == {"a", "b"}

VARIABLES ctx,      \* [1..NC -> "none" | "live" | "freed"]
          val,      \* [1..NV -> [st, c, v]]     st: none | live | freed
          obj,      \* [1..NO -> [c, t, ks, vs]] the abstract heap: t: none | obj | arr
          glob,     \* [1..NC -> value or NoVal.v]   one global slot per context ("g")
          run,      \* [1..NC -> [ph, resp]]  ph: idle | suspended ; resp: the value submitted for the pending order
          exposed,  \* ghost [1..NO -> BOOLEAN]: a collection ran while the object was reachable from no live handle and no global -
                    \* only the interpreter's own bookkeeping (a submitted response, a suspended script) still referred to it.
                    \* Part of the VIEW, so that TLC generates the histories in which a collection falls into such a window.
          hist, len
vars == <<ctx, val, obj, glob, run, exposed, hist, len>>
\* the last call is part of the view while emitting: every call enabled in every abstract state is printed at least once
\* (calls that change nothing abstractly - inspection, serialisation, collections, NULL misuse - would otherwise never start a new state)
View == <<ctx, val, obj, glob, run, exposed, IF Emitting /\ hist # <<>> THEN hist[Len(hist)] ELSE <<>> >>

Live(c) == c \in 1..NC /\ ctx[c] = "live"
IsObjK(k) == k \in {"obj", "arr", "fn"}
FreeV == {h \in 1..NV : val[h].st = "none"}
FreeO == {o \in 1..NO : obj[o].t = "none"}
Usable(h) == h \in 1..NV /\ val[h].st = "live"
Mine(h, c) == Usable(h) /\ val[h].c = c
Log(e) == /\ hist' = IF Emitting THEN Append(hist, e) ELSE hist
          /\ len' = len + 1
Can(cls) == cls \in Classes /\ len < MaxLen

\* expectation for reading a value back: a tree (depth <= 2; the model builds no deeper graphs and no cycles)
RECURSIVE Tree(_, _)
Tree(v, d) ==
  IF ~IsObjK(v.k) THEN [k |-> v.k, a |-> v.a, ks |-> <<>>, vs |-> <<>>]
  ELSE IF v.k = "fn" \/ d = 0 THEN [k |-> v.k, a |-> "", ks |-> <<>>, vs |-> <<>>]
  ELSE [k |-> v.k, a |-> "", ks |-> obj[v.o].ks, vs |-> [p \in 1..Len(obj[v.o].vs) |-> Tree(obj[v.o].vs[p], d - 1)]]
Shallow(v) == IF IsObjK(v.k) /\ v.k # "fn" THEN \A p \in 1..Len(obj[v.o].vs) : ~IsObjK(obj[v.o].vs[p].k) ELSE TRUE

\* ------------------------------------------------------------------ contexts
NewCtx(c) ==
  /\ Can("ctx") /\ ctx[c] = "none"
  /\ ctx' = [ctx EXCEPT ![c] = "live"] /\ Log([op |-> "new", c |-> c])
  /\ UNCHANGED <<val, obj, glob, run, exposed>>
FreeCtx(c) ==
  /\ Can("ctx") /\ Live(c)
  /\ ctx' = [ctx EXCEPT ![c] = "freed"]
  /\ obj' = [o \in 1..NO |-> IF obj[o].c = c THEN NoObj ELSE obj[o]]          \* the heap goes with the context
  /\ glob' = [glob EXCEPT ![c] = Prim("undef", "")]
  /\ run' = [run EXCEPT ![c] = [ph |-> "idle", resp |-> Prim("undef", ""), pay |-> "none"]]
  /\ Log([op |-> "freectx", c |-> c])
  /\ UNCHANGED val                                                             \* handles survive: survivors
  /\ exposed' = [o \in 1..NO |-> IF obj[o].c = c THEN FALSE ELSE exposed[o]]
\* ------------------------------------------------------------------ value creation and release
MkPrim(c, h, v) ==
  /\ Can("value") /\ Live(c) /\ h \in FreeV
  /\ val' = [val EXCEPT ![h] = [st |-> "live", c |-> c, v |-> v]]
  /\ Log([op |-> "prim", c |-> c, h |-> h, k |-> v.k, a |-> v.a, exp |-> "handle"])
  /\ UNCHANGED <<ctx, obj, glob, run, exposed>>
MkPrimNullCtx(v) ==           \* NULL context: the constructors return NULL
  /\ Can("null")
  /\ Log([op |-> "prim", c |-> 0, h |-> 0, k |-> v.k, a |-> v.a, exp |-> "null-handle"])
  /\ UNCHANGED <<ctx, val, obj, glob, run, exposed>>
MkObj(c, h, t) ==
  /\ Can("value") /\ Live(c) /\ h \in FreeV /\ FreeO # {}
  /\ LET o == CHOOSE x \in FreeO : \A y \in FreeO : x <= y IN
       /\ obj' = [obj EXCEPT ![o] = [c |-> c, t |-> t, ks |-> <<>>, vs |-> <<>>]]
       /\ val' = [val EXCEPT ![h] = [st |-> "live", c |-> c, v |-> ObjV(t, o)]]
  /\ Log([op |-> "mkobj", c |-> c, h |-> h, t |-> t, exp |-> "handle"])
  /\ UNCHANGED <<ctx, glob, run, exposed>>
FreeVal(h) ==                 \* before or after its context
  /\ Can("value") /\ Usable(h)
  /\ val' = [val EXCEPT ![h] = [NoVal EXCEPT !.st = "freed"]]
  /\ Log([op |-> "free", h |-> h])
  /\ UNCHANGED <<ctx, obj, glob, run, exposed>>
Recycle(h) ==                 \* the driver forgets a released handle number (keeps NV small)
  /\ val[h].st = "freed" /\ val' = [val EXCEPT ![h] = NoVal]
  /\ UNCHANGED <<ctx, obj, glob, run, hist, len, exposed>>
Dup(c, h, h2) ==
  /\ Can("value") /\ Live(c) /\ Mine(h, c) /\ h2 \in FreeV
  /\ val' = [val EXCEPT ![h2] = val[h]]
  /\ Log([op |-> "dup", c |-> c, h |-> h, h2 |-> h2, exp |-> "handle"])
  /\ UNCHANGED <<ctx, obj, glob, run, exposed>>
\* ------------------------------------------------------------------ inspection (value-only calls: legal on survivors)
Inspect(h) ==
  /\ Can("inspect") /\ Usable(h)
  /\ LET v == val[h].v
         survivor == ctx[val[h].c] # "live"
     IN Log([op |-> "inspect", h |-> h, k |-> v.k, a |-> v.a,
             exp |-> IF survivor /\ IsObjK(v.k) THEN "harmless" ELSE "exact",
             n |-> IF IsObjK(v.k) /\ ~survivor /\ v.k # "fn" THEN Len(obj[v.o].vs) ELSE 0])
  /\ UNCHANGED <<ctx, val, obj, glob, run, exposed>>
InspectNull ==
  /\ Can("null") /\ Log([op |-> "inspect", h |-> 0, k |-> "undef", a |-> "", exp |-> "null-defaults", n |-> 0])
  /\ UNCHANGED <<ctx, val, obj, glob, run, exposed>>
\* ------------------------------------------------------------------ objects and arrays
SetProp(c, ho, key, hv) ==
  /\ Can("object") /\ Live(c) /\ Mine(ho, c) /\ Mine(hv, c)
  /\ LET target == val[ho].v
         v == val[hv].v
         isobj == target.k = "obj"
         fits == isobj /\ Shallow(v) /\ (IsObjK(v.k) => v.o # target.o) /\ (IsObjK(v.k) => v.k # "fn")
                 /\ ((\E p \in 1..Len(obj[target.o].ks) : obj[target.o].ks[p] = key) \/ Len(obj[target.o].ks) < 2)
     IN /\ (isobj => fits)                        \* the model keeps graphs shallow and acyclic
        /\ IF isobj
           THEN LET cur == obj[target.o] IN
                  IF \E p \in 1..Len(cur.ks) : cur.ks[p] = key
                  THEN obj' = [obj EXCEPT ![target.o].vs[CHOOSE p \in 1..Len(cur.ks) : cur.ks[p] = key] = v]
                  ELSE obj' = [obj EXCEPT ![target.o].ks = Append(@, key), ![target.o].vs = Append(@, v)]
           ELSE obj' = obj
        /\ Log([op |-> "set", c |-> c, h |-> ho, key |-> key, hv |-> hv, exp |-> IF IsObjK(target.k) THEN "ok" ELSE "error"])
  /\ UNCHANGED <<ctx, val, glob, run, exposed>>
SetNull(c, ho, which) ==      \* NULL object / NULL value / NULL key / NULL context: reported, nothing changes
  /\ Can("null") /\ Live(c) /\ Mine(ho, c)
  /\ Log([op |-> "setnull", c |-> c, h |-> ho, which |-> which, exp |-> "error"])
  /\ UNCHANGED <<ctx, val, obj, glob, run, exposed>>
GetProp(c, ho, key, h2) ==
  /\ Can("object") /\ Live(c) /\ Mine(ho, c) /\ h2 \in FreeV
  /\ LET target == val[ho].v IN
       IF target.k = "obj"
       THEN LET cur == obj[target.o]
                v == IF \E p \in 1..Len(cur.ks) : cur.ks[p] = key THEN cur.vs[CHOOSE p \in 1..Len(cur.ks) : cur.ks[p] = key] ELSE Prim("undef", "")
            IN /\ val' = [val EXCEPT ![h2] = [st |-> "live", c |-> c, v |-> v]]
               /\ Log([op |-> "get", c |-> c, h |-> ho, key |-> key, h2 |-> h2, exp |-> "value", tree |-> Tree(v, 2)])
       ELSE IF IsObjK(target.k)
       THEN /\ val' = val /\ Log([op |-> "get", c |-> c, h |-> ho, key |-> key, h2 |-> 0, exp |-> "skip", tree |-> Tree(Prim("undef", ""), 0)])   \* arrays/functions: builtin properties, not modelled
       ELSE /\ val' = val /\ Log([op |-> "get", c |-> c, h |-> ho, key |-> key, h2 |-> 0, exp |-> "error", tree |-> Tree(Prim("undef", ""), 0)])
  /\ UNCHANGED <<ctx, obj, glob, run, exposed>>
Push(c, ha, hv) ==
  /\ Can("object") /\ Live(c) /\ Mine(ha, c) /\ Mine(hv, c)
  /\ LET target == val[ha].v
         v == val[hv].v
         isarr == target.k = "arr"
     IN /\ (isarr => (Len(obj[target.o].vs) < 2 /\ Shallow(v) /\ (IsObjK(v.k) => (v.o # target.o /\ v.k # "fn"))))
        /\ obj' = IF isarr THEN [obj EXCEPT ![target.o].vs = Append(@, v)] ELSE obj
        /\ Log([op |-> "push", c |-> c, h |-> ha, hv |-> hv, exp |-> IF isarr THEN "ok" ELSE "error"])
  /\ UNCHANGED <<ctx, val, glob, run, exposed>>
ArrayGet(c, ha, idx, h2) ==
  /\ Can("object") /\ Live(c) /\ Mine(ha, c) /\ h2 \in FreeV /\ val[ha].v.k = "arr" /\ idx \in 0..2
  /\ LET cur == obj[val[ha].v.o]
         v == IF idx < Len(cur.vs) THEN cur.vs[idx + 1] ELSE Prim("undef", "")
     IN /\ val' = [val EXCEPT ![h2] = [st |-> "live", c |-> c, v |-> v]]
        /\ Log([op |-> "aget", c |-> c, h |-> ha, idx |-> idx, h2 |-> h2, exp |-> "value", tree |-> Tree(v, 2)])
  /\ UNCHANGED <<ctx, obj, glob, run, exposed>>
Stringify(c, h) ==
  /\ Can("object") /\ Live(c) /\ Mine(h, c)
  /\ Log([op |-> "stringify", c |-> c, h |-> h, exp |-> "tree", tree |-> Tree(val[h].v, 2)])
  /\ UNCHANGED <<ctx, val, obj, glob, run, exposed>>
Keys(c, h) ==
  /\ Can("object") /\ Live(c) /\ Mine(h, c) /\ val[h].v.k = "obj"
  /\ Log([op |-> "keys", c |-> c, h |-> h, exp |-> obj[val[h].v.o].ks])
  /\ UNCHANGED <<ctx, val, obj, glob, run, exposed>>
\* ------------------------------------------------------------------ collections (hook H6) - no abstract effect
HostRoots(c) == {val[h].v.o : h \in {x \in 1..NV : val[x].st = "live" /\ val[x].c = c /\ IsObjK(val[x].v.k) /\ val[x].v.k # "fn"}}
                  \cup (IF IsObjK(glob[c].k) THEN {glob[c].o} ELSE {})
Kids(S) == S \cup UNION {{obj[o].vs[p].o : p \in {q \in 1..Len(obj[o].vs) : IsObjK(obj[o].vs[q].k)}} : o \in S}
HostReach(c) == Kids(Kids(HostRoots(c)))
Expose(c) == exposed' = [o \in 1..NO |-> exposed[o] \/ (obj[o].t # "none" /\ obj[o].c = c /\ o \notin HostReach(c))]
AgePayload(c) == run' = [run EXCEPT ![c].pay = IF @ = "held" THEN "held-gc" ELSE @]     \* ghost: a collection ran while the payload was held
Collect(c) ==
  /\ Can("gc") /\ Live(c) /\ Log([op |-> "collect", c |-> c]) /\ Expose(c) /\ AgePayload(c)
  /\ UNCHANGED <<ctx, val, obj, glob>>
Churn(c) ==                   \* collect, then allocate and release: recycles whatever slot was freed
  /\ Can("gc") /\ Live(c) /\ Log([op |-> "churn", c |-> c]) /\ Expose(c) /\ AgePayload(c)
  /\ UNCHANGED <<ctx, val, obj, glob>>
\* ------------------------------------------------------------------ globals and scripts
SetGlobal(c, h) ==
  /\ Can("script") /\ Live(c) /\ Mine(h, c)
  /\ glob' = [glob EXCEPT ![c] = val[h].v]
  /\ Log([op |-> "setglobal", c |-> c, h |-> h, exp |-> "ok"])
  /\ UNCHANGED <<ctx, val, obj, run, exposed>>
ReadGlobalByScript(c) ==      \* prepare + run `typeof g === "undefined" ? ... : g` : the script sees what the host put there
  /\ Can("script") /\ Live(c) /\ run[c].ph = "idle"
  /\ Log([op |-> "script-read", c |-> c, exp |-> "tree", tree |-> Tree(glob[c], 2)])
  /\ UNCHANGED <<ctx, val, obj, glob, run, exposed>>
\* ------------------------------------------------------------------ orders: submit, release, collect, resume
StartOrder(c) ==              \* prepare + run a program that issues one order and completes with what it got
  /\ Can("order") /\ Live(c) /\ run[c].ph = "idle"
  /\ run' = [run EXCEPT ![c] = [ph |-> "suspended", resp |-> Prim("undef", ""), pay |-> "none"]]
  /\ Log([op |-> "order-start", c |-> c, exp |-> "suspended"])
  /\ UNCHANGED <<ctx, val, obj, glob, exposed>>
Fulfil(c, h) ==               \* h = 0: NULL value (undefined)
  /\ Can("order") /\ Live(c) /\ run[c].ph = "suspended"
  /\ (h = 0 \/ (Mine(h, c) /\ val[h].v.k # "fn"))
  /\ run' = [run EXCEPT ![c] = [ph |-> "answered", resp |-> IF h = 0 THEN Prim("undef", "") ELSE val[h].v, pay |-> run[c].pay]]
  /\ Log([op |-> "fulfil", c |-> c, h |-> h, exp |-> "ok"])
  /\ UNCHANGED <<ctx, val, obj, glob, exposed>>
FulfilError(c) ==
  /\ Can("order") /\ Live(c) /\ run[c].ph = "suspended"
  /\ run' = [run EXCEPT ![c] = [ph |-> "answered", resp |-> Prim("str", "caught"), pay |-> run[c].pay]]
  /\ Log([op |-> "fulfil-error", c |-> c, exp |-> "ok"])
  /\ UNCHANGED <<ctx, val, obj, glob, exposed>>
Resume(c) ==                  \* run to completion: the completion value is the response as SUBMITTED (contents at resume time)
  /\ Can("order") /\ Live(c) /\ run[c].ph = "answered"
  /\ run' = [run EXCEPT ![c] = [ph |-> "idle", resp |-> Prim("undef", ""), pay |-> "none"]]
  /\ Log([op |-> "resume", c |-> c, exp |-> "tree", tree |-> Tree(run[c].resp, 2)])
  /\ UNCHANGED <<ctx, val, obj, glob, exposed>>
\* ------------------------------------------------------------------ native callbacks that re-enter the API
NativeVariants == {"new-number", "new-object", "dup-arg", "null", "error", "reenter-get", "reenter-call", "return-arg", "return-this"}
\* an order created by a native callback (tsrun_create_pending_order): the callback builds the payload, releases its own
\* handle and returns the marker; the payload belongs to the context while the order is pending and the host reads it
\* from the step result - also after collections
NativeOrder(c) ==
  /\ Can("native") /\ Live(c) /\ run[c].ph = "idle"
  /\ run' = [run EXCEPT ![c] = [ph |-> "suspended", resp |-> Prim("undef", ""), pay |-> "held"]]
  /\ Log([op |-> "native-order", c |-> c, exp |-> "suspended"])
  /\ UNCHANGED <<ctx, val, obj, glob, exposed>>
ReadPayload(c) ==
  /\ Can("native") /\ Live(c) /\ run[c].pay # "none" /\ run[c].ph \in {"suspended", "answered"}
  /\ Log([op |-> "read-payload", c |-> c, exp |-> "tree"])
  /\ UNCHANGED <<ctx, val, obj, glob, run, exposed>>
CallNative(c, variant) ==     \* the script calls a host function with (number, object); the callback uses the API and returns
  /\ Can("native") /\ Live(c) /\ run[c].ph = "idle"
  /\ variant \in NativeVariants
  /\ Log([op |-> "native", c |-> c, variant |-> variant, exp |-> "by-variant"])
  /\ UNCHANGED <<ctx, val, obj, glob, run, exposed>>

Init ==
  /\ ctx = [c \in 1..NC |-> "none"] /\ val = [h \in 1..NV |-> NoVal] /\ obj = [o \in 1..NO |-> NoObj]
  /\ glob = [c \in 1..NC |-> Prim("undef", "")] /\ run = [c \in 1..NC |-> [ph |-> "idle", resp |-> Prim("undef", ""), pay |-> "none"]]
  /\ exposed = [o \in 1..NO |-> FALSE] /\ hist = <<>> /\ len = 0
Next ==
  \/ \E c \in 1..NC : NewCtx(c) \/ FreeCtx(c) \/ Collect(c) \/ Churn(c) \/ ReadGlobalByScript(c) \/ StartOrder(c) \/ FulfilError(c) \/ Resume(c)
  \/ \E c \in 1..NC, h \in 1..NV, v \in PrimPool : MkPrim(c, h, v)
  \/ \E v \in {Prim("num", "n1"), Prim("str", "s1")} : MkPrimNullCtx(v)
  \/ \E c \in 1..NC, h \in 1..NV, t \in {"obj", "arr"} : MkObj(c, h, t)
  \/ \E h \in 1..NV : FreeVal(h) \/ Recycle(h) \/ Inspect(h)
  \/ InspectNull
  \/ \E c \in 1..NC, h \in 1..NV, h2 \in 1..NV : Dup(c, h, h2)
  \/ \E c \in 1..NC, ho \in 1..NV, hv \in 1..NV, k \in KeyPool : SetProp(c, ho, k, hv)
  \/ \E c \in 1..NC, ho \in 1..NV, w \in {"object", "value", "key", "context"} : SetNull(c, ho, w)
  \/ \E c \in 1..NC, ho \in 1..NV, h2 \in 1..NV, k \in KeyPool : GetProp(c, ho, k, h2)
  \/ \E c \in 1..NC, ha \in 1..NV, hv \in 1..NV : Push(c, ha, hv)
  \/ \E c \in 1..NC, ha \in 1..NV, h2 \in 1..NV, i \in 0..2 : ArrayGet(c, ha, i, h2)
  \/ \E c \in 1..NC, h \in 1..NV : Stringify(c, h) \/ Keys(c, h) \/ SetGlobal(c, h)
  \/ \E c \in 1..NC, h \in 0..NV : Fulfil(c, h)
  \/ \E c \in 1..NC, v \in NativeVariants : CallNative(c, v)
  \/ \E c \in 1..NC : NativeOrder(c) \/ ReadPayload(c)
Spec == Init /\ [][Next]_vars

\* ------------------------------------------------------------------ invariants of the design
HandlesRooted ==       \* the referent of a live handle of a live context is in the store
  \A h \in 1..NV : (val[h].st = "live" /\ ctx[val[h].c] = "live" /\ IsObjK(val[h].v.k) /\ val[h].v.k # "fn")
                      => (obj[val[h].v.o].t = val[h].v.k /\ obj[val[h].v.o].c = val[h].c)
NoForeignEdges ==      \* the model never links objects of different contexts
  \A o \in 1..NO : obj[o].t # "none" => \A p \in 1..Len(obj[o].vs) : IsObjK(obj[o].vs[p].k) => obj[obj[o].vs[p].o].c = obj[o].c
ResponsesRooted ==     \* what was submitted is still there when the script resumes, whatever the host released meanwhile
  \A c \in 1..NC : (ctx[c] = "live" /\ run[c].ph = "answered" /\ IsObjK(run[c].resp.k)) => obj[run[c].resp.o].t = run[c].resp.k
WellFormed == \A h \in 1..NV : (val[h].st = "live" /\ IsObjK(val[h].v.k)) => val[h].v.o \in 1..NO
SurvivorsOnlyOfFreed == \A h \in 1..NV : val[h].st = "live" => ctx[val[h].c] \in {"live", "freed"}
Emit == (Emitting /\ len > 0) => PrintT(<<"F", ToJson([hist |-> hist])>>)
=============================================================================
