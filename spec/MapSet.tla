------------------------------- MODULE MapSet -------------------------------
(* Map and Set as ECMA-262 specifies them (24.1, 24.2): an ordered list of entries.  `set` on a present key
   keeps its position, `delete` leaves an empty slot, `set` on an absent key appends; keys are compared with
   SameValueZero (NaN equals NaN, -0 is normalised to +0 when it is stored).  An iteration walks the entry
   list by index, so it skips entries deleted before it reaches them and visits entries appended while it
   runs.  A Set is the same list without values.

   State: the entry list and the history of calls with the result each call has to produce.  Every
   behaviour of at most MaxLen calls is replayed on the real interpreter (one line per behaviour is
   printed when it is complete); longer histories come from simulation.

   Keys are integers: 0 (+0), NEG0, 1, STR1 ("1"), KNAN (NaN), STRA ("a").  Values are small integers. *)
EXTENDS Integers, Sequences, FiniteSets, TLC, Json

CONSTANTS MaxLen, Emitting

NEG0 == 100  STR1 == 101  KNAN == 102  STRA == 103
Keys == {0, NEG0, 1, STR1, KNAN, STRA}
Norm(k) == IF k = NEG0 THEN 0 ELSE k              \* SameValueZero classes; -0 is stored as +0
Vals == {7, 8}

VARIABLES es,      \* entry list: [k, v, live]
          hist,    \* calls so far, each with its expected result
          isset    \* TRUE: the object is a Set (values ignored)
vars == <<es, hist, isset>>

Live(e) == {i \in 1..Len(e) : e[i].live}
Find(e, k) == IF \E i \in Live(e) : e[i].k = Norm(k) THEN CHOOSE i \in Live(e) : e[i].k = Norm(k) ELSE 0
SetE(e, k, v) == LET i == Find(e, k) IN IF i > 0 THEN [e EXCEPT ![i].v = v] ELSE Append(e, [k |-> Norm(k), v |-> v, live |-> TRUE])
DelE(e, k) == LET i == Find(e, k) IN IF i > 0 THEN [e EXCEPT ![i].live = FALSE] ELSE e
ClearE(e) == [i \in 1..Len(e) |-> [e[i] EXCEPT !.live = FALSE]]
KeysOf(e) == LET idx == SelectSeq([i \in 1..Len(e) |-> i], LAMBDA i : e[i].live) IN [j \in 1..Len(idx) |-> e[idx[j]].k]
ValsOf(e) == LET idx == SelectSeq([i \in 1..Len(e) |-> i], LAMBDA i : e[i].live) IN [j \in 1..Len(idx) |-> e[idx[j]].v]
Size(e) == Cardinality(Live(e))

\* an iteration with a mutation script: when the n-th entry is visited the call `mut` is made on the collection
\* mut: [op |-> "none" | "set" | "delete" | "clear", k, v];  returns the visited keys and the final list
RECURSIVE Walk(_, _, _, _, _, _)
Walk(e, i, n, at, mut, seen) ==
  IF i > Len(e) THEN [seen |-> seen, e |-> e]
  ELSE IF ~e[i].live THEN Walk(e, i + 1, n, at, mut, seen)
  ELSE LET e2 == IF n = at THEN (CASE mut.op = "set" -> SetE(e, mut.k, mut.v) [] mut.op = "delete" -> DelE(e, mut.k)
                                   [] mut.op = "clear" -> ClearE(e) [] OTHER -> e) ELSE e
       IN Walk(e2, i + 1, n + 1, at, mut, Append(seen, e[i].k))

Muts == [op : {"set"}, k : {0, 1, STRA}, v : {9}] \cup [op : {"delete"}, k : {0, 1, STRA}, v : {0}] \cup [op : {"clear"}, k : {0}, v : {0}]

Init == es = <<>> /\ hist = <<>> /\ isset \in BOOLEAN

Rec(op, k, v, r) == [op |-> op, k |-> k, v |-> v, r |-> r]
DoSet == \E k \in Keys, v \in Vals : es' = SetE(es, k, v) /\ hist' = Append(hist, Rec("set", k, v, <<Size(SetE(es, k, v))>>))
DoDelete == \E k \in Keys : es' = DelE(es, k) /\ hist' = Append(hist, Rec("delete", k, 0, <<IF Find(es, k) > 0 THEN 1 ELSE 0>>))
DoHas == \E k \in Keys : UNCHANGED es /\ hist' = Append(hist, Rec("has", k, 0, <<IF Find(es, k) > 0 THEN 1 ELSE 0>>))
DoGet == ~isset /\ \E k \in Keys : UNCHANGED es /\ hist' = Append(hist, Rec("get", k, 0, IF Find(es, k) > 0 THEN <<es[Find(es, k)].v>> ELSE <<>>))
DoClear == es' = ClearE(es) /\ hist' = Append(hist, Rec("clear", 0, 0, <<0>>))
DoKeys == UNCHANGED es /\ hist' = Append(hist, Rec("keys", 0, 0, KeysOf(es) \o (IF isset THEN <<>> ELSE ValsOf(es))))
DoIter == \E at \in 1..2, m \in Muts :
            LET w == Walk(es, 1, 1, at, m, <<>>) IN
            \* rsnap: what an implementation visits that walks a SNAPSHOT of the keys taken when the iteration starts
            \* (a known deviation, modelled so that exactly this result - and nothing else - is attributed to it)
            es' = w.e /\ hist' = Append(hist, [op |-> "iter", k |-> m.k, v |-> m.v, r |-> w.seen, at |-> at, mop |-> m.op, rsnap |-> KeysOf(es)])

Next == Len(hist) < MaxLen /\ UNCHANGED isset /\ (DoSet \/ DoDelete \/ DoHas \/ DoGet \/ DoClear \/ DoKeys \/ DoIter)
Spec == Init /\ [][Next]_vars

\* ---- properties of the specification
LiveKeysDistinct == \A i, j \in Live(es) : es[i].k = es[j].k => i = j
NoNegZeroStored == \A i \in 1..Len(es) : es[i].k # NEG0
SizeIsLive == Size(es) = Len(KeysOf(es))

\* a behaviour is emitted when it is complete (the entry list is determined by the history, so the history is the VIEW)
View == <<hist, isset>>
Emit == (Emitting /\ Len(hist) = MaxLen) => PrintT(<<"S", ToJson([set |-> isset, hist |-> hist, final |-> KeysOf(es)])>>)
=============================================================================
