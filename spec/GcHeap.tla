---- MODULE GcHeap ----
(***************************************************************************)
(* C13.  The guard-based mark/sweep heap of src/gc.rs, one action per      *)
(* public call of Heap / Guard / Gc.                                        *)
(*                                                                         *)
(* The model follows the code, not an ideal collector:                     *)
(*   - slots carry pooled / ref_count / contents / generation;             *)
(*   - Guard::alloc gives ref_count 2 (the returned handle + the root);    *)
(*     Guard::guard(h) adds a root WITHOUT a count (the passed handle is   *)
(*     consumed);                                                          *)
(*   - Gc::drop decrements and pools EAGERLY at zero (DropList);           *)
(*   - the free list is a stack; sweep resets dead slots in index order;   *)
(*   - auto-collection runs BEFORE the allocation when net_allocs reaches  *)
(*     the threshold;                                                      *)
(*   - unguard removes the first root with the same slot by swap_remove.   *)
(* CheckGen = TRUE models the generation check in Gc::drop/clone/guard     *)
(* (stale handles of a reused slot are inert); CheckGen = FALSE is the     *)
(* pinned tree before the "fix:" commit, where TLC finds the stale-drop    *)
(* counterexample of DESIGN.md C13 in 7 calls.                             *)
(*                                                                         *)
(* Ghost state (gval, grefs) records what a correct heap holds for the     *)
(* current tenant of each slot; the invariants compare the code-level      *)
(* state with it over GHOST reachability, so they are not vacuous.         *)
(***************************************************************************)
EXTENDS Integers, Sequences, FiniteSets, TLC, Json
CONSTANTS NG, NS, NH,        \* guards, slots, host handles
          MaxDepth,          \* number of API calls per behaviour
          CheckGen,          \* generation check present (the code after the fix)
          Thresholds,        \* values set_gc_threshold may take
          Emitting           \* print one replay line per behaviour of length MaxDepth
Guards  == 1..NG
Slots   == 1..NS
Handles == 1..NH
Vals    == 1..2
NONE    == 0

VARIABLES
  alive,       \* the Heap (Space) still exists
  nslots,      \* number of slots ever created
  pooled,      \* [Slots -> BOOLEAN]
  rc,          \* [Slots -> Nat]       ref_count
  gen,         \* [Slots -> Nat]       generation of the current tenant
  val,         \* [Slots -> Nat]       payload
  refs,        \* [Slots -> Seq(<<slot, gen>>)]  handles stored inside the object
  free,        \* Seq(Slots), a stack: top = last
  galive,      \* [Guards -> BOOLEAN]
  roots,       \* [Guards -> Seq(Slots)]
  hslot, hgen, halive,   \* host handles
  net, thr,    \* net_allocs, gc_threshold
  gval, grefs, \* ghost contents of the current tenant
  jc,          \* the last call was collect()
  depth, hist
core == <<alive, nslots, pooled, rc, gen, val, refs, free, galive, roots, hslot, hgen, halive, net, thr, gval, grefs, jc>>
vars == <<core, depth, hist>>
View == <<core, depth>>           \* the history is not part of the fingerprint

Init ==
  /\ alive = TRUE /\ nslots = 0
  /\ pooled = [s \in Slots |-> FALSE] /\ rc = [s \in Slots |-> 0]
  /\ gen = [s \in Slots |-> 0] /\ val = [s \in Slots |-> 0] /\ refs = [s \in Slots |-> <<>>]
  /\ free = <<>> /\ galive = [g \in Guards |-> FALSE] /\ roots = [g \in Guards |-> <<>>]
  /\ hslot = [h \in Handles |-> NONE] /\ hgen = [h \in Handles |-> 0] /\ halive = [h \in Handles |-> FALSE]
  /\ net = 0 /\ thr = 0
  /\ gval = [s \in Slots |-> 0] /\ grefs = [s \in Slots |-> <<>>]
  /\ jc = FALSE /\ depth = 0 /\ hist = <<>>

Range(f) == { f[i] : i \in 1..Len(f) }
RootSet == UNION { Range(roots[g]) : g \in { x \in Guards : galive[x] } }

\* ---- mark: reachability as the collector computes it (pooled slots are skipped)
RECURSIVE ReachFrom(_, _, _)
ReachFrom(st, frontier, seen) ==
  IF frontier = {} THEN seen
  ELSE LET s    == CHOOSE x \in frontier : TRUE
           kids == { st.refs[s][i][1] : i \in 1..Len(st.refs[s]) }
           new  == { k \in kids : k \notin seen /\ ~st.pooled[k] }
       IN ReachFrom(st, (frontier \ {s}) \cup new, seen \cup new)
Marked(st) == LET r0 == { s \in RootSet : ~st.pooled[s] } IN ReachFrom(st, r0, r0)

\* ---- Gc::drop for a list of handles <<slot, generation>>, sequentially.
\* inGc: the Space is mutably borrowed (sweep in progress) - the eager pooling is skipped.
RECURSIVE DropList(_, _, _)
DropList(hs, st, inGc) ==
  IF hs = <<>> THEN st
  ELSE LET s == hs[1][1]  g == hs[1][2] IN
    IF st.pooled[s] \/ (CheckGen /\ st.gen[s] # g) THEN DropList(Tail(hs), st, inGc)
    ELSE LET c == IF st.rc[s] > 0 THEN st.rc[s] - 1 ELSE 0 IN
      IF c = 0 /\ ~inGc THEN
         \* reset (drops the stored handles, recursively), then pool
         LET st1 == [st EXCEPT !.rc[s] = 0, !.val[s] = 0, !.refs[s] = <<>>, !.pooled[s] = TRUE,
                                !.free = Append(st.free, s), !.net = st.net - 1]
         IN DropList(st.refs[s] \o Tail(hs), st1, inGc)
      ELSE DropList(Tail(hs), [st EXCEPT !.rc[s] = c], inGc)

St == [pooled |-> pooled, rc |-> rc, val |-> val, refs |-> refs, free |-> free, net |-> net, gen |-> gen]
Apply(st) == /\ pooled' = st.pooled /\ rc' = st.rc /\ val' = st.val /\ refs' = st.refs
             /\ free' = st.free /\ net' = st.net

Min(S) == CHOOSE x \in S : \A y \in S : x <= y
\* ---- collect = mark; sweep (pass 1: reset dead slots in index order, count := 0; pass 2: pool them); net := 0
RECURSIVE SweepReset(_, _)
SweepReset(ds, s0) ==
  IF ds = {} THEN s0
  ELSE LET d  == Min(ds)
           s1 == DropList(s0.refs[d], [s0 EXCEPT !.refs[d] = <<>>, !.val[d] = 0], TRUE)
       IN SweepReset(ds \ {d}, [s1 EXCEPT !.rc[d] = 0])
RECURSIVE PoolAll(_, _)
PoolAll(ds, s0) ==
  IF ds = {} THEN s0
  ELSE LET d == Min(ds) IN
       IF s0.pooled[d] THEN PoolAll(ds \ {d}, s0)
       ELSE PoolAll(ds \ {d}, [s0 EXCEPT !.pooled[d] = TRUE, !.free = Append(s0.free, d), !.net = s0.net - 1])
CollectSt(st) ==
  LET live == Marked(st)
      dead == { s \in 1..nslots : ~st.pooled[s] /\ s \notin live }
  IN [PoolAll(dead, SweepReset(dead, st)) EXCEPT !.net = 0]

\* ---- observation returned to the harness after every call
Current(h) == halive[h] /\ alive /\ ~pooled[hslot[h]] /\ gen[hslot[h]] = hgen[h]
\* compact: <<live, total, pooled, <<len of each guard | -1>>, << <<ok, val, nrefs, slot>> per handle >> >>
ObsOf(al, ns, po, ge, va, re, fr, hs, hg, ha, ro, ga) ==
  << IF al THEN ns - Len(fr) ELSE -1,
     IF al THEN ns ELSE -1,
     IF al THEN Len(fr) ELSE -1,
     [g \in Guards |-> IF ga[g] THEN Len(ro[g]) ELSE -1],
     [h \in Handles |->
         IF ha[h] /\ al /\ ~po[hs[h]] /\ ge[hs[h]] = hg[h]
         THEN <<1, va[hs[h]], Len(re[hs[h]]), hs[h]>>
         ELSE <<0, 0, 0, 0>>] >>
ObsNext == ObsOf(alive', nslots', pooled', gen', val', refs', free', hslot', hgen', halive', roots', galive')

Tick == depth < MaxDepth /\ depth' = depth + 1 /\ jc' = FALSE
H(e) == hist' = IF Emitting THEN Append(hist, e @@ [obs |-> ObsNext]) ELSE hist

\* ---- the API
CreateGuard(g) ==
  /\ alive /\ ~galive[g]
  /\ galive' = [galive EXCEPT ![g] = TRUE] /\ roots' = [roots EXCEPT ![g] = <<>>]
  /\ UNCHANGED <<alive, nslots, pooled, rc, gen, val, refs, free, hslot, hgen, halive, net, thr, gval, grefs>>
  /\ Tick /\ H([op |-> "create_guard", g |-> g])
DropGuard(g) ==
  /\ galive[g]
  /\ galive' = [galive EXCEPT ![g] = FALSE] /\ roots' = [roots EXCEPT ![g] = <<>>]
  /\ UNCHANGED <<alive, nslots, pooled, rc, gen, val, refs, free, hslot, hgen, halive, net, thr, gval, grefs>>
  /\ Tick /\ H([op |-> "drop_guard", g |-> g])
ClearGuard(g) ==
  /\ galive[g]
  /\ roots' = [roots EXCEPT ![g] = <<>>]
  /\ UNCHANGED <<alive, nslots, pooled, rc, gen, val, refs, free, galive, hslot, hgen, halive, net, thr, gval, grefs>>
  /\ Tick /\ H([op |-> "clear", g |-> g])

Alloc(g, h) ==
  /\ alive /\ galive[g] /\ ~halive[h]
  /\ LET st0 == [St EXCEPT !.net = net + 1]
         st1 == IF thr > 0 /\ st0.net >= thr THEN CollectSt(st0) ELSE st0
     IN IF st1.free # <<>> THEN
          LET s == st1.free[Len(st1.free)] IN
          /\ Apply([st1 EXCEPT !.free = SubSeq(st1.free, 1, Len(st1.free) - 1), !.pooled[s] = FALSE,
                               !.rc[s] = 2, !.val[s] = 0, !.refs[s] = <<>>])
          /\ gen' = [gen EXCEPT ![s] = gen[s] + 1]
          /\ hslot' = [hslot EXCEPT ![h] = s] /\ hgen' = [hgen EXCEPT ![h] = gen[s] + 1]
          /\ halive' = [halive EXCEPT ![h] = TRUE]
          /\ roots' = [roots EXCEPT ![g] = Append(roots[g], s)]
          /\ gval' = [gval EXCEPT ![s] = 0] /\ grefs' = [grefs EXCEPT ![s] = <<>>]
          /\ UNCHANGED nslots
        ELSE
          /\ nslots < NS
          /\ LET s == nslots + 1 IN
             /\ nslots' = s
             /\ Apply([st1 EXCEPT !.rc[s] = 2])
             /\ gen' = [gen EXCEPT ![s] = 1]
             /\ hslot' = [hslot EXCEPT ![h] = s] /\ hgen' = [hgen EXCEPT ![h] = 1]
             /\ halive' = [halive EXCEPT ![h] = TRUE]
             /\ roots' = [roots EXCEPT ![g] = Append(roots[g], s)]
             /\ gval' = [gval EXCEPT ![s] = 0] /\ grefs' = [grefs EXCEPT ![s] = <<>>]
  /\ UNCHANGED <<alive, galive, thr>> /\ Tick /\ H([op |-> "alloc", g |-> g, h |-> h])

CloneH(h, h2) ==
  /\ halive[h] /\ ~halive[h2]
  /\ rc' = IF alive /\ ~pooled[hslot[h]] /\ (~CheckGen \/ gen[hslot[h]] = hgen[h])
           THEN [rc EXCEPT ![hslot[h]] = @ + 1] ELSE rc
  /\ hslot' = [hslot EXCEPT ![h2] = hslot[h]] /\ hgen' = [hgen EXCEPT ![h2] = hgen[h]]
  /\ halive' = [halive EXCEPT ![h2] = TRUE]
  /\ UNCHANGED <<alive, nslots, pooled, gen, val, refs, free, galive, roots, net, thr, gval, grefs>>
  /\ Tick /\ H([op |-> "clone", h |-> h, h2 |-> h2])
DropH(h) ==
  /\ halive[h]
  /\ IF alive THEN Apply(DropList(<< <<hslot[h], hgen[h]>> >>, St, FALSE))
              ELSE UNCHANGED <<pooled, rc, val, refs, free, net>>
  /\ halive' = [halive EXCEPT ![h] = FALSE]
  /\ UNCHANGED <<alive, nslots, gen, galive, roots, hslot, hgen, thr, gval, grefs>>
  /\ Tick /\ H([op |-> "drop", h |-> h])
\* guard(h.clone()): the clone's increment is undone when guard() consumes it; a root is added
\* only for a handle that is not pooled (and, with the generation check, not stale)
GuardH(g, h) ==
  /\ galive[g] /\ halive[h]
  /\ roots' = IF alive /\ ~pooled[hslot[h]] /\ (~CheckGen \/ gen[hslot[h]] = hgen[h])
              THEN [roots EXCEPT ![g] = Append(roots[g], hslot[h])] ELSE roots
  /\ \/ Current(h)
     \/ ~alive
     \/ pooled[hslot[h]]
     \/ CheckGen          \* a stale guard() is inert with the generation check; without it the
                          \* temporary clone would perturb counts - the harness does not issue it
  /\ UNCHANGED <<alive, nslots, pooled, rc, gen, val, refs, free, galive, hslot, hgen, halive, net, thr, gval, grefs>>
  /\ Tick /\ H([op |-> "guard", g |-> g, h |-> h])
Unguard(g, h) ==
  /\ galive[g] /\ halive[h]
  /\ UNCHANGED <<alive, nslots, pooled, rc, gen, val, refs, free, galive, hslot, hgen, halive, net, thr, gval, grefs>>
  /\ Tick
  /\ LET r == roots[g] IN
     IF \E i \in 1..Len(r) : r[i] = hslot[h] THEN
        LET i  == CHOOSE i \in 1..Len(r) : r[i] = hslot[h] /\ \A j \in 1..(i - 1) : r[j] # hslot[h]
            sw == [r EXCEPT ![i] = r[Len(r)]]
        IN /\ roots' = [roots EXCEPT ![g] = SubSeq(sw, 1, Len(r) - 1)]
           /\ H([op |-> "unguard", g |-> g, h |-> h, ret |-> TRUE])
     ELSE /\ roots' = roots
          /\ H([op |-> "unguard", g |-> g, h |-> h, ret |-> FALSE])
WriteH(h, v) ==
  /\ Current(h)
  /\ val' = [val EXCEPT ![hslot[h]] = v] /\ gval' = [gval EXCEPT ![hslot[h]] = v]
  /\ UNCHANGED <<alive, nslots, pooled, rc, gen, refs, free, galive, roots, hslot, hgen, halive, net, thr, grefs>>
  /\ Tick /\ H([op |-> "write", h |-> h, v |-> v])
Link(h, h2) ==
  /\ Current(h) /\ Current(h2) /\ Len(refs[hslot[h]]) < 2
  /\ refs'  = [refs  EXCEPT ![hslot[h]] = Append(@, <<hslot[h2], hgen[h2]>>)]
  /\ grefs' = [grefs EXCEPT ![hslot[h]] = Append(@, <<hslot[h2], hgen[h2]>>)]
  /\ rc' = [rc EXCEPT ![hslot[h2]] = @ + 1]
  /\ UNCHANGED <<alive, nslots, pooled, gen, val, free, galive, roots, hslot, hgen, halive, net, thr, gval>>
  /\ Tick /\ H([op |-> "link", h |-> h, h2 |-> h2])
Unlink(h) ==
  /\ Current(h) /\ Len(refs[hslot[h]]) > 0
  /\ LET s == hslot[h]  st0 == [St EXCEPT !.refs[s] = <<>>] IN Apply(DropList(refs[s], st0, FALSE))
  /\ grefs' = [grefs EXCEPT ![hslot[h]] = <<>>]
  /\ UNCHANGED <<alive, nslots, gen, galive, roots, hslot, hgen, halive, thr, gval>>
  /\ Tick /\ H([op |-> "unlink", h |-> h])
Collect ==
  /\ alive
  /\ Apply(CollectSt(St))
  /\ UNCHANGED <<alive, nslots, gen, galive, roots, hslot, hgen, halive, thr, gval, grefs>>
  /\ depth < MaxDepth /\ depth' = depth + 1 /\ jc' = TRUE /\ H([op |-> "collect"])
SetThreshold(t) ==
  /\ alive /\ thr # t
  /\ thr' = t
  /\ UNCHANGED <<alive, nslots, pooled, rc, gen, val, refs, free, galive, roots, hslot, hgen, halive, net, gval, grefs>>
  /\ Tick /\ H([op |-> "set_threshold", n |-> t])
\* dropping the Heap while guards and handles remain: every slot is marked pooled and the memory is
\* released; afterwards only clone/drop of handles and guard/unguard/clear/drop of guards are legal.
DropHeap ==
  /\ alive /\ nslots > 0
  /\ alive' = FALSE
  /\ pooled' = [s \in Slots |-> TRUE]
  /\ UNCHANGED <<nslots, rc, gen, val, refs, free, galive, roots, hslot, hgen, halive, net, thr, gval, grefs>>
  /\ Tick /\ H([op |-> "drop_heap"])

Next == \/ \E g \in Guards : CreateGuard(g) \/ DropGuard(g) \/ (galive[g] /\ Len(roots[g]) > 0 /\ ClearGuard(g))
        \/ \E g \in Guards, h \in Handles : Alloc(g, h) \/ GuardH(g, h) \/ Unguard(g, h)
        \/ \E h \in Handles, h2 \in Handles : CloneH(h, h2) \/ Link(h, h2)
        \/ \E h \in Handles : DropH(h) \/ Unlink(h) \/ \E v \in Vals : Current(h) /\ val[hslot[h]] # v /\ WriteH(h, v)
        \/ Collect
        \/ \E t \in Thresholds : SetThreshold(t)
        \/ DropHeap
Spec == Init /\ [][Next]_vars

\* ---- invariants, over ghost reachability from live roots
RECURSIVE GReachFrom(_, _)
GReachFrom(frontier, seen) ==
  IF frontier = {} THEN seen
  ELSE LET s    == CHOOSE x \in frontier : TRUE
           kids == { grefs[s][i][1] : i \in 1..Len(grefs[s]) }
           new  == { k \in kids : k \notin seen }
       IN GReachFrom((frontier \ {s}) \cup new, seen \cup new)
GhostReach == GReachFrom(RootSet, RootSet)

\* an object keeps its contents for as long as it is reachable from a live guard
ReachableIntact == alive => \A s \in GhostReach : ~pooled[s] /\ val[s] = gval[s] /\ refs[s] = grefs[s]
\* a slot is handed out to one tenant at a time
NoDoubleTenancy == /\ \A i, j \in 1..Len(free) : i # j => free[i] # free[j]
                   /\ alive => \A i \in 1..Len(free) : pooled[free[i]]
                   /\ alive => \A s \in 1..nslots : pooled[s] => \E i \in 1..Len(free) : free[i] = s
\* live objects are never counted out, statistics agree with the slot table
StatsAgree == alive => Cardinality({ s \in 1..nslots : ~pooled[s] }) = nslots - Len(free)
\* right after a collection exactly the objects reachable from live guards are live
ExactAfterCollect ==
  (alive /\ jc) =>
      { s \in 1..nslots : ~pooled[s] } = GhostReach
\* pooled slots are reset
PooledAreReset == alive => \A s \in 1..nslots : pooled[s] => val[s] = 0 /\ refs[s] = <<>>

EmitBehaviour == (Emitting /\ depth = MaxDepth) => PrintT(<<"B", ToJson([hist |-> hist])>>)
====
