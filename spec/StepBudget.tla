---- MODULE StepBudget ----
(***************************************************************************)
(* C06.  How much work one host step() may do.                              *)
(* A program is a composition of call-path kinds: path[1]'s body invokes    *)
(* path[2], ..., the innermost body is a loop of N iterations.  Each kind   *)
(* is either TRAMPOLINED (the call pushes a frame on the VM's explicit      *)
(* stack and returns to the host loop: one instruction per step) or         *)
(* RE-ENTRANT (the callee is run to completion by a nested BytecodeVM::run  *)
(* on the native stack, inside the caller's step).  The table below is the  *)
(* code as it is today; every re-entrant row is a deviation from the        *)
(* property and is recorded as a known finding.                             *)
(*                                                                         *)
(* The machine counts, per host step, the instructions executed (instr)     *)
(* and the nested-run depth (native).  Property: at every step boundary     *)
(* native = 0 and instr <= Budget, for every N.                             *)
(***************************************************************************)
EXTENDS Integers, Sequences, FiniteSets, TLC, Json
CONSTANTS MaxPath, Ns, Emitting
Trampolined == {"plain", "method", "ctor", "bound", "arrow", "asyncCall", "defaultParam", "fieldInit", "superCtor", "staticBlock"}
Reentrant   == {"getter", "setter", "valueOf", "toString", "forEach", "map", "sort", "reduce", "replace", "arrayFrom",
                "mapForEach", "genNext", "forOfGen", "promiseThen", "tagged", "proxyGet", "reflectApply", "fnCall", "fnApply"}
Kinds == Trampolined \cup Reentrant
Budget == 8          \* instructions one step may execute on a trampolined path (1 today; small slack for call set-up)

VARIABLES path, n,        \* scenario
          pos,            \* how deep the execution is in the path (0 = top level, Len(path)+1 = inside the loop)
          iter,           \* loop iterations done
          native,         \* nested-run depth
          instr,          \* instructions executed in the current host step
          maxInstr, maxNative, phase
vars == <<path, n, pos, iter, native, instr, maxInstr, maxNative, phase>>
RECURSIVE PathsOfLen(_)
PathsOfLen(k) == IF k = 0 THEN {<<>>} ELSE { Append(p, x) : p \in PathsOfLen(k - 1), x \in Kinds }
Paths == UNION { PathsOfLen(k) : k \in 1..MaxPath }
Init == /\ path \in Paths /\ n \in Ns /\ pos = 0 /\ iter = 0 /\ native = 0 /\ instr = 0
        /\ maxInstr = 0 /\ maxNative = 0 /\ phase = "run"
Max(a, b) == IF a > b THEN a ELSE b
\* the host's step() returns after ONE instruction unless a nested run is active
StepBoundary == native = 0
Tick(k) == /\ instr' = IF StepBoundary THEN 1 ELSE instr + k
           /\ maxInstr' = Max(maxInstr, IF StepBoundary THEN Max(instr, 1) ELSE instr + k)
\* enter the next call-path kind
Enter == /\ phase = "run" /\ pos < Len(path)
         /\ pos' = pos + 1
         /\ native' = IF path[pos + 1] \in Reentrant THEN native + 1 ELSE native
         /\ maxNative' = Max(maxNative, native')
         /\ Tick(1) /\ UNCHANGED <<path, n, iter, phase>>
\* the innermost loop, abstracted: the remaining iterations are executed in one transition when a nested run is active
\* (they all belong to the same host step), one per transition otherwise
Loop == /\ phase = "run" /\ pos = Len(path) /\ iter < n
        /\ IF native > 0 THEN iter' = n /\ Tick(n - iter) ELSE iter' = iter + 1 /\ Tick(1)
        /\ UNCHANGED <<path, n, pos, native, maxNative, phase>>
Finish == /\ phase = "run" /\ pos = Len(path) /\ iter = n
          /\ phase' = "done" /\ native' = 0 /\ instr' = 0
          /\ maxInstr' = Max(maxInstr, instr)
          /\ UNCHANGED <<path, n, pos, iter, maxNative>>
Next == Enter \/ Loop \/ Finish
Spec == Init /\ [][Next]_vars
\* ---- the property, and the prediction replayed on the real interpreter
AllTrampolined(p) == \A i \in 1..Len(p) : p[i] \in Trampolined
BoundedStep == phase = "done" => (maxInstr <= Budget /\ maxNative = 0)
\* the property holds exactly on the paths without a re-entrant kind
PropertyIffTrampolined == phase = "done" => ((maxInstr <= Budget /\ maxNative = 0) <=> AllTrampolined(path) \/ n <= Budget)
Emit == (Emitting /\ phase = "done") => PrintT(<<"S", ToJson([path |-> path, n |-> n, maxInstr |-> maxInstr, maxNative |-> maxNative])>>)
====
