------------------------------- MODULE JSLib -------------------------------
(* Index arithmetic of the array and string built-ins, transcribed from ECMA-262 (2023), sections 23.1.3 and 22.1.3.
   One case = one call  receiver.method(args)  on a small receiver; the specification computes the prescribed result
   (value, mutated receiver, or error class).  TLC enumerates every case of the configured families - each case is an
   initial state, the invariant Emit prints it with its result - and the conformance step evaluates the same call on the
   real interpreter (and on the reference engine, which validates this transcription).

   Encoding (everything is an integer, TLC cannot compare mixed types):
     argument values : UNDEF NAN PINF NINF, otherwise h = 2 * value  (so 3 is 1.5 and -1 is -0.5)
     array elements  : ENAN (NaN), EUNDEF (undefined), otherwise a small integer
     strings         : sequences of code units
   "absent" arguments are simply not in the args tuple: several methods distinguish f() from f(undefined). *)
EXTENDS Integers, Sequences, FiniteSets, TLC, Json

CONSTANTS ArgVals,        \* the argument pool (encoded as above)
          Families        \* which method families to enumerate

UNDEF == 9001  NAN == 9002  PINF == 9003  NINF == 9004  NZERO == 9005      \* NZERO (-0) only occurs in the Math family
ENAN == -1000  EUNDEF == -1001
INF == 100000              \* larger than every length in the model

\* argument pools (2 * value): quick = -5 -1.5 -1 0 0.5 1 1.5 2 4 ; full adds -7 -3 -2 -0.5 3 5 7
ArgsQuick == {UNDEF, NAN, PINF, NINF, -10, -3, -2, 0, 1, 2, 3, 4, 8}
ArgsFull == {UNDEF, NAN, PINF, NINF, -14, -10, -6, -4, -3, -2, -1, 0, 1, 2, 3, 4, 6, 8, 10, 14}

Max(a, b) == IF a > b THEN a ELSE b
Min(a, b) == IF a < b THEN a ELSE b
Clamp(x, lo, hi) == Max(lo, Min(x, hi))

\* 7.1.5 ToIntegerOrInfinity (on the encoding): undefined and NaN give 0, fractions truncate towards zero
ToIOI(a) == CASE a = UNDEF -> 0 [] a = NAN -> 0 [] a = PINF -> INF [] a = NINF -> -INF
              [] a >= 0 -> a \div 2 [] OTHER -> -((-a) \div 2)
IsNaNArg(a) == a \in {UNDEF, NAN}
\* relative index used by slice / splice / fill / copyWithin / String.slice
Rel(a, len) == LET r == ToIOI(a) IN IF r < 0 THEN Max(len + r, 0) ELSE Min(r, len)
RelEnd(args, i, len) == IF Len(args) < i \/ args[i] = UNDEF THEN len ELSE Rel(args[i], len)
Arg(args, i) == IF Len(args) < i THEN UNDEF ELSE args[i]

\* ---------------------------------------------------------------- result constructors (canonical JSON of the harness)
VNum(n) == [t |-> "num", v |-> n]
VUndef == [t |-> "undef"]
VNaN == [t |-> "nan"]
VBool(b) == [t |-> "bool", b |-> b]
VStr(s) == [t |-> "str", s |-> s]
VErr(k) == [t |-> "err", kind |-> k]
VElem(e) == IF e = ENAN THEN VNaN ELSE IF e = EUNDEF THEN VUndef ELSE VNum(e)
VArr(xs) == [t |-> "arr", e |-> [i \in 1..Len(xs) |-> VElem(xs[i])]]
VPair(a, b) == [t |-> "arr", e |-> <<a, b>>]            \* [result, receiver afterwards]
VStrs(ss) == [t |-> "arr", e |-> [i \in 1..Len(ss) |-> VStr(ss[i])]]

\* ---------------------------------------------------------------- arrays
Sub(xs, from, to) == IF from >= to THEN <<>> ELSE SubSeq(xs, from + 1, to)      \* 0-based half-open
StrictEqE(a, b) == a = b /\ a # ENAN                 \* IsStrictlyEqual on elements
SameZeroE(a, b) == a = b                             \* SameValueZero

ArrSlice(xs, args) == LET len == Len(xs) k == Rel(Arg(args, 1), len) fin == RelEnd(args, 2, len) IN VArr(Sub(xs, k, fin))

ArrSplice(xs, args) ==
  LET len == Len(xs)
      start == Rel(Arg(args, 1), len)
      del == IF Len(args) = 0 THEN 0
             ELSE IF Len(args) = 1 THEN len - start
             ELSE Clamp(ToIOI(args[2]), 0, len - start)
      items == IF Len(args) > 2 THEN <<args[3] \div 2>> ELSE <<>>          \* at most one inserted item (an integer argument)
      after == Sub(xs, 0, start) \o items \o Sub(xs, start + del, len)
  IN VPair(VArr(Sub(xs, start, start + del)), VArr(after))

ArrCopyWithin(xs, args) ==
  LET len == Len(xs)
      to == Rel(Arg(args, 1), len)
      from == Rel(Arg(args, 2), len)
      fin == RelEnd(args, 3, len)
      count == Min(fin - from, len - to)
      out == [i \in 1..len |-> IF count > 0 /\ i - 1 >= to /\ i - 1 < to + count THEN xs[from + (i - 1 - to) + 1] ELSE xs[i]]
  IN VArr(out)

ArrFill(xs, args) ==
  LET len == Len(xs) k == Rel(Arg(args, 2), len) fin == RelEnd(args, 3, len)
      v == args[1] \div 2
  IN VArr([i \in 1..len |-> IF i - 1 >= k /\ i - 1 < fin THEN v ELSE xs[i]])

ArrAt(xs, args) ==
  LET len == Len(xs) r == ToIOI(Arg(args, 1)) k == IF r >= 0 THEN r ELSE len + r
  IN IF k < 0 \/ k >= len THEN VUndef ELSE VElem(xs[k + 1])

ArrWith(xs, args) ==
  LET len == Len(xs) r == ToIOI(Arg(args, 1)) k == IF r >= 0 THEN r ELSE len + r
  IN IF k < 0 \/ k >= len THEN VErr("RangeError") ELSE VArr([xs EXCEPT ![k + 1] = args[2] \div 2])

\* the search value is args[1] given as an ELEMENT code; fromIndex is args[2]
ArrIndexOf(xs, args) ==
  LET len == Len(xs) n == ToIOI(Arg(args, 2))
      k == IF n >= 0 THEN n ELSE Max(len + n, 0)
      hits == {i \in k..(len - 1) : StrictEqE(xs[i + 1], args[1])}
  IN IF len = 0 \/ n = INF \/ hits = {} THEN VNum(-1) ELSE VNum(CHOOSE i \in hits : \A j \in hits : i <= j)

ArrLastIndexOf(xs, args) ==
  LET len == Len(xs) n == IF Len(args) > 1 THEN ToIOI(args[2]) ELSE len - 1
      k == IF n >= 0 THEN Min(n, len - 1) ELSE len + n
      hits == {i \in 0..k : StrictEqE(xs[i + 1], args[1])}
  IN IF len = 0 \/ n = -INF \/ hits = {} THEN VNum(-1) ELSE VNum(CHOOSE i \in hits : \A j \in hits : i >= j)

ArrIncludes(xs, args) ==
  LET len == Len(xs) n == ToIOI(Arg(args, 2))
      k == IF n >= 0 THEN n ELSE Max(len + n, 0)
  IN IF len = 0 \/ n = INF THEN VBool(FALSE) ELSE VBool(\E i \in k..(len - 1) : SameZeroE(xs[i + 1], args[1]))

\* a.length = v : ArraySetLength - v must be an array index count (ToUint32(v) = ToNumber(v)), else RangeError
ArrSetLength(xs, args) ==
  LET a == args[1] len == Len(xs) IN
  IF a \in {UNDEF, NAN, PINF, NINF} \/ a < 0 \/ a % 2 # 0 THEN VErr("RangeError")
  ELSE LET n == a \div 2 IN VArr([i \in 1..n |-> IF i <= len THEN xs[i] ELSE EUNDEF])

ArrToSpliced(xs, args) ==
  LET len == Len(xs)
      start == Rel(Arg(args, 1), len)
      del == IF Len(args) = 0 THEN 0 ELSE IF Len(args) = 1 THEN len - start ELSE Clamp(ToIOI(args[2]), 0, len - start)
      items == IF Len(args) > 2 THEN <<args[3] \div 2>> ELSE <<>>
  IN VPair(VArr(Sub(xs, 0, start) \o items \o Sub(xs, start + del, len)), VArr(xs))

\* flat(depth) on [x, [y, [z]]]-shaped input is covered by the natives corpus; here only the index methods

\* ---------------------------------------------------------------- strings (sequences of code units)
StrSlice(s, args) == LET len == Len(s) IN VStr(Sub(s, Rel(Arg(args, 1), len), RelEnd(args, 2, len)))
StrSubstring(s, args) ==
  LET len == Len(s)
      a == Clamp(ToIOI(Arg(args, 1)), 0, len)
      b == IF Len(args) < 2 \/ args[2] = UNDEF THEN len ELSE Clamp(ToIOI(args[2]), 0, len)
  IN VStr(Sub(s, Min(a, b), Max(a, b)))
StrSubstr(s, args) ==
  LET size == Len(s)
      st == ToIOI(Arg(args, 1))
      start == IF st = -INF THEN 0 ELSE IF st < 0 THEN Max(size + st, 0) ELSE Min(st, size)
      l == IF Len(args) < 2 \/ args[2] = UNDEF THEN size ELSE ToIOI(args[2])
      l2 == Clamp(l, 0, size)
      e == Min(start + l2, size)
  IN VStr(Sub(s, start, e))
StrAt(s, args) ==
  LET len == Len(s) r == ToIOI(Arg(args, 1)) k == IF r >= 0 THEN r ELSE len + r
  IN IF k < 0 \/ k >= len THEN VUndef ELSE VStr(<<s[k + 1]>>)
StrCharAt(s, args) == LET p == ToIOI(Arg(args, 1)) IN IF p < 0 \/ p >= Len(s) THEN VStr(<<>>) ELSE VStr(<<s[p + 1]>>)
StrCharCodeAt(s, args) == LET p == ToIOI(Arg(args, 1)) IN IF p < 0 \/ p >= Len(s) THEN VNaN ELSE VNum(s[p + 1])
StrCodePointAt(s, args) == LET p == ToIOI(Arg(args, 1)) IN IF p < 0 \/ p >= Len(s) THEN VUndef ELSE VNum(s[p + 1])    \* no surrogates in the pool

MatchAt(s, q, i) == i + Len(q) <= Len(s) /\ \A j \in 1..Len(q) : s[i + j] = q[j]
\* the search string is a separate field of the case (q); position is args[1]
StrIndexOf(s, q, args) ==
  LET len == Len(s) start == Clamp(ToIOI(Arg(args, 1)), 0, len)
      hits == {i \in start..len : MatchAt(s, q, i)}
  IN IF hits = {} THEN VNum(-1) ELSE VNum(CHOOSE i \in hits : \A j \in hits : i <= j)
StrLastIndexOf(s, q, args) ==
  LET len == Len(s)
      pos == IF IsNaNArg(Arg(args, 1)) THEN INF ELSE ToIOI(args[1])
      start == Clamp(pos, 0, len)
      hits == {i \in 0..start : MatchAt(s, q, i)}
  IN IF hits = {} THEN VNum(-1) ELSE VNum(CHOOSE i \in hits : \A j \in hits : i >= j)
StrIncludes(s, q, args) ==
  LET len == Len(s) start == Clamp(ToIOI(Arg(args, 1)), 0, len) IN VBool(\E i \in start..len : MatchAt(s, q, i))
StrStartsWith(s, q, args) ==
  LET len == Len(s) start == Clamp(ToIOI(Arg(args, 1)), 0, len) IN VBool(MatchAt(s, q, start))
StrEndsWith(s, q, args) ==
  LET len == Len(s)
      e == IF Len(args) < 1 \/ args[1] = UNDEF THEN len ELSE Clamp(ToIOI(args[1]), 0, len)
      start == e - Len(q)
  IN VBool(start >= 0 /\ MatchAt(s, q, start))

RECURSIVE Rep(_, _)
Rep(s, n) == IF n <= 0 THEN <<>> ELSE s \o Rep(s, n - 1)
StrRepeat(s, args) ==
  LET n == ToIOI(Arg(args, 1)) IN IF n < 0 \/ n = INF THEN VErr("RangeError") ELSE VStr(Rep(s, n))
\* padStart / padEnd (maxLength, fillString q): ToLength clamps below at 0
Pad(s, q, args, atStart) ==
  LET m == Max(ToIOI(Arg(args, 1)), 0) len == Len(s) fillLen == m - len IN
  IF m <= len \/ q = <<>> THEN VStr(s)
  ELSE LET f == SubSeq(Rep(q, fillLen), 1, fillLen) IN VStr(IF atStart THEN f \o s ELSE s \o f)

\* split(separator q, limit): ToUint32(limit) - undefined means 2^32-1, negative numbers wrap to huge values, fractions truncate
RECURSIVE SplitFrom(_, _, _, _)
SplitFrom(s, q, p, i) ==      \* pieces of s[p..] split at occurrences of q found from i on (q non-empty)
  IF i + Len(q) > Len(s) THEN <<Sub(s, p, Len(s))>>
  ELSE IF MatchAt(s, q, i) THEN <<Sub(s, p, i)>> \o SplitFrom(s, q, i + Len(q), i + Len(q))
  ELSE SplitFrom(s, q, p, i + 1)
StrSplit(s, q, args) ==
  LET a == Arg(args, 1)
      lim == CASE a = UNDEF -> INF [] a \in {NAN, PINF, NINF} -> 0
               [] ToIOI(a) < 0 -> INF      \* 2^32 - k
               [] OTHER -> ToIOI(a)
      pieces == IF q = <<>> THEN [i \in 1..Len(s) |-> <<s[i]>>]
                ELSE IF s = <<>> THEN <<<<>>>> ELSE SplitFrom(s, q, 0, 0)
  IN IF lim = 0 THEN VStrs(<<>>) ELSE VStrs(SubSeq(pieces, 1, Min(lim, Len(pieces))))

\* ---------------------------------------------------------------- Math on integers, halves and the special values
\* numbers are [k |-> "nan"] | [k |-> "inf", s |-> 1 / -1] | [k |-> "fin", h |-> 2 * value, neg0 |-> BOOLEAN]
MNaN == [k |-> "nan"]
MInf(sg) == [k |-> "inf", s |-> sg]
MFin(h) == [k |-> "fin", h |-> h, neg0 |-> FALSE]
MNegZero == [k |-> "fin", h |-> 0, neg0 |-> TRUE]
MOf(a) == CASE a \in {UNDEF, NAN} -> MNaN [] a = PINF -> MInf(1) [] a = NINF -> MInf(-1) [] a = NZERO -> MNegZero [] OTHER -> MFin(a)
VM(x) == CASE x.k = "nan" -> VNaN [] x.k = "inf" -> [t |-> "inf", s |-> x.s] [] x.neg0 -> [t |-> "nzero"] [] OTHER -> [t |-> "half", h |-> x.h]
MIsNeg(x) == (x.k = "inf" /\ x.s = -1) \/ (x.k = "fin" /\ (x.h < 0 \/ x.neg0))
\* total order used by max/min: -Infinity < negative < -0 < +0 < positive < +Infinity
MKey(x) == CASE x.k = "inf" -> x.s * 100000 [] x.neg0 -> -1 [] OTHER -> 4 * x.h + (IF x.h >= 0 THEN 1 ELSE 0)
MLess(x, y) == (IF x.k = "fin" /\ x.h = 0 THEN (IF x.neg0 THEN -1 ELSE 0) ELSE MKey(x)) < (IF y.k = "fin" /\ y.h = 0 THEN (IF y.neg0 THEN -1 ELSE 0) ELSE MKey(y))
RECURSIVE MFold(_, _, _)
MFold(xs, acc, wantMax) == IF xs = <<>> THEN acc
   ELSE LET x == MOf(xs[1]) IN
        IF x.k = "nan" \/ acc.k = "nan" THEN MFold(Tail(xs), MNaN, wantMax)       \* every argument is still converted, NaN wins
        ELSE MFold(Tail(xs), IF (wantMax /\ MLess(acc, x)) \/ (~wantMax /\ MLess(x, acc)) THEN x ELSE acc, wantMax)
MathMax(args) == VM(MFold(args, MInf(-1), TRUE))
MathMin(args) == VM(MFold(args, MInf(1), FALSE))
FloorH(h) == IF h % 2 = 0 THEN h ELSE h - 1                 \* floor of h/2, times 2 (h odd: x.5 -> x)
MathFloor(a) == LET x == MOf(a) IN IF x.k # "fin" \/ x.neg0 THEN VM(x) ELSE VM(MFin(FloorH(x.h)))
MathCeil(a) == LET x == MOf(a) IN IF x.k # "fin" \/ x.neg0 THEN VM(x)
               ELSE LET c == IF x.h % 2 = 0 THEN x.h ELSE x.h + 1 IN IF c = 0 /\ x.h < 0 THEN VM(MNegZero) ELSE VM(MFin(c))
MathTrunc(a) == LET x == MOf(a) IN IF x.k # "fin" \/ x.neg0 THEN VM(x)
                ELSE LET t == IF x.h >= 0 THEN FloorH(x.h) ELSE -FloorH(-x.h) IN IF t = 0 /\ x.h < 0 THEN VM(MNegZero) ELSE VM(MFin(t))
\* Math.round: floor(x + 0.5), but -0 for -0.5 <= x < 0 (and for -0)
MathRound(a) == LET x == MOf(a) IN IF x.k # "fin" \/ x.neg0 THEN VM(x)
                ELSE LET r == FloorH(x.h + 1) IN IF r = 0 /\ x.h < 0 THEN VM(MNegZero) ELSE VM(MFin(r))
MathSign(a) == LET x == MOf(a) IN IF x.k = "nan" THEN VNaN ELSE IF x.k = "fin" /\ x.h = 0 THEN VM(x) ELSE VM(MFin(IF MIsNeg(x) THEN -2 ELSE 2))
MathAbs(a) == LET x == MOf(a) IN IF x.k = "nan" THEN VNaN ELSE IF x.k = "inf" THEN VM(MInf(1)) ELSE VM(MFin(IF x.h < 0 THEN -x.h ELSE x.h))

\* ---------------------------------------------------------------- the case space
Arrays == {<<>>, <<10>>, <<10, 20, 30>>, <<10, 20, 10, ENAN, EUNDEF>>}
SearchElems == {10, 20, 99, ENAN, EUNDEF}
Strings == {<<>>, <<97>>, <<97, 98, 99>>, <<97, 98, 97, 98, 99>>}                    \* "", "a", "abc", "ababc"
Needles == {<<>>, <<97>>, <<97, 98>>, <<99>>, <<120>>}                               \* "", "a", "ab", "c", "x"
IntArgs == {a \in ArgVals : a < 9000 /\ a % 2 = 0}
Tup0 == {<<>>}
Tup1 == {<<a>> : a \in ArgVals}
Tup2 == {<<a, b>> : a \in ArgVals, b \in ArgVals}
Tup3 == {<<a, b, c>> : a \in ArgVals, b \in ArgVals, c \in ArgVals}
FiniteArgs == {a \in ArgVals : a # PINF}

ArrayCases ==
       [m : {"slice"}, recv : Arrays, q : {<<>>}, args : Tup0 \cup Tup1 \cup Tup2]
  \cup [m : {"splice", "toSpliced"}, recv : Arrays, q : {<<>>}, args : Tup0 \cup Tup1 \cup Tup2 \cup {<<a, b, 14>> : a \in ArgVals, b \in ArgVals}]
  \cup [m : {"copyWithin"}, recv : Arrays, q : {<<>>}, args : Tup1 \cup Tup2 \cup Tup3]
  \cup [m : {"fill"}, recv : Arrays, q : {<<>>}, args : {<<14>>} \cup {<<14, a>> : a \in ArgVals} \cup {<<14, a, b>> : a \in ArgVals, b \in ArgVals}]
  \cup [m : {"at"}, recv : Arrays, q : {<<>>}, args : Tup0 \cup Tup1]
  \cup [m : {"with"}, recv : Arrays, q : {<<>>}, args : {<<a, 14>> : a \in ArgVals}]
  \cup [m : {"indexOf", "includes", "lastIndexOf"}, recv : Arrays, q : {<<>>}, args : {<<e>> : e \in SearchElems} \cup {<<e, a>> : e \in SearchElems, a \in ArgVals}]
  \cup [m : {"setLength"}, recv : Arrays, q : {<<>>}, args : Tup1]
StringCases ==
       [m : {"s.slice", "s.substring", "s.substr"}, recv : Strings, q : {<<>>}, args : Tup0 \cup Tup1 \cup Tup2]
  \cup [m : {"s.at", "s.charAt", "s.charCodeAt", "s.codePointAt"}, recv : Strings, q : {<<>>}, args : Tup0 \cup Tup1]
  \cup [m : {"s.indexOf", "s.lastIndexOf", "s.includes", "s.startsWith", "s.endsWith"}, recv : Strings, q : Needles, args : Tup0 \cup Tup1]
  \cup [m : {"s.repeat"}, recv : Strings, q : {<<>>}, args : {<<a>> : a \in FiniteArgs} \cup {<<PINF>>}]
  \cup [m : {"s.padStart", "s.padEnd"}, recv : Strings, q : Needles, args : {<<a>> : a \in FiniteArgs}]
  \cup [m : {"s.split"}, recv : Strings, q : Needles, args : Tup0 \cup Tup1]
MathArgs == ArgVals \cup {NZERO}
MathCases ==
       [m : {"M.max", "M.min"}, recv : {<<>>}, q : {<<>>}, args : {<<>>} \cup {<<a>> : a \in MathArgs} \cup {<<a, b>> : a \in MathArgs, b \in MathArgs} \cup {<<a, 2, b>> : a \in MathArgs, b \in MathArgs}]
  \cup [m : {"M.floor", "M.ceil", "M.trunc", "M.round", "M.sign", "M.abs"}, recv : {<<>>}, q : {<<>>}, args : {<<a>> : a \in MathArgs}]
Cases == (IF "array" \in Families THEN ArrayCases ELSE {}) \cup (IF "string" \in Families THEN StringCases ELSE {}) \cup (IF "math" \in Families THEN MathCases ELSE {})

Result(c) ==
  CASE c.m = "slice" -> ArrSlice(c.recv, c.args)
    [] c.m = "splice" -> ArrSplice(c.recv, c.args)
    [] c.m = "toSpliced" -> ArrToSpliced(c.recv, c.args)
    [] c.m = "copyWithin" -> ArrCopyWithin(c.recv, c.args)
    [] c.m = "fill" -> ArrFill(c.recv, c.args)
    [] c.m = "at" -> ArrAt(c.recv, c.args)
    [] c.m = "with" -> ArrWith(c.recv, c.args)
    [] c.m = "indexOf" -> ArrIndexOf(c.recv, c.args)
    [] c.m = "lastIndexOf" -> ArrLastIndexOf(c.recv, c.args)
    [] c.m = "includes" -> ArrIncludes(c.recv, c.args)
    [] c.m = "setLength" -> ArrSetLength(c.recv, c.args)
    [] c.m = "s.slice" -> StrSlice(c.recv, c.args)
    [] c.m = "s.substring" -> StrSubstring(c.recv, c.args)
    [] c.m = "s.substr" -> StrSubstr(c.recv, c.args)
    [] c.m = "s.at" -> StrAt(c.recv, c.args)
    [] c.m = "s.charAt" -> StrCharAt(c.recv, c.args)
    [] c.m = "s.charCodeAt" -> StrCharCodeAt(c.recv, c.args)
    [] c.m = "s.codePointAt" -> StrCodePointAt(c.recv, c.args)
    [] c.m = "s.indexOf" -> StrIndexOf(c.recv, c.q, c.args)
    [] c.m = "s.lastIndexOf" -> StrLastIndexOf(c.recv, c.q, c.args)
    [] c.m = "s.includes" -> StrIncludes(c.recv, c.q, c.args)
    [] c.m = "s.startsWith" -> StrStartsWith(c.recv, c.q, c.args)
    [] c.m = "s.endsWith" -> StrEndsWith(c.recv, c.q, c.args)
    [] c.m = "s.repeat" -> StrRepeat(c.recv, c.args)
    [] c.m = "s.padStart" -> Pad(c.recv, c.q, c.args, TRUE)
    [] c.m = "s.padEnd" -> Pad(c.recv, c.q, c.args, FALSE)
    [] c.m = "s.split" -> StrSplit(c.recv, c.q, c.args)
    [] c.m = "M.max" -> MathMax(c.args)
    [] c.m = "M.min" -> MathMin(c.args)
    [] c.m = "M.floor" -> MathFloor(c.args[1])
    [] c.m = "M.ceil" -> MathCeil(c.args[1])
    [] c.m = "M.trunc" -> MathTrunc(c.args[1])
    [] c.m = "M.round" -> MathRound(c.args[1])
    [] c.m = "M.sign" -> MathSign(c.args[1])
    [] c.m = "M.abs" -> MathAbs(c.args[1])

\* ---------------------------------------------------------------- properties of the specification itself
\* slice never invents elements and agrees with the at() of every position it keeps
SliceIsWindow == \A xs \in Arrays, a \in ArgVals, b \in ArgVals :
   LET len == Len(xs) k == Rel(a, len) fin == Rel(b, len) IN
   /\ 0 <= k /\ k <= len /\ 0 <= fin /\ fin <= len
   /\ Len(Sub(xs, k, fin)) = Max(fin - k, 0)
\* copyWithin and fill keep the length; splice conserves elements: removed ++ kept = original (without the inserted item)
SpliceConserves == \A xs \in Arrays, a \in ArgVals, b \in ArgVals :
   LET len == Len(xs) start == Rel(a, len) del == Clamp(ToIOI(b), 0, len - start) IN
   Sub(xs, 0, start) \o Sub(xs, start, start + del) \o Sub(xs, start + del, len) = xs
\* substring is symmetric in its arguments
SubstringSymmetric == \A s \in Strings, a \in ArgVals, b \in ArgVals :
   (a # UNDEF /\ b # UNDEF) => StrSubstring(s, <<a, b>>) = StrSubstring(s, <<b, a>>)
\* includes(x) is indexOf(x) # -1 except for NaN
IncludesVsIndexOf == \A xs \in Arrays, e \in SearchElems, a \in ArgVals :
   e # ENAN => (ArrIncludes(xs, <<e, a>>).b = (ArrIndexOf(xs, <<e, a>>).v # -1))
ASSUME SliceIsWindow /\ SpliceConserves /\ SubstringSymmetric /\ IncludesVsIndexOf

VARIABLE c
Init == c \in Cases
Next == UNCHANGED c
Spec == Init /\ [][Next]_c
Emit == PrintT(<<"L", ToJson([m |-> c.m, recv |-> c.recv, q |-> c.q, args |-> c.args, r |-> Result(c)])>>)
=============================================================================
