---- MODULE Modules ----
(***************************************************************************)
(* C09.  Module loading as driven by the host, after                       *)
(*   Interpreter::prepare, step -> setup_vm_from_program,                  *)
(*   process_pending_modules (the ready set of a round is taken from a     *)
(*   hash map: ANY order), execute_pending_module, provide_module,         *)
(*   filter_missing_imports / filter_unprovided_imports / dedupe.          *)
(* Module 0 is the entry program; modules 1..N are host-supplied.  The     *)
(* graph is acyclic: m imports only higher-numbered modules.               *)
(* The host may supply any module at any time while the entry program is   *)
(* waiting: requested or not, once or repeatedly, before or after it was   *)
(* loaded, one at a time or in batches (several Provide before a Run).     *)
(***************************************************************************)
EXTENDS Integers, Sequences, FiniteSets, TLC, Json, IOUtils
CONSTANTS N,          \* number of dependency modules
          MaxHost,    \* provide_module calls per behaviour
          MaxRuns,    \* step-until-terminal calls per behaviour
          Emitting
Mods == 1..N
All  == 0..N
VARIABLES deps,          \* [All -> SUBSET Mods]
          provided,      \* pending_module_sources (parsed, not yet executed)
          loaded,        \* executed modules, in execution order
          pendingProgram, phase,
          last,          \* last result handed to the host: [r, mods, imps, loads]
          fresh,         \* `last` was produced by the latest call (no Provide since)
          hostMoves, runs, hist
core == <<deps, provided, loaded, pendingProgram, phase, last, fresh, hostMoves, runs>>
vars == <<core, hist>>
View == core
LoadedSet == { loaded[i] : i \in 1..Len(loaded) }
Dags == { d \in [All -> SUBSET Mods] : \A m \in All : \A x \in d[m] : x > m }
Init == /\ deps \in Dags /\ provided = {} /\ loaded = <<>> /\ pendingProgram = FALSE
        /\ phase = "new" /\ last = [r |-> "none", mods |-> {}, loads |-> <<>>]
        /\ fresh = FALSE /\ hostMoves = 0 /\ runs = 0 /\ hist = <<>>

Missing(S, ld)        == { m \in S : m \notin ld }
Unprovided(S, ld, pv) == { m \in S : m \notin ld /\ m \notin pv }
Ready(ld, pv)         == { m \in pv : m \notin ld /\ deps[m] \subseteq ld }
RECURSIVE Perms(_)
Perms(S) == IF S = {} THEN {<<>>} ELSE UNION { { <<x>> \o p : p \in Perms(S \ {x}) } : x \in S }
Range(s) == { s[i] : i \in 1..Len(s) }
\* process_pending_modules: rounds; each round executes its whole ready set in ANY order.
\* Returns the set of possible outcomes [loads, unprov], unprov = what the host must still supply
\* for the modules that are supplied but not loadable yet.
RECURSIVE Rounds(_, _)
Rounds(ld, pv) ==
  LET R == Ready(ld, pv) IN
  IF R = {} THEN { [loads |-> <<>>,
                    unprov |-> UNION { Unprovided(deps[m], ld, pv) : m \in { p \in pv : p \notin ld } }] }
  ELSE UNION { { [loads |-> p \o rest.loads, unprov |-> rest.unprov] : rest \in Rounds(ld \cup R, pv \ R) } : p \in Perms(R) }

Rec(e) == hist' = IF Emitting THEN Append(hist, e) ELSE hist
Result(r, mods, loads) == [r |-> r, mods |-> mods, loads |-> loads]

Prepare ==
  /\ phase = "new"
  /\ LET miss == Missing(deps[0], LoadedSet) IN
     IF miss # {} THEN /\ pendingProgram' = TRUE /\ phase' = "waiting"
                       /\ last' = Result("NeedImports", miss, <<>>)
                       /\ Rec([e |-> "prepare"])
     ELSE /\ pendingProgram' = FALSE /\ phase' = "done"
          /\ last' = Result("Complete", {}, <<>>)
          /\ Rec([e |-> "prepare"])
  /\ fresh' = TRUE
  /\ UNCHANGED <<deps, provided, loaded, hostMoves, runs>>

\* provide_module(path, source): any module, any time while waiting
Provide(m) ==
  /\ phase = "waiting" /\ hostMoves < MaxHost
  /\ provided' = provided \cup {m} /\ hostMoves' = hostMoves + 1
  /\ Rec([e |-> "provide", m |-> m]) /\ fresh' = FALSE
  /\ UNCHANGED <<deps, loaded, pendingProgram, phase, last, runs>>

\* step() until a terminal result
Run ==
  /\ phase = "waiting" /\ pendingProgram /\ runs < MaxRuns
  /\ runs' = runs + 1
  /\ LET unp == Unprovided(deps[0], LoadedSet, provided) IN
     IF unp # {} THEN
        /\ last' = Result("NeedImports", unp, <<>>)
        /\ UNCHANGED <<provided, loaded, pendingProgram, phase>>
     ELSE \E out \in Rounds(LoadedSet, provided) :
        LET ld2 == LoadedSet \cup Range(out.loads) IN
        /\ loaded' = loaded \o out.loads
        /\ provided' = provided \ Range(out.loads)
        /\ IF out.unprov # {} THEN
              /\ last' = Result("NeedImports", out.unprov, out.loads)
              /\ UNCHANGED <<pendingProgram, phase>>
           ELSE IF deps[0] \subseteq ld2 THEN
              /\ last' = Result("Complete", {}, out.loads)
              /\ pendingProgram' = FALSE /\ phase' = "done"
           ELSE \* the "shouldn't happen" branch of setup_vm_from_program
              /\ last' = Result("NeedImports", Unprovided(deps[0], ld2, provided'), out.loads)
              /\ UNCHANGED <<pendingProgram, phase>>
  /\ Rec([e |-> "run"]) /\ fresh' = TRUE
  /\ UNCHANGED <<deps, hostMoves>>

Next == Prepare \/ Run \/ \E m \in Mods : Provide(m)
Spec == Init /\ [][Next]_vars
\* a host that keeps running and eventually supplies what is requested
FairSpec == Spec /\ WF_vars(Prepare) /\ WF_vars(Run) /\ \A m \in Mods : WF_vars(m \in last.mods /\ Provide(m))

\* ---- what a module body computes (closed forms used by the trace specification)
RECURSIVE Val(_)
Sum(f, S) == LET RECURSIVE go(_) go(T) == IF T = {} THEN 0 ELSE LET x == CHOOSE x \in T : TRUE IN f[x] + go(T \ {x}) IN go(S)
Val(m) == IF m > N THEN 0 ELSE m + Sum([d \in deps[m] |-> Val(d)], deps[m])
MainValue == Sum([d \in deps[0] |-> Val(d)], deps[0])

\* ---- properties of C09
RECURSIVE Closure(_)
Closure(S) == LET T == S \cup UNION { deps[m] : m \in S } IN IF T = S THEN S ELSE Closure(T)
Needed == Closure(deps[0])
OnceEach  == \A i, j \in 1..Len(loaded) : i # j => loaded[i] # loaded[j]
DepsFirst == \A i \in 1..Len(loaded) : deps[loaded[i]] \subseteq { loaded[j] : j \in 1..(i - 1) }
\* a request list is never empty, names only modules that are neither loaded nor already supplied
RequestsMissing == (fresh /\ last.r = "NeedImports") => (last.mods # {} /\ \A m \in last.mods : m \notin LoadedSet /\ m \notin provided)
\* ... and only modules some supplied-or-entry module really imports
RequestsHaveImporter == (fresh /\ last.r = "NeedImports") =>
    \A m \in last.mods : m \in deps[0] \/ \E p \in provided \cup LoadedSet : m \in deps[p]
CompleteLoadsAllNeeded == phase = "done" => Needed \subseteq LoadedSet
\* with a fair host that supplies what is requested, loading terminates
Terminates == <>(phase = "done" \/ hostMoves = MaxHost \/ runs = MaxRuns)

Finished == phase = "done" \/ (runs = MaxRuns) \/ (hostMoves = MaxHost /\ last.r = "NeedImports" /\ runs > 0 /\ hist # <<>> /\ hist[Len(hist)].e = "run")
EmitBehaviour == (Emitting /\ Finished) => PrintT(<<"B", ToJson([deps |-> deps, hist |-> hist])>>)
====
