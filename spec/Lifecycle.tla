---- MODULE Lifecycle ----
(***************************************************************************)
(* C11 / C14.  The life cycle of ONE interpreter as its host sees it:      *)
(* a sequence of runs, each of which ends by completing, by an uncaught    *)
(* error, or by being abandoned (the host stops stepping), with a forced   *)
(* collection after every run.  The observable ledger is                   *)
(*   depth : call_depth() reported by the API                              *)
(*   live  : live objects after collect()                                  *)
(*   clean : the observer program that runs last behaves exactly as on a   *)
(*           fresh interpreter and completes                               *)
(* The specification says what a CORRECT interpreter shows:                *)
(*   - every run starts from depth 0, whatever the previous run did        *)
(*     (prepare discards a dead run);                                      *)
(*   - after a completed run depth is 0 again;                             *)
(*   - repeating the same self-contained program does not grow `live`      *)
(*     from the second repetition on (the first may create lazily          *)
(*     initialised built-ins);                                             *)
(*   - the observer is unaffected.                                         *)
(* Traces recorded from the real interpreter (vrunner lifecycle) are        *)
(* validated in batch: one initial state per trace.                        *)
(***************************************************************************)
EXTENDS Integers, Sequences, FiniteSets, TLC, Json, IOUtils
TR == ndJsonDeserialize(IOEnv.TRACE)
NT == Len(TR)
VARIABLES tix, l,
          phase,      \* "idle" | "dead" : state of the previous run when the next one starts
          depth,      \* call depth after the last event
          lives,      \* live counts after each repetition's collect (sequence)
          nruns
vars == <<tix, l, phase, depth, lives, nruns>>
Ev(t) == TR[t].ev
Cur == Ev(tix)[l]

Chk(name, ok) == ok \/ (PrintT(<<"DIFF", tix, l, name>>) /\ FALSE)

Init == /\ tix \in 1..NT /\ l = 1 /\ phase = "idle" /\ depth = 0 /\ lives = <<>> /\ nruns = 0

Fresh == /\ Cur.e = "fresh"
         /\ Chk("fresh interpreter is not at depth 0", Cur.depth = 0)
         /\ depth' = 0 /\ phase' = "idle" /\ UNCHANGED <<lives, nruns>>

\* a run of a (death or repeated) program: it may complete, fail or be abandoned
RunEnd == /\ Cur.e = "end" /\ Cur.role # "observer"
          /\ nruns' = nruns + 1
          /\ IF Cur.status = "COMPLETE"
             THEN /\ Chk("depth not 0 after a completed run", Cur.depth = 0)
                  /\ phase' = "idle"
             ELSE phase' = "dead"                         \* error / abandoned: the ledger may be anything NOW ...
          /\ depth' = Cur.depth /\ UNCHANGED lives

\* ... but the next program must not see any of it
Observer == /\ Cur.e = "end" /\ Cur.role = "observer"
            /\ Chk("observer did not complete", Cur.status = "COMPLETE")
            /\ Chk("observer trace differs from its trace on a fresh interpreter", Cur.events = TR[tix].observer_expected)
            /\ Chk("call depth not 0 after the observer completed", Cur.depth = 0)
            \* the observer's module exports are its own: nothing exported by a dead run shows up (histories that record exports)
            /\ ("observer_exports" \in DOMAIN TR[tix]) => Chk("exports of an earlier run reach the observer's export table", Cur.exports = TR[tix].observer_exports)
            \* bookkeeping of suspended contexts / orders is empty again (ledger: 6 pending orders, 7 cancelled, 8 responses, 9 suspended-for-order, 10 waiting contexts)
            /\ (Len(Cur.ledger) >= 10) => Chk("order / await bookkeeping not empty after the observer completed",
                                                Cur.ledger[6] = 0 /\ Cur.ledger[7] = 0 /\ Cur.ledger[8] = 0 /\ Cur.ledger[9] = 0 /\ Cur.ledger[10] = 0)
            /\ phase' = "idle" /\ depth' = Cur.depth /\ UNCHANGED <<lives, nruns>>

Collect == /\ Cur.e = "collect"
           /\ lives' = Append(lives, Cur.live)
           \* C14: from the second repetition of a self-contained program on, live objects stay constant
           /\ (TR[tix].kind = "repeat" /\ Len(lives') >= 3) =>
                 Chk("live objects grow with repetitions", lives'[Len(lives')] = lives'[2])
           /\ UNCHANGED <<phase, depth, nruns>>

Next == /\ l <= Len(Ev(tix)) /\ l' = l + 1 /\ UNCHANGED tix
        /\ (Fresh \/ RunEnd \/ Observer \/ Collect)
Spec == Init /\ [][Next]_vars

Mark == TLCSet(tix, IF TLCGet(tix) > l THEN TLCGet(tix) ELSE l)
ASSUME \A t \in 1..NT : TLCSet(t, 0)
Rejected == { t \in 1..NT : TLCGet(t) # Len(Ev(t)) + 1 }
AllAccepted == /\ \A t \in Rejected : PrintT(<<"REJECTED", t, TLCGet(t) - 1, Len(Ev(t))>>)
               /\ Rejected = {}
====
