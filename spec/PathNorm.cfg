SPECIFICATION Spec
CONSTANTS MaxSegs = 6
  Emitting = TRUE
INVARIANT AbsoluteFromAbsoluteImporter
INVARIANT CleanResult
INVARIANT Idempotent
INVARIANT BarePassThrough
INVARIANT EquivalentSpellings
INVARIANT Emit
CHECK_DEADLOCK FALSE
