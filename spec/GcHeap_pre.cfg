\* the pinned tree BEFORE the fix: commit (no generation check): TLC finds the stale-drop counterexample
SPECIFICATION Spec
CONSTANTS NG = 2
 NS = 2
 NH = 3
 MaxDepth = 8
 CheckGen = FALSE
 Thresholds = {}
 Emitting = FALSE
VIEW View
INVARIANT ReachableIntact
INVARIANT NoDoubleTenancy
INVARIANT StatsAgree
INVARIANT ExactAfterCollect
INVARIANT PooledAreReset
CHECK_DEADLOCK FALSE
