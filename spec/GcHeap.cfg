SPECIFICATION Spec
CONSTANTS NG = 2
 NS = 3
 NH = 3
 MaxDepth = 7
 CheckGen = TRUE
 Thresholds = {0, 1, 2}
 Emitting = TRUE
VIEW View
INVARIANT ReachableIntact
INVARIANT NoDoubleTenancy
INVARIANT StatsAgree
INVARIANT ExactAfterCollect
INVARIANT PooledAreReset
INVARIANT EmitBehaviour
CHECK_DEADLOCK FALSE
