SPECIFICATION TSpec
CONSTANTS NG = 40
 NS = 800
 NH = 400
 MaxDepth = 1000000
 CheckGen = TRUE
 Thresholds = {}
 Emitting = FALSE
INVARIANT TReachableIntact
INVARIANT TNoDoubleTenancy
INVARIANT StatsAgree
INVARIANT ExactAfterCollect
INVARIANT TPooledAreReset
POSTCONDITION Accepted
CHECK_DEADLOCK FALSE
