"""C16: concretisation of JsonMap.tla's abstract documents / value graphs, an independent JSON printer with every
escape / number / whitespace form, the TypeScript programs that drive each path across the JSON boundary, and the
comparison of what the implementation recorded with the specification's expectation.

Concrete values:  ("null",) ("bool", b) ("num", float) ("str", s) ("arr", [v..]) ("obj", [(k, v)..])
JS-only leaves :  ("undef",) ("fun",) ("sym",) ("nan",) ("inf",) ("ninf",)          (-0 is ("num", -0.0))"""
import json, math, random, struct

# ------------------------------------------------------------------ pools for the opaque atoms
STR_POOL = ["", "a", "é", "日本語", "\U0001F600", "\u0000", "\u001f", "\"", "\\", "/", "\b\f\n\r\t", "  ", "\u007f", "\u0080", "﻿", "�",
            "퟿", "", "￿", "\U00010000", "\U0010ffff", "à", "1e3", "-0", "constructor", "toString", "__proto__", "length", "null", "true",
            "\\u0041", "\\n", "'", "</script>", "x" * 300, "{\"a\":1}", " lead", "trail ", " ", "​", "\u0085", "tab\tin", "a  b", "   three", "x    y  z", "\t\t", "  \n  ", "l1\n  l2", ": ", ", ", "[  ]", "{  }"]
LITERAL_KEYS = {"a", "b", "0", "1", "2", "7", "10", "01", "-0", "length", "__proto__", ""}
KEY_POOL = ["é", "日本", "\U0001F600", "\"", "\\", "/", "\n", "\u0000", " ", "constructor", "toString", "valueOf", "hasOwnProperty",
            "1.0", "1e3", "+1", " 1", "4294967295", "4294967294", "9007199254740993", "-1", "NaN", "Infinity", "k" * 200, " ", "﻿", "\U0010ffff", "first  name", "  ", "a\tb", "x:  y"]
NUM_POOL = [0.0, -0.0, 1.0, -1.0, 2.0, 0.5, 0.1, 1.5, 1e21, 1e-7, 5e-324, 1.7976931348623157e308, 2.0 ** 31, 2.0 ** 31 - 1, -(2.0 ** 31), 2.0 ** 32, 2.0 ** 32 - 1,
            2.0 ** 53, 2.0 ** 53 - 1, -(2.0 ** 53), 2.0 ** 63, -(2.0 ** 63), 2.0 ** 64, 123456789012345680000.0, 1e-6, 0.000001234, 1e300, -1e-300, 3.141592653589793,
            2.2250738585072014e-308, 2.225073858507201e-308, 1e15, 1e16, 123456789.12345679, 4.35, 0.30000000000000004, 9007199254740993.0 + 1]
# number TEXTS whose value needs correct rounding / unusual but valid forms (expected value = Python float(), which rounds correctly)
NUM_TEXT_POOL = ["-0", "-0.0", "0e0", "0E-5", "1E2", "1e+2", "1.50", "0.1e1", "10e-1", "9007199254740993", "9007199254740992.5", "9007199254740993.0000000001",
                 "0.1000000000000000055511151231257827021181583404541015625", "123456789012345678901234567890", "1e-400", "0.000000000000000000000000000000000000000000001e45",
                 "1.7976931348623157e308", "4.9e-324", "2.4703282292062328e-324", "2.2250738585072011e-308", "2.2250738585072014e-308", "8.98846567431158e307",
                 "18446744073709551615", "18446744073709551616", "-9223372036854775808", "-9223372036854775809", "0.30000000000000004", "5e-324", "1e23", "8.5e22",
                 "9.5367431640625e-7", "1.0000000000000002", "1.00000000000000011102230246251565404236316680908203125", "0.99999999999999994448884876874217297882"]


def rand_double(rnd):
    while True:
        x = struct.unpack("<d", struct.pack("<Q", rnd.getrandbits(64)))[0]
        if math.isfinite(x): return x


def rand_string(rnd, n=None):
    n = rnd.randint(0, 12) if n is None else n
    out = []
    for _ in range(n):
        c = rnd.choice([rnd.randint(0, 0x7f), rnd.randint(0x80, 0x7ff), rnd.randint(0x800, 0xffff), rnd.randint(0x10000, 0x10ffff)])
        if 0xd800 <= c <= 0xdfff: c = 0xe000 + (c - 0xd800)         # scalar values only
        out.append(chr(c))
    return "".join(out)


class Atoms:
    """one assignment of concrete values to the spec's atoms"""
    def __init__(self, rnd, idx=0):
        self.rnd = rnd
        pick = lambda pool, j: pool[(idx * 7 + j * 13) % len(pool)] if rnd.random() < 0.7 else None
        self.s = {}; self.n = {}; self.k = {}
        for j, a in enumerate(("s1", "s2", "s3")):
            self.s[a] = pick(STR_POOL, j) if rnd.random() < 0.75 else rand_string(rnd)
            if self.s[a] is None: self.s[a] = rnd.choice(STR_POOL)
        for j, a in enumerate(("n1", "n2", "n3")):
            r = rnd.random()
            self.n[a] = NUM_POOL[(idx * 5 + j * 11) % len(NUM_POOL)] if r < 0.6 else (float(rnd.randint(-2 ** 53, 2 ** 53)) if r < 0.75 else rand_double(rnd))
        for j, a in enumerate(("k1", "k2", "k3")):
            self.k[a] = KEY_POOL[(idx * 3 + j * 17) % len(KEY_POOL)] if rnd.random() < 0.8 else ("q" + rand_string(rnd, 3))
        if len({self.k[a] for a in self.k}) < 3:          # distinct atoms stay distinct keys
            self.k = {"k1": self.k["k1"], "k2": self.k["k1"] + "_", "k3": self.k["k1"] + "__"}

    def key(self, k):
        return self.k.get(k, k)

    def leaf(self, a):
        if a == "null": return ("null",)
        if a == "true": return ("bool", True)
        if a == "false": return ("bool", False)
        if a == "zero": return ("num", 0.0)
        if a == "nzero": return ("num", -0.0)
        if a in self.n: return ("num", self.n[a])
        if a in self.s: return ("str", self.s[a])
        if a in ("undef", "fun", "sym", "nan", "inf", "ninf"): return (a,)
        raise ValueError(a)

    def tree(self, t):
        if t["t"] == "leaf": return self.leaf(t["a"])
        if t["t"] == "arr": return ("arr", [self.tree(x) for x in t["vs"]])
        if t["t"] == "obj": return ("obj", [(self.key(k), self.tree(v)) for k, v in zip(t["ks"], t["vs"])])
        raise ValueError(t["t"])


# ------------------------------------------------------------------ independent printer (text the implementation has to read)
SHORT = {'"': '\\"', "\\": "\\\\", "\b": "\\b", "\f": "\\f", "\n": "\\n", "\r": "\\r", "\t": "\\t"}


def print_string(s, rnd, style):
    out = ['"']
    for ch in s:
        c = ord(ch)
        must = c < 0x20 or ch in '"\\'
        st = style if style != "mixed" else rnd.choice(["raw", "short", "hex", "HEX"])
        if ch in SHORT and (st in ("raw", "short") or (st == "mixed")) and (must or st == "short"):
            out.append(SHORT[ch])
        elif ch == "/" and st == "short":
            out.append("\\/")
        elif must or st in ("hex", "HEX"):
            fmt = "\\u%04x" if st != "HEX" else "\\u%04X"
            if c >= 0x10000:
                c -= 0x10000
                out.append(fmt % (0xd800 + (c >> 10)) + fmt % (0xdc00 + (c & 0x3ff)))
            else:
                out.append(fmt % c)
        else:
            out.append(ch)
    out.append('"')
    return "".join(out)


def print_number(x, rnd, style):
    if x == 0:
        base = "-0" if math.copysign(1, x) < 0 else "0"
        cands = [base, base + ".0", base + "e0", base + "E+5"]
    else:
        r = repr(x)
        cands = [r]
        if x == int(x) and abs(x) < 2 ** 63:
            i = str(int(x)); cands += [i, i + ".0", i + ".000", i + "e0", i + "E-0"]
            if i.endswith("0") and len(i) > 2:
                z = len(i) - len(i.rstrip("0")); cands.append(i[:-z] + "e" + str(z)); cands.append(i[:-z] + "E+" + str(z))
        if "e" not in r and "." in r:
            cands += [r + "0", r + "e0", r.replace(".", "") + "e-" + str(len(r.split(".")[1])) if not r.startswith(("0.", "-0.")) else r]
    if style == "plain": return cands[0]
    good = [c for c in cands if float(c) == x and (math.copysign(1, float(c)) == math.copysign(1, x))]
    return rnd.choice(good)


def print_doc(v, rnd, style="mixed", ws=True):
    def sp():
        return rnd.choice(["", "", " ", "\n", "\t", "\r\n", "  "]) if ws else ""
    def go(v):
        k = v[0]
        if k == "null": return "null"
        if k == "bool": return "true" if v[1] else "false"
        if k == "num": return print_number(v[1], rnd, style)
        if k == "rawnum": return v[1]
        if k == "str": return print_string(v[1], rnd, style)
        if k == "arr": return "[" + sp() + ("," + sp()).join(go(x) + sp() for x in v[1]) + "]"
        if k == "obj": return "{" + sp() + ("," + sp()).join(print_string(kk, rnd, style) + sp() + ":" + sp() + go(x) + sp() for kk, x in v[1]) + "}"
        raise ValueError(k)
    return sp() + go(v) + sp()


def unraw(v):
    """rawnum leaves (number texts) -> their value"""
    if v[0] == "rawnum": return ("num", float(v[1]))
    if v[0] == "arr": return ("arr", [unraw(x) for x in v[1]])
    if v[0] == "obj": return ("obj", [(k, unraw(x)) for k, x in v[1]])
    return v


# ------------------------------------------------------------------ job encoding for the harness (no JSON number parser in between)
def enc_doc(v):
    k = v[0]
    if k == "null": return None
    if k == "bool": return v[1]
    if k == "num":
        x = v[1]
        if x == int(x) and abs(x) < 2 ** 62 and not (x == 0 and math.copysign(1, x) < 0) and (hash(repr(x)) & 1):
            return {"$int": str(int(x))}                  # hosts also hand integers over as integers
        return {"$bits": "%016x" % struct.unpack("<Q", struct.pack("<d", x))[0]}
    if k == "str": return v[1]
    if k == "arr": return [enc_doc(x) for x in v[1]]
    if k == "obj": return {"$obj": [[kk, enc_doc(x)] for kk, x in v[1]]}
    raise ValueError(k)


# ------------------------------------------------------------------ expected observations
def is_index(k):
    return k.isascii() and k.isdigit() and (k == "0" or not k.startswith("0")) and int(k) < 2 ** 32 - 1


def norm(v):
    """ToJs of JsonMap.tla on concrete values: last duplicate wins at the first position; index keys ascending first.
    (The spec computed this on the abstract tree; atoms instantiated to concrete keys can turn into array indices or
    collide, so the concrete normal form is recomputed with the same rule and cross-checked where no atom key is used.)"""
    if v[0] == "arr": return ("arr", [norm(x) for x in v[1]])
    if v[0] != "obj": return v
    first = []; last = {}
    for k, x in v[1]:
        if k not in last: first.append(k)
        last[k] = x
    idx = sorted((k for k in first if is_index(k)), key=int)
    rest = [k for k in first if not is_index(k)]
    return ("obj", [(k, norm(last[k])) for k in idx + rest])


def bits(x):
    return "%016x" % struct.unpack("<Q", struct.pack("<d", x))[0]


def exp_dump(v, ordered=False):
    """what the host-side DUMP must show for a value (object keys sorted: order is not part of the property)"""
    k = v[0]
    if k == "null": return {"t": "null"}
    if k == "bool": return {"t": "bool", "b": v[1]}
    if k == "num": return {"t": "num", "bits": bits(v[1])}
    if k == "str": return {"t": "str", "s": v[1]}
    if k == "arr": return {"t": "arr", "xs": [exp_dump(x, ordered) for x in v[1]]}
    if k == "obj":
        items = v[1] if ordered else sorted(v[1], key=lambda kv: kv[0])
        return {"t": "obj", "ks": [a for a, _ in items], "vs": [exp_dump(x, ordered) for _, x in items]}
    raise ValueError(k)


def sort_dump(d):
    if d.get("t") == "arr": return {"t": "arr", "xs": [sort_dump(x) for x in d["xs"]]}
    if d.get("t") == "obj":
        items = sorted(zip(d["ks"], d["vs"]), key=lambda kv: kv[0])
        return {"t": "obj", "ks": [k for k, _ in items], "vs": [sort_dump(x) for _, x in items]}
    return d


def exp_rebuilt(v):
    """the value the script-level walker R() rebuilds: ["a", ..] / ["o", k, v, ..] (keys sorted by the walker)"""
    k = v[0]
    if k == "arr": return ("arr", [("str", "a")] + [exp_rebuilt(x) for x in v[1]])
    if k == "obj":
        out = [("str", "o")]
        for kk, x in sorted(v[1], key=lambda kv: utf16(kv[0])):
            out += [("str", kk), exp_rebuilt(x)]
        return ("arr", out)
    return v


def utf16(s):
    b = s.encode("utf-16-be")
    return [int.from_bytes(b[i:i + 2], "big") for i in range(0, len(b), 2)]


class Bad(Exception):
    pass


def parse_strict(text):
    """an independent conforming parser: Python's json with its extensions switched off; objects as pair lists"""
    def no_const(c): raise Bad("non-JSON constant " + c)
    def pairs(p):
        ks = [k for k, _ in p]
        if len(set(ks)) != len(ks): raise Bad("duplicate key in output")
        return ("obj", list(p))
    def conv(x):
        if x is None: return ("null",)
        if x is True or x is False: return ("bool", x)
        if isinstance(x, float): return ("num", x)
        if isinstance(x, str): return ("str", x)
        if isinstance(x, list): return ("arr", [conv(y) for y in x])
        if isinstance(x, tuple) and x and x[0] == "obj": return ("obj", [(k, conv(y)) for k, y in x[1]])
        raise Bad("unexpected %r" % (x,))
    try:
        raw = json.loads(text, parse_constant=no_const, parse_int=float, parse_float=float, object_pairs_hook=pairs, strict=True)
    except Bad:
        raise
    except Exception as e:
        raise Bad("not well-formed JSON: %s" % e)
    v = conv(raw)
    for s in strings_of(v):
        if any(0xd800 <= ord(c) <= 0xdfff for c in s): raise Bad("lone surrogate in output")
    return v


def strings_of(v):
    if v[0] == "str": yield v[1]
    elif v[0] == "arr":
        for x in v[1]: yield from strings_of(x)
    elif v[0] == "obj":
        for k, x in v[1]:
            yield k
            yield from strings_of(x)


def same_doc(a, b):
    """document equality: numbers by value (0 == -0), objects as unordered maps"""
    if a[0] != b[0]: return False
    if a[0] in ("null",): return True
    if a[0] in ("bool", "str"): return a[1] == b[1]
    if a[0] == "num": return a[1] == b[1]
    if a[0] == "arr": return len(a[1]) == len(b[1]) and all(same_doc(x, y) for x, y in zip(a[1], b[1]))
    if a[0] == "obj":
        da = dict(a[1]); db = dict(b[1])
        return len(a[1]) == len(da) and len(b[1]) == len(db) and set(da) == set(db) and all(same_doc(da[k], db[k]) for k in da)
    return False


def ser(v):
    """Ser of JsonMap.tla on a concrete acyclic value tree (used for twins and for cross-checking the abstract result)"""
    k = v[0]
    if k in ("undef", "fun", "sym"): return None
    if k in ("nan", "inf", "ninf"): return ("null",)
    if k == "num": return ("num", 0.0) if v[1] == 0 else v
    if k == "arr": return ("arr", [ser(x) or ("null",) for x in v[1]])
    if k == "obj":
        out = []
        for kk, x in norm(v)[1]:
            s = ser(x)
            if s is not None: out.append((kk, s))
        return ("obj", out)
    return v


# ------------------------------------------------------------------ programs
PRELUDE = r'''import { DOC, TEXT, DUMP, OUT, TXT } from "verif:json";
function T(tag: string, f: () => void): void { try { f(); } catch (e: any) { TXT(tag + ".err", (e && e.name) ? String(e.name) : "thrown"); } }
function R(v: any): any {
  if (v === null || typeof v !== "object") return v;
  if (Array.isArray(v)) { const out: any[] = ["a"]; for (let i = 0; i < v.length; i++) out.push(R(v[i])); return out; }
  const out: any[] = ["o"];
  for (const k of Object.keys(v)) { out.push(k); out.push(R(v[k])); }
  return out;
}
function P(v: any, path: string, bad: string[]): void {
  if (v === null || typeof v !== "object") return;
  if (Array.isArray(v)) {
    for (let i = 0; i < v.length; i++) { if (!Object.is(v[i], v[String(i)])) bad.push(path + "[" + i + "]:num/str"); P(v[i], path + "[" + i + "]", bad); }
    return;
  }
  for (const k of Object.keys(v)) {
    if (!(k in v)) bad.push(path + "." + k + ":in");
    if (!Object.prototype.hasOwnProperty.call(v, k)) bad.push(path + "." + k + ":own");
    const n = Number(k);
    if (String(n) === k && n >= 0 && Number.isInteger(n) && !Object.is(v[n], v[k])) bad.push(path + "." + k + ":num/str");
    P(v[k], path + "." + k, bad);
  }
}
'''


def doc_program(indent):
    ind = json.dumps(indent)
    return PRELUDE + '''
T("h.dump", () => { DUMP("h.dump", DOC()); });
T("h.walk", () => { DUMP("h.walk", R(DOC())); });
T("h.probe", () => { const bad: string[] = []; P(DOC(), "$", bad); TXT("h.probe", bad.join(" ")); });
T("h.back", () => { OUT("h.back", DOC()); });
T("h.str", () => { TXT("h.str", JSON.stringify(DOC())); });
T("h.ind", () => { TXT("h.ind", JSON.stringify(DOC(), null, %s)); });
T("p.dump", () => { DUMP("p.dump", JSON.parse(TEXT())); });
T("p.walk", () => { DUMP("p.walk", R(JSON.parse(TEXT()))); });
T("p.probe", () => { const bad: string[] = []; P(JSON.parse(TEXT()), "$", bad); TXT("p.probe", bad.join(" ")); });
T("p.back", () => { OUT("p.back", JSON.parse(TEXT())); });
T("p.str", () => { TXT("p.str", JSON.stringify(JSON.parse(TEXT()))); });
T("p.ind", () => { TXT("p.ind", JSON.stringify(JSON.parse(TEXT()), null, %s)); });
T("p.twice", () => { TXT("p.twice", JSON.stringify(JSON.parse(JSON.stringify(JSON.parse(TEXT()))))); });
export const exported = JSON.parse(TEXT());
''' % (ind, ind)


def js_string_literal(s):
    out = ['"']
    for ch in s:           # raw characters: escapes in SOURCE literals are the lexer's business (C01/C05), not the JSON boundary's
        u = ord(ch)
        if u < 0x20 or u in (0x22, 0x5c, 0x7f, 0x2028, 0x2029, 0xfeff): out.append("\\u%04x" % u)
        else: out.append(ch)
    out.append('"')
    return "".join(out)


def js_number_literal(x):
    if x == 0 and math.copysign(1, x) < 0: return "-0"
    r = repr(x)
    if r.endswith(".0"): r = r[:-2]
    return "(" + r + ")" if x < 0 else r


JS_LEAF = {"null": "null", "undef": "undefined", "fun": "(function () { return 1; })", "sym": 'Symbol("x")', "nan": "NaN", "inf": "Infinity", "ninf": "-Infinity"}


def js_leaf(v):
    k = v[0]
    if k in JS_LEAF: return JS_LEAF[k]
    if k == "bool": return "true" if v[1] else "false"
    if k == "num": return js_number_literal(v[1])
    return js_string_literal(v[1])


def graph_program(heap, atoms, indent):
    """heap: JsonMap.tla's containers (abstract); builds them with plain assignments in insertion order"""
    lines = []
    for i, c in enumerate(heap, 1):
        lines.append("const c%d: any = %s;" % (i, "[]" if c["t"] == "arr" else "{}"))
    for i, c in enumerate(heap, 1):
        for j, v in enumerate(c["vs"]):
            val = "c%d" % v["i"] if v["t"] == "ref" else js_leaf(atoms.leaf(v["a"]))
            if c["t"] == "arr": lines.append("c%d.push(%s);" % (i, val))
            else: lines.append("c%d[%s] = %s;" % (i, js_string_literal(atoms.key(c["ks"][j])), val))
    ind = json.dumps(indent)
    return PRELUDE + "\n".join(lines) + '''
T("g.str", () => { TXT("g.str", JSON.stringify(c1)); });
T("g.ind", () => { TXT("g.ind", JSON.stringify(c1, null, %s)); });
T("g.back", () => { OUT("g.back", c1); });
export const exported = c1;
''' % ind
