"""Shared by C11 and C14: run lifecycle jobs on the real interpreter, write the trace file, validate it with Lifecycle.tla."""
import json, os, subprocess
import vlib, minijs as M
from vlib import log

DIR = os.path.join(vlib.BUILD, "life")


def obs_events(evs):
    return [e for e in evs if e.startswith(("L|", "E|", "X|"))]


def run_and_validate(exe, jobs, metas, name, nproc=10):
    """jobs: lifecycle jobs; metas[i]: {"kind": "history"|"repeat", "observer_expected": [...]}.
    Returns (TlcResult, traces, rejected {trace_index(1-based): (matched,total)}, diffs {trace_index: [names]})"""
    os.makedirs(DIR, exist_ok=True)
    res = M.run_jobs(exe, "lifecycle", jobs, nproc=nproc, timeout=1800)
    traces = []
    for j, m in zip(jobs, metas):
        r = res.get(j["id"], {"ev": [{"e": "crash"}]})
        ev = []
        for e in r.get("ev", []):
            e = dict(e)
            if "events" in e: e["events"] = obs_events(e["events"])
            for k in ("err", "ledger"):
                e.pop(k, None) if k == "err" else None
            ev.append(e)
        tr = {"id": j["id"], "kind": m["kind"], "observer_expected": m.get("observer_expected", []), "ev": ev}
        if "observer_exports" in m: tr["observer_exports"] = m["observer_exports"]
        traces.append(tr)
    tp = os.path.join(DIR, name + "_traces.ndjson")
    with open(tp, "w") as f:
        for t in traces: f.write(json.dumps(t) + "\n")
    tres = vlib.run_tlc("Lifecycle.tla", os.path.join(vlib.SPEC, "Lifecycle.cfg"), "life_" + name, workers=1, timeout=1800, heap="6g",
                        java="-Xss1g -Dtlc2.tool.queue.IStateQueue=StateDeque", env={"TRACE": tp}, accept=(0, 10, 12, 13))
    rejected = {}; diffs = {}
    for l in tres.lines:
        if l.startswith('<<"REJECTED"'):
            n = [int(x) for x in l.replace(">>", "").split(",")[1:]]
            rejected[n[0]] = (n[1], n[2])
        if l.startswith('<<"DIFF"'):
            parts = l.rstrip(">").split(",", 3)
            t = int(parts[1]); diffs.setdefault(t, []).append((int(parts[2]), parts[3].strip().strip('"')))
    for t, (matched, total) in rejected.items():
        diffs[t] = [name for (ln, name) in diffs.get(t, []) if ln == matched + 1] or ["event not enabled"]
    if not rejected and not tres.ok:
        vlib.tool_error("Lifecycle trace validation failed to run:\n" + tres.tail())
    return tres, traces, rejected, diffs
