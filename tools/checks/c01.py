"""C01 — programs in the supported core evaluate as ECMAScript specifies.
The specification is MiniJS.tla (a small-step machine for the modelled core: coercions, operators, scopes/TDZ/hoisting,
closures, completions through try/catch/finally, loops and labels, arrays/objects, generators).  For every generated
program TLC computes the unique behaviour (log / error events) and the ghost features the run went through; the same
program is printed as TypeScript and executed on the real interpreter (host-native logging); the recorded trace must be
that behaviour (degenerate trace validation, DESIGN.md 1.1).  node, when present, must agree with the spec (self-validation
of the spec; disagreements exclude the program, they never decide).
Inputs: (a) exhaustive operator family: every binary/logical operator x operand pool^2; (a') logical assignment family:
every ||= &&= ??= x target kind (variable, property, element, absent property) x current value, with a counted right-hand side;
(b) seeded random programs; (c) built-in library: JSLib.tla enumerates every call of 27 array/string methods over small
receivers x an argument pool with undefined, NaN, +-Infinity, negative, fractional and out-of-range values (absent vs explicit
undefined distinguished) and states the result ECMA-262 prescribes."""
import json, os, random, time
import vlib, minijs as M, minijs_gen as G, mjcheck, jslib, mapset
from vlib import log

OPS = ["+", "-", "*", "%", "<", "<=", ">", ">=", "==", "!=", "===", "!=="]
LOGICAL = ["&&", "||", "??"]


def operand_pool(b):
    """builders for the operand pool: each returns a fresh node id"""
    cs = G.cs
    pool = []
    for v in (0, 1, 2, 10, -1, -7): pool.append(lambda v=v: b.add(ty="num", v=v))
    pool.append(lambda: b.add(ty="unary", op="-", a=b.add(ty="num", v=0)))     # -0
    pool.append(lambda: b.add(ty="nan"))
    pool.append(lambda: b.add(ty="inf", s=1)); pool.append(lambda: b.add(ty="inf", s=-1))
    for s in ("", "a", "b", "10", "9", " 7 ", "x1", "é"): pool.append(lambda s=s: b.add(ty="str", cs=cs(s)))
    pool.append(lambda: b.add(ty="str", cs=[0xD83D, 0xDE00]))      # an astral character: printed as the escape pair \ud83d\ude00
    pool.append(lambda: b.add(ty="bool", v=1)); pool.append(lambda: b.add(ty="bool", v=0))
    pool.append(lambda: b.add(ty="null")); pool.append(lambda: b.add(ty="undef"))
    pool.append(lambda: b.add(ty="arrlit", xs=[]))
    pool.append(lambda: b.add(ty="arrlit", xs=[b.add(ty="num", v=5)]))
    pool.append(lambda: b.add(ty="arrlit", xs=[b.add(ty="num", v=1), b.add(ty="num", v=2)]))
    pool.append(lambda: b.add(ty="objlit", keys=[], vals=[]))
    return pool


def operator_family(first_id, per_prog=48):
    progs = []; cases = []
    b = G.B(); xs = []
    npool = len(operand_pool(b))
    def flush():
        nonlocal b, xs
        if xs:
            root = b.add(ty="program", xs=xs)
            progs.append(dict(id=first_id + len(progs), root=root, nodes=b.nodes, resp=[], family="binop"))
        b = G.B(); xs = []
    for op in OPS + LOGICAL:
        for i in range(npool):
            for j in range(npool):
                pool = operand_pool(b)
                a = pool[i](); c = pool[j]()
                e = b.add(ty="logical" if op in LOGICAL else "bin", op=op, a=a, b=c)
                xs.append(b.add(ty="log", a=e)); cases.append((op, i, j))
                if len(xs) >= per_prog: flush()
    flush()
    return progs, len(cases)


def assignment_family(first_id, per_prog=12):
    """every logical assignment operator x target kind (variable, object property, array element) x current value:
    the result, the stored value and how often the right-hand side ran are all logged"""
    progs = []; ncases = 0
    b = G.B(); xs = []
    cs = G.cs
    def flush():
        nonlocal b, xs
        if xs:
            root = b.add(ty="program", xs=xs)
            progs.append(dict(id=first_id + len(progs), root=root, nodes=b.nodes, resp=[], family="lassign"))
        b = G.B(); xs = []
    def bump(k):      # (n = (n + k)): visible side effect of the right-hand side
        return b.add(ty="assign", name="n", a=b.add(ty="bin", op="+", a=b.add(ty="var", name="n"), b=b.add(ty="num", v=k)))
    ncur = len(operand_pool(b))
    for op in ("||=", "&&=", "??="):
        for i in range(ncur):
            cur = lambda: operand_pool(b)[i]()
            blk = [b.add(ty="decl", kind="let", name="n", a=b.add(ty="num", v=0)),
                   b.add(ty="decl", kind="let", name="x", a=cur()),
                   b.add(ty="decl", kind="const", name="o", a=b.add(ty="objlit", keys=[cs("a")], vals=[cur()])),
                   b.add(ty="decl", kind="const", name="r", a=b.add(ty="arrlit", xs=[cur()])),
                   b.add(ty="log", a=b.add(ty="lassignv", op=op, name="x", a=bump(1))),
                   b.add(ty="log", a=b.add(ty="var", name="x")),
                   b.add(ty="log", a=b.add(ty="lassignm", op=op, a=b.add(ty="var", name="o"), key=cs("a"), c=bump(10))),
                   b.add(ty="log", a=b.add(ty="var", name="o")),
                   b.add(ty="log", a=b.add(ty="lassignm", op=op, a=b.add(ty="var", name="r"), key=cs("0"), c=bump(100))),
                   b.add(ty="log", a=b.add(ty="var", name="r")),
                   b.add(ty="log", a=b.add(ty="lassignm", op=op, a=b.add(ty="var", name="o"), key=cs("zz"), c=bump(1000))),
                   b.add(ty="log", a=b.add(ty="var", name="o")),          # a short-circuited assignment must not create the property
                   b.add(ty="decl", kind="const", name="cx", a=cur()),
                   # a constant target: TypeError only if the assignment really happens
                   b.add(ty="try", a=b.add(ty="block", xs=[b.add(ty="log", a=b.add(ty="lassignv", op=op, name="cx", a=bump(10000)))]),
                         b=b.add(ty="block", xs=[b.add(ty="log", a=b.add(ty="var", name="e"))]), cname="e", c=0),
                   b.add(ty="log", a=b.add(ty="var", name="n"))]
            xs.append(b.add(ty="block", xs=blk)); ncases += 5
            if len(xs) >= per_prog: flush()
    flush()
    return progs, ncases


def accessor_family(first_id):
    """accessor inheritance: parent halves x derived halves of one accessor name x {read, write} on an instance of the derived
    class (a class that declares only one half hides BOTH inherited halves), plus static-side lookups of the same shapes"""
    progs = []; ncases = 0
    cs = G.cs
    halves = ["", "g", "s", "gs"]
    for ph in halves:
        for dh in halves:
            b = G.B()
            def cls(name, parent, h, tag):
                gfn = sfn = 0
                if "g" in h:
                    body = b.add(ty="block", xs=[b.add(ty="log", a=b.add(ty="str", cs=cs(tag + "g"))), b.add(ty="return", a=b.add(ty="num", v=7 if tag == "A" else 8))])
                    gfn = b.add(ty="func", params=[], body=body, name="g1", arrow=0, defs=[], gen=0)
                if "s" in h:
                    body = b.add(ty="block", xs=[b.add(ty="log", a=b.add(ty="str", cs=cs(tag + "s"))),
                                                 b.add(ty="exprstmt", a=b.add(ty="setmember", a=b.add(ty="this"), key=cs("k1"), c=b.add(ty="var", name="p")))])
                    sfn = b.add(ty="func", params=["p"], body=body, name="g1", arrow=0, defs=[0], gen=0)
                return b.add(ty="classdecl", name=name, parent=parent, params=[], defs=[], body=0, hasctor=0, fkeys=[], finit=[], skeys=[], sinit=[],
                             mkeys=[], mfuncs=[], smkeys=[], smfuncs=[], akeys=[cs("g1")] if h else [], agets=[gfn] if h else [], asets=[sfn] if h else [])
            xs = [cls("A", "", ph, "A"), cls("B", "A", dh, "B"),
                  b.add(ty="decl", kind="const", name="o", a=b.add(ty="new", f=b.add(ty="var", name="B"), args=[]))]
            def guarded(stmt):      # try { stmt } catch (e) { LOG(e) }
                return b.add(ty="try", a=b.add(ty="block", xs=[stmt]), b=b.add(ty="block", xs=[b.add(ty="log", a=b.add(ty="var", name="e"))]), cname="e", c=0)
            xs.append(guarded(b.add(ty="log", a=b.add(ty="member", a=b.add(ty="var", name="o"), key=cs("g1")))))
            xs.append(guarded(b.add(ty="log", a=b.add(ty="setmember", a=b.add(ty="var", name="o"), key=cs("g1"), c=b.add(ty="num", v=5)))))
            xs.append(b.add(ty="log", a=b.add(ty="var", name="o")))
            xs.append(guarded(b.add(ty="log", a=b.add(ty="member", a=b.add(ty="var", name="o"), key=cs("g1")))))
            root = b.add(ty="program", xs=xs)
            progs.append(dict(id=first_id + len(progs), root=root, nodes=b.nodes, resp=[], family="accessors")); ncases += 3
    return progs, ncases


def main(tier):
    c = vlib.Check("C01")
    exe = vlib.build_harness()
    quick = tier == "quick"
    J = mjcheck.Judge(c, exe)
    J.announce_dead_findings()
    nrand = 2500 if quick else 40000
    fam, ncases = operator_family(1000000)
    afam, nacases = assignment_family(2000000)
    accfam, naccs = accessor_family(3000000)
    batches = [("operator family", fam), ("logical assignment family", afam), ("accessor inheritance family", accfam)]
    CH = 5000
    for k in range(0, nrand, CH):
        batches.append(("random programs %d" % (k // CH), mjcheck.gen_programs(c.seed * 1000 + k, min(CH, nrand - k), objects=True, gens=True, first_id=k)))
    total = 0; nontrivial = 0
    for label, progs in batches:
        res, exp = M.run_spec(progs, "c01")
        c.add_tlc(res)
        judged = [P for P in progs if M.expected_events(exp[P["id"]]) is not None]
        ng = M.run_node(judged, "c01")
        jobs = [{"id": P["id"], "source": M.ts_source(P), "resp": [], "mode": "immediate", "path": "/p/main.ts", "max_steps": 150000} for P in progs]
        got = M.run_jobs(exe, "prog", jobs)
        for P in progs:
            r = J.judge(P, exp[P["id"]], (ng.get(P["id"], []) if ng is not None else None), got[P["id"]], jobs[0]["source"] if False else M.ts_source(P), what=label)
            total += 1
            if r in ("ok", "known", "violation") and len(exp[P["id"]]["out"]) > 1: nontrivial += 1
        log("%s: %d programs, TLC %d states; so far %s" % (label, len(progs), res.distinct, dict(J.stats)))
        for P in progs[:1]:
            c.sample({"family": label, "source": M.ts_source(P)[:600], "expected": M.expected_events(exp[P["id"]])})
    # ---- built-in library: index arithmetic of the array and string methods (JSLib.tla enumerates every call)
    lib = dict(cases=0, agree=0, spec_vs_node=0, methods=0) if os.environ.get("VERIF_SKIP_LIB") else jslib.check(c, exe, "quick" if quick else "full", jslib.QUICK_ARGS if quick else jslib.FULL_ARGS, ["array", "string", "math"])
    log("library family: %d calls of %d methods, %d agree with JSLib.tla, %d excluded (spec disagrees with the reference engine)" % (lib["cases"], lib["methods"], lib["agree"], lib["spec_vs_node"]))
    if lib["spec_vs_node"] > 0.03 * lib["cases"]:
        vlib.tool_error("JSLib.tla disagrees with the reference engine on %d of %d calls: the specification needs repair" % (lib["spec_vs_node"], lib["cases"]))
    total += lib["cases"]; nontrivial += lib["agree"]
    # ---- Map / Set: MapSet.tla (ordered entry list, SameValueZero keys, live iteration) - every call history up to a length
    ms = dict(histories=0, agree=0, spec_vs_node=0, violations=0) if os.environ.get("VERIF_SKIP_LIB") else mapset.check(c, exe, quick)
    log("Map/Set family: %d call histories, %d agree with MapSet.tla, %d excluded (spec disagrees with the reference engine)" % (ms["histories"], ms["agree"], ms["spec_vs_node"]))
    if ms["spec_vs_node"] > 0.03 * max(1, ms["histories"]):
        vlib.tool_error("MapSet.tla disagrees with the reference engine on %d of %d histories" % (ms["spec_vs_node"], ms["histories"]))
    total += ms["histories"]; nontrivial += ms["agree"]
    if J.stats["judged"] and J.stats["spec_disagrees_with_reference_engine"] > 0.03 * (J.stats["judged"] + J.stats["spec_disagrees_with_reference_engine"]):
        vlib.tool_error("MiniJS.tla disagrees with the reference engine on more than 3%% of the programs (%d): the specification needs repair" % J.stats["spec_disagrees_with_reference_engine"])
    c.cov["traces_validated_against_impl"] = J.stats["agree"] + lib["agree"] + ms["agree"]
    c.cov["library_calls"] = lib
    c.cov["mapset_histories"] = ms
    c.cov["evaluations"] = total
    c.cov["distinct_nontrivial"] = nontrivial
    c.cov["programs"] = total
    c.cov["operator_cases"] = ncases
    c.cov["logical_assignment_cases"] = nacases
    c.cov["judging"] = dict(J.stats)
    c.cov["known_finding_features"] = dict(J.known_counts)
    c.cov["reference_engine"] = "node" if M.NODE else "absent (spec self-validation skipped)"
    c.cov["rule"] = ("exhaustive: %d operator x operand^2 cases (15 operators, pool of %d operands incl. NaN, -0, +-Infinity, numeric/whitespace/non-ASCII strings, arrays, objects); "
                     "random: %d seeded programs of <= ~120 nodes over the modelled core; non-trivial = at least two observable events; a program is judged only if MiniJS.tla "
                     "terminates inside the model and the reference engine agrees with the spec") % (ncases, len(operand_pool(G.B())), nrand)
    c.assumptions += ["MiniJS.tla is the reading of ECMAScript for the modelled core; it is self-validated against node on every judged program",
                      "not modelled (programs using them are not generated): RegExp, Date, Math, Proxy/Reflect, symbols, non-integer arithmetic, classes, destructuring, getters/setters, the built-in library",
                      "a failing program is excused only if the spec's own evaluation went through a feature listed as an open C01 finding whose witness still fails"]
    c.finish()


def replay(path):
    d = json.load(open(path))["replay"]
    exe = vlib.build_harness()
    job = {"id": 0, "source": d["source"], "resp": [], "mode": "immediate", "path": "/p/main.ts"}
    got = M.run_jobs(exe, "prog", [job], nproc=1)[0]
    a = M.impl_events(got)
    print(d["source"]); print("expected:", d["expected"]); print("got     :", a)
    return 0 if a == d["expected"] else 1
