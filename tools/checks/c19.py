"""C19 — all ways of running a program agree.
There is exactly one specification of what a program does (MiniJS.tla); agreement of entry points is 'every driver's recorded
trace is that behaviour', and the drivers are also compared with each other so that a disagreement names the two entry points.
Drivers: prepare+step, eval (one call), step with interleaved host API reads (get_export, get_export_names, gc_stats,
call_depth), C API tsrun_run, C API tsrun_step; module roles: entry program, host-supplied dependency (native and C API),
registered internal source module.  Programs: seeded MiniJS programs, sync and async (orders answered immediately), that
collect their own log and export it (`export const result`), so that completion value, export and order traffic are the
observables available through every entry point."""
import json, os, random, collections
import vlib, minijs as M, minijs_gen as G, mjcheck
from vlib import log

TAGGER = """const __out: string[] = [];
function __T(v: any): string { if (v === undefined) return 'U'; if (v === null) return 'N'; const t = typeof v;
  if (t === 'number') { if (v !== v) return 'nan'; if (v === 0) return (1 / v < 0) ? 'n:-0' : 'n:0'; return 'n:' + v; }
  if (t === 'string') { const a: number[] = []; for (let i = 0; i < v.length; i++) a.push(v.charCodeAt(i)); return 's:' + a.join(','); }
  if (t === 'boolean') return 'b:' + v; if (t === 'function') return 'fn'; if (Array.isArray(v)) return 'arr';
  if (v instanceof Error) return 'err:' + v.name; return 'ref'; }
function LOG(v: any) { __out.push('L|' + __T(v)); }
"""


def simple(v):
    t = v["t"]
    if t == "arr": return "arr"
    if t in ("obj", "gen", "deep"): return "ref"
    return M.canon(v)


def expected_value(rec):
    if rec["fin"] != "done" or any(ev["e"] == "unmodelled" for ev in rec["out"]): return None
    out = []
    for ev in rec["out"]:
        if ev["e"] == "log": out.append("L|" + simple(ev["v"]))
        elif ev["e"] == "error": out.append("E|" + simple(ev["v"]))
    return "\n".join(out)


def source(P, asyncmode):
    G.ASYNC = asyncmode
    b = G.pr(P, P["root"], 1)
    G.ASYNC = False
    hdr = 'import { order } from "tsrun:host";\n' if asyncmode else ""
    if asyncmode:
        return hdr + TAGGER + "try {\n" + b + "} catch (e) { __out.push('E|' + __T(e)); }\nexport const result = __out.join(\"\\n\");\nresult;\n"
    return TAGGER + "(function () { \"use strict\"; try {\n" + b + "} catch (e) { __out.push('E|' + __T(e)); } })();\nexport const result = __out.join(\"\\n\");\nresult;\n"


def main(tier):
    c = vlib.Check("C19")
    exe = vlib.build_harness()
    quick = tier == "quick"
    findings = vlib.load_known("C19")
    c01 = mjcheck.load_c01_findings(("C01", "C07"))
    n = 500 if quick else 6000
    stats = collections.Counter(); pairs = collections.Counter()
    for (asyncmode, seed) in ((False, 3), (True, 4)):
        progs = mjcheck.gen_programs(c.seed * 23 + seed, n, objects=True, gens=not asyncmode, orders=asyncmode)
        res, exp = M.run_spec(progs, "c19")
        c.add_tlc(res)
        jobs = []
        for P in progs:
            src = source(P, asyncmode)
            jobs.append({"id": P["id"], "source": src, "dep_source": src, "resp": P.get("resp", [])})
        got = M.run_jobs(exe, "entry", jobs, timeout=1800)
        for P in progs:
            rec = exp[P["id"]]; want = expected_value(rec)
            if want is None: stats["unjudged (outside the model / non-terminating)"] += 1; continue
            r = got[P["id"]]
            runs = r.get("runs", {})
            feats0 = set(rec.get("feat", []))
            if not runs:
                # no result at all: the interpreter hung inside a call the host cannot bound (eval) or the driver died
                if any(f in c01 for f in feats0):
                    stats["hung/crashed, program exercises a known C01/C07 finding"] += 1
                else:
                    c.report({"kind": "entry", "what": r.get("status", "panic")}, {"source": jobs[P["id"] - progs[0]["id"]]["source"]},
                             "no driver result for program %d (%s) although MiniJS.tla terminates on it" % (P["id"], r.get("status", "panic")))
                continue
            stats["programs"] += 1
            has_orders = any(ev["e"] == "order" for ev in rec["out"]) or bool(runs.get("step", {}).get("orders"))
            base = runs["step"]
            feats = set(rec.get("feat", []))
            excused_core = any(f in c01 for f in feats)
            for name, o in runs.items():
                # (the exported value is read back through each driver's own API after the run: a run that is not finalised shows here)
                obs = (o["status"], o["value"], tuple(o["orders"]), o.get("export", ""))
                bobs = (base["status"], base["value"], tuple(base["orders"]), base.get("export", ""))
                if name.startswith("role_"):
                    # a module in a dependency role yields its value through the importer: compare value and export
                    obs = (o["status"], o["value"]); bobs = (base["status"], base["export"] if base["status"] == "COMPLETE" else base["value"])
                stats["driver runs"] += 1
                if obs == bobs: stats["driver runs agreeing with prepare+step"] += 1; continue
                feat = {"kind": "entry", "driver": name, "orders": has_orders, "base_status": base["status"], "status": o["status"]}
                hit = None
                for f in findings:
                    if vlib.key_matches(f["key"], feat): hit = f; break
                if hit:
                    c.known_hit.setdefault(hit["id"], {"finding": hit, "count": 0})["count"] += 1; continue
                pairs[name] += 1
                c.report(feat, {"source": jobs[P["id"] - progs[0]["id"]]["source"], "prepare_step": base, name: o},
                         "entry points disagree on program %d: prepare+step -> %s, %s -> %s" % (P["id"], json.dumps(bobs)[:300], name, json.dumps(obs)[:300]))
            # and against the specification (when the core agrees: C01 decides the rest)
            if base["status"] == "COMPLETE" and base["value"] == want: stats["prepare+step equals MiniJS.tla"] += 1
            elif not excused_core and base["status"] != "TIMEOUT":
                stats["prepare+step differs from MiniJS.tla (C01's business)"] += 1
        # ---- completion family: the same programs with a final statement that is NOT a plain expression statement
        # (the completion value then comes from a loop / block / declaration ...): only agreement between the drivers is judged
        TRAILERS = ["let zz = 4;", "var q9;", ";", "while (false) { 1; }", "let ii = 0; while (ii < 3) { ii++; }", "for (let k = 0; k < 3; k++) { k; }", "{ 7; }", "{ }", "if (true) { 8; }",
                    "if (false) { 8; } else { }", "class AA { }", "function ff() { return 1; }", "LL: { 9; break LL; }", "switch (1) { case 1: 10; }", "try { 11; } finally { 12; }",
                    "try { throw 1; } catch (e) { 13; }", "do { 14; } while (false);", "for (const x of [1, 2]) { x; }", "3; let y = 4;", "5; ;", "void 0;"]
        sub = [P for P in progs if expected_value(exp[P["id"]]) is not None and not (set(exp[P["id"]].get("feat", [])) & set(c01))][: (60 if quick else 600)]
        cjobs = []
        for i, P in enumerate(sub):
            src = source(P, asyncmode) + TRAILERS[i % len(TRAILERS)] + "\n"
            cjobs.append({"id": i, "source": src, "dep_source": "", "resp": P.get("resp", [])})
        if not asyncmode:      # the same family as SCRIPTS (no module path, no export): eval() and prepare() take other branches there
            nmod = len(cjobs)
            for i, P in enumerate(sub):
                src = source(P, asyncmode).replace("export const result", "const result") + TRAILERS[(i + 7) % len(TRAILERS)] + "\n"
                cjobs.append({"id": nmod + i, "source": src, "dep_source": "", "resp": [], "script": True})
        cgot = M.run_jobs(exe, "entry", cjobs, timeout=1800) if cjobs else {}
        for i in range(len(cjobs)):
            runs = cgot.get(i, {}).get("runs", {})
            if "step" not in runs: continue
            base = runs["step"]
            for name, o in runs.items():
                if name.startswith("role_") or name == "step": continue
                stats["completion-family driver runs"] += 1
                def nv(v):      # the C API driver cannot look into objects: every object is <obj>; undefined is <U> on both sides
                    if v in ("<undefined>", "<U>"): return "<U>"
                    if v.startswith("<") and not v.startswith(("<n:", "<b:", "<nan", "<N>", "<null>", "<s:")): return "<obj>"
                    return v
                obs = (o["status"], nv(o["value"]), tuple(o["orders"])); bobs = (base["status"], nv(base["value"]), tuple(base["orders"]))
                if obs == bobs: stats["completion-family runs agreeing"] += 1; continue
                has_orders = bool(base.get("orders"))
                feat = {"kind": "entry", "driver": name, "orders": has_orders, "base_status": base["status"], "status": o["status"], "family": "completion"}
                hit = None
                for f in findings:
                    if vlib.key_matches(f["key"], feat): hit = f; break
                if hit: c.known_hit.setdefault(hit["id"], {"finding": hit, "count": 0})["count"] += 1; continue
                c.report(feat, {"source": cjobs[i]["source"], "prepare_step": base, name: o},
                         "entry points disagree on the completion value of a %s ending in `%s`: prepare+step -> %s, %s -> %s" % ("script" if cjobs[i].get("script") else "module", cjobs[i]["source"].rstrip().split("\n")[-1], json.dumps(bobs)[:200], name, json.dumps(obs)[:200]))
        log("%s programs: %s" % ("async" if asyncmode else "sync", dict(stats)))
        c.sample({"source": jobs[0]["source"][-500:], "runs": {k: (v["status"], v["value"][:60]) for k, v in got[progs[0]["id"]].get("runs", {}).items()}})
    c.cov["traces_validated_against_impl"] = stats["driver runs agreeing with prepare+step"]
    c.cov["evaluations"] = stats["driver runs"]
    c.cov["distinct_nontrivial"] = stats["programs"]
    c.cov["summary"] = dict(stats)
    c.cov["rule"] = "%d sync + %d async seeded MiniJS programs x 8 drivers/roles {prepare+step, eval, step+host reads, C API run, C API step, dependency role (native, C API), internal source module}; observables: terminal status, completion value, exported value, order payload sequence" % (n, n)
    c.assumptions += ["programs collect their own log (in-program tagger) because the C API path has no host-native logging module; the tagger runs on every driver alike",
                      "disagreement with MiniJS.tla itself is C01's business and only counted here"]
    # ---- the command line driver: the same file through the plain loop and through the loops used with --max-depth / --timeout
    import subprocess, tempfile, shutil
    cli_dir = os.path.join(vlib.BUILD, "target-cli")
    env = dict(os.environ, CARGO_NET_OFFLINE="true")
    pr = subprocess.run(["cargo", "build", "--offline", "--bin", "tsrun", "--target-dir", cli_dir], cwd="/repo", env=env, stdout=subprocess.PIPE, stderr=subprocess.STDOUT, text=True, timeout=2400)
    cli = os.path.join(cli_dir, "debug", "tsrun")
    if pr.returncode != 0 or not os.path.exists(cli): vlib.tool_error("building the tsrun command line binary failed:\n" + pr.stdout[-2000:])
    CLI_PROGS = [
        'console.log("start"); async function main() { await null; console.log("working"); return 42; }\nmain();',
        'Promise.resolve({ a: 1 });', 'Promise.resolve(1).then((v) => v + 1);', 'Promise.reject(new Error("r")).catch((e) => e.message);',
        'const xs = [1, 2, 3].map((x) => x * 2); console.log(xs.join()); xs;', 'let s = 0; for (let i = 0; i < 10; i++) s += i; s;', 'console.log("only log");',
        'function f(n: number): number { return n === 0 ? 0 : 1 + f(n - 1); } f(200);', '({ k: [1, { z: null }], u: undefined });', '"a string";', 'throw new RangeError("uncaught");',
        'null;', 'undefined;', 'new Map([[1, 2]]);', '[Promise.resolve(3)];', 'async function g() { throw new Error("async boom"); }\ng();', 'class A { x = 1; }\nnew A();', 'Symbol("s").toString();',
    ]
    tmpd = tempfile.mkdtemp(prefix="c19cli", dir=vlib.BUILD)
    cli_ok = 0; cli_n = 0
    try:
        for i, src in enumerate(CLI_PROGS):
            path = os.path.join(tmpd, "p%d.ts" % i); open(path, "w").write(src + "\n")
            outs = {}
            for name, extra in (("plain", []), ("max-depth", ["--max-depth", "100000"]), ("timeout", ["--timeout", "600000"])):
                try:
                    r = subprocess.run([cli] + extra + [path], capture_output=True, text=True, timeout=60)
                    outs[name] = (r.returncode, r.stdout, r.stderr.replace(tmpd, "<dir>"))
                except subprocess.TimeoutExpired:
                    outs[name] = ("TIMEOUT", "", "")
            cli_n += 1
            if len({v for v in outs.values()}) == 1: cli_ok += 1; continue
            other = next(nm for nm in outs if outs[nm] != outs["plain"])
            c.report({"kind": "entry", "driver": "cli-" + other, "orders": False, "base_status": "cli-plain", "status": "differs"}, {"source": src, "outputs": {k_: list(v) for k_, v in outs.items()}},
                     "the command line prints different things for the same file: plain -> %r, --%s -> %r\n  program: %s" % (outs["plain"][:2], other, outs[other][:2], src[:200]))
    finally:
        shutil.rmtree(tmpd, ignore_errors=True)
    log("command line: %d programs x {plain, --max-depth, --timeout}: %d print the same" % (cli_n, cli_ok))
    c.cov["cli_programs"] = cli_n
    c.finish()


def replay(path):
    d = json.load(open(path)); print(json.dumps(d, indent=1)[:5000]); return 0
