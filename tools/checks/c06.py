"""C06 — the host keeps control: bounded steps, no script can abort the process.
M : StepBudget.tla models host steps over compositions of call-path kinds, each marked trampolined or re-entrant AS THE CODE
    HAS IT; TLC enumerates every path of <= MaxPath kinds x loop sizes and checks that the bounded-step property holds
    exactly on the paths without a re-entrant kind (PropertyIffTrampolined), and emits the prediction for every path.
T : every emitted path is printed as a program (one template per kind), run on the real interpreter under hook H3 (VM
    instructions and nested-run depth per host step), and the measured classification must equal the spec's: a kind the
    spec marks trampolined that shows growth with N, or a nested run, is a VIOLATION; the re-entrant rows are known findings.
Plus: recursion to depth N through each kind (call depth limited by the host budget, never by the native stack) and natives
with huge size arguments (RangeError / Err, never an abort), each in an isolated child process."""
import json, os, random, subprocess, resource, collections
import vlib, minijs as M
from vlib import log

HDR = 'import { LOG, ERR } from "verif:host";\n'
T = {
 "plain": "function f{i}() {{ {b} }} f{i}();", "method": "const o{i} = {{ m() {{ {b} }} }}; o{i}.m();", "ctor": "class A{i} {{ constructor() {{ {b} }} }} new A{i}();",
 "bound": "function f{i}() {{ {b} }} f{i}.bind(null)();", "arrow": "const f{i} = () => {{ {b} }}; f{i}();",
 "getter": "const o{i} = {{ get g() {{ {b} return 1; }} }}; o{i}.g;", "setter": "const o{i} = {{ set g(v) {{ {b} }} }}; o{i}.g = 1;",
 "valueOf": "const o{i} = {{ valueOf() {{ {b} return 1; }} }}; +o{i};", "toString": "const o{i} = {{ toString() {{ {b} return ''; }} }}; `${{o{i}}}`;",
 "forEach": "[1].forEach(() => {{ {b} }});", "map": "[1].map(() => {{ {b} }});", "sort": "[2, 1].sort((a, b) => {{ {b} return a - b; }});",
 "reduce": "[1, 2].reduce((a, b) => {{ {b} return a; }});", "replace": "'a'.replace('a', () => {{ {b} return 'b'; }});", "arrayFrom": "Array.from([1], () => {{ {b} }});",
 "mapForEach": "new Map([[1, 1]]).forEach(() => {{ {b} }});", "genNext": "function* g{i}() {{ {b} }} g{i}().next();", "forOfGen": "function* g{i}() {{ {b} yield 1; }} for (const x{i} of g{i}()) {{}}",
 "promiseThen": "Promise.resolve(1).then(() => {{ {b} }});", "asyncCall": "async function f{i}() {{ {b} }} f{i}();", "tagged": "function t{i}(s) {{ {b} }} t{i}`x`;",
 "defaultParam": "function h{i}() {{ {b} return 1; }} function f{i}(a = h{i}()) {{}} f{i}();", "fieldInit": "function h{i}() {{ {b} return 1; }} class A{i} {{ x = h{i}(); }} new A{i}();",
 "staticBlock": "class A{i} {{ static {{ {b} }} }}", "proxyGet": "new Proxy({{}}, {{ get() {{ {b} return 1; }} }}).x;", "reflectApply": "function f{i}() {{ {b} }} Reflect.apply(f{i}, null, []);",
 "fnCall": "function f{i}() {{ {b} }} f{i}.call(null);", "fnApply": "function f{i}() {{ {b} }} f{i}.apply(null, []);",
 "superCtor": "class B{i} {{ constructor() {{ {b} }} }} class A{i} extends B{i} {{ constructor() {{ super(); }} }} new A{i}();",
}


def program(path, n):
    body = "let s = 0; for (let i = 0; i < %d; i++) s += i;" % n
    for idx in range(len(path) - 1, -1, -1):
        body = T[path[idx]].format(i=idx, b=body)
    return HDR + body + "\n"


RECURSION = {
 "plain": "function r(n) {{ return n === 0 ? 0 : 1 + r(n - 1); }} LOG(r({n}));",
 "method": "const o = {{ r(n) {{ return n === 0 ? 0 : 1 + this.r(n - 1); }} }}; LOG(o.r({n}));",
 "arrow": "const r = (n) => n === 0 ? 0 : 1 + r(n - 1); LOG(r({n}));",
 "ctor": "class C {{ constructor(n) {{ this.d = n === 0 ? 0 : 1 + new C(n - 1).d; }} }} LOG(new C({n}).d);",
 "getter": "const o = {{ n: {n}, get r() {{ if (this.n === 0) return 0; this.n--; return 1 + this.r; }} }}; LOG(o.r);",
 "forEach": "function r(n) {{ let v = 0; if (n > 0) [1].forEach(() => {{ v = 1 + r(n - 1); }}); return v; }} LOG(r({n}));",
 "valueOf": "function mk(n) {{ return {{ valueOf() {{ return n === 0 ? 0 : 1 + mk(n - 1); }} }}; }} LOG(+mk({n}));",
 "genNext": "function* g(n) {{ yield n === 0 ? 0 : 1 + g(n - 1).next().value; }} LOG(g({n}).next().value);",
 "json": "let o = 0; for (let i = 0; i < {n}; i++) o = {{ o }}; LOG(JSON.stringify(o).length > 0);",
 "toStringArr": "let a = []; for (let i = 0; i < {n}; i++) a = [a]; LOG(String(a).length);",
}
# natives that walk a value graph, handed a CYCLIC one (n is ignored): a catchable error or a finite result, never a dead process
CYCLIC = {
 "json_cyclic_array": "const a = [1]; a.push(a); try {{ LOG(JSON.stringify(a)); }} catch (e) {{ LOG(e.name); }}",
 "json_cyclic_nested_arrays": "const a = [[]]; a[0].push([a]); try {{ LOG(JSON.stringify(a)); }} catch (e) {{ LOG(e.name); }}",
 "json_cyclic_object": "const o = {{}}; o.self = o; try {{ LOG(JSON.stringify(o)); }} catch (e) {{ LOG(e.name); }}",
 "json_cyclic_mixed": "const o = {{ a: [] }}; o.a.push({{ back: o }}); try {{ LOG(JSON.stringify(o, null, 2)); }} catch (e) {{ LOG(e.name); }}",
 "export_cyclic_array": "export const cyc = [1]; cyc.push(cyc); LOG(cyc.length);",
 "structuredClone_cyclic": "const o = {{ k: [] }}; o.k.push(o); try {{ const c = structuredClone(o); LOG(c.k[0] === c); }} catch (e) {{ LOG(e.name); }}",
}
SIZES = {
 "repeat": 'LOG("x".repeat({s}).length);', "repeatWide": 'LOG("abcdefgh".repeat({s}).length);', "repeatLong": 'LOG("ab".repeat(2048).repeat({s}).length);', "padEndWide": 'LOG("a".padEnd({s}, "xyz").length);', "padStart": 'LOG("a".padStart({s}).length);', "newArray": "LOG(new Array({s}).length);", "arrayFill": "LOG(new Array({s}).fill(0).length);",
 "arrayFrom": "LOG(Array.from({{ length: {s} }}).length);", "setLength": "const a = []; a.length = {s}; LOG(a.length);", "join": 'LOG(new Array({s}).join("x").length);',
 "stringConcatLoop": 'let s = "ab"; for (let i = 0; i < 40; i++) s = s + s; LOG(s.length);', "toFixed": "LOG((1.5).toFixed({s}));", "arrayIndex": "const a = []; a[{s}] = 1; LOG(a.length);",
}
SIZE_VALUES = ["2 ** 32 - 1", "2 ** 32", "2 ** 53", "1e10", "-1", "Infinity", "NaN", "2 ** 62", "2 ** 63", "2 ** 64", "1e300"]
# programs that never end, one per loop shape: the host must get control back after every step (status HOST-STOPPED, never HANG)
ENDLESS = {
 "for_empty_stmt": "for (;;);", "while_empty_stmt": "while (true);", "do_empty_stmt": "do ; while (true);", "for_empty_block": "for (;;) {}", "while_one": "while (1) {}",
 "for_continue": "for (;;) { continue; }", "labelled_continue": "L: for (;;) { continue L; }", "nested_labelled": "A: for (;;) { for (;;) { continue A; } }",
 "counting": "let i = 0; while (true) i++;", "for_no_update": "for (let i = 0; ; ) { i = 1 - i; }", "in_function": "(function f() { for (;;); })();", "in_arrow": "(() => { while (true); })();",
 "in_switch": "switch (1) { default: for (;;); }", "in_try": "try { for (;;); } finally { }", "try_continue_finally": "for (;;) { try { continue; } finally { } }",
 "for_of_endless_generator": "function* g() { while (true) yield 1; } for (const x of g());", "do_while_continue": "do { continue; } while (true);",
 "if_chain_loop": "let k = 0; for (;;) { if (k) k = 0; else k = 1; }", "label_block_loop": "B: { for (;;) { if (false) break B; } }", "method_loop": "const o = { m() { for (;;); } }; o.m();",
 "ctor_loop": "class C { constructor() { while (true); } } new C();", "getter_loop_statement": "let n = 0; for (;;) n = -n;",
}


def isolated(exe, src, timeout=25, mem_gb=3):
    """one program in its own child process with an address-space limit: an abort / overflow / OOM is data"""
    def lim():
        resource.setrlimit(resource.RLIMIT_AS, (mem_gb << 30, mem_gb << 30))
    job = json.dumps({"id": 0, "source": src, "max_steps": 3000000}) + "\n"
    try:
        r = subprocess.run([exe, "stepbudget"], input=job, capture_output=True, text=True, timeout=timeout, preexec_fn=lim)
    except subprocess.TimeoutExpired:
        return {"status": "HANG"}
    if r.returncode != 0 or not r.stdout.strip():
        return {"status": "ABORT rc=%d" % r.returncode}
    return json.loads(r.stdout.strip().splitlines()[-1])


def main(tier):
    c = vlib.Check("C06")
    exe = vlib.build_harness()
    quick = tier == "quick"
    findings = vlib.load_known("C06")
    def known(feat):
        for f in findings:
            if vlib.key_matches(f["key"], feat):
                c.known_hit.setdefault(f["id"], {"finding": f, "count": 0})["count"] += 1; return True
        return False
    # ---- M: the step-budget machine over all compositions
    maxpath = 2 if quick else 3
    cfg = vlib.write_cfg("StepBudget.cfg", "SPECIFICATION Spec\nCONSTANTS MaxPath = %d\n Ns = {10, 1000}\n Emitting = TRUE\nINVARIANT PropertyIffTrampolined\nINVARIANT Emit\nCHECK_DEADLOCK FALSE\n" % maxpath)
    res = vlib.run_tlc("StepBudget.tla", cfg, "stepbudget", workers=10, timeout=3000, heap="8g")
    c.add_tlc(res)
    for inv in res.violated():
        c.report({"kind": "spec-invariant", "invariant": inv}, {"tlc_tail": res.tail()}, "StepBudget.tla violates " + inv)
    if not res.ok and not res.violated(): vlib.tool_error("StepBudget model checking failed:\n" + res.tail())
    pred = collections.defaultdict(dict)
    for d in res.prints("S"):
        pred[tuple(d["path"])][d["n"]] = (d["maxInstr"], d["maxNative"])
    paths = sorted(pred)
    if not quick and len(paths) > 6000:
        rnd = random.Random(c.seed); paths = [p for p in paths if len(p) <= 2] + rnd.sample([p for p in paths if len(p) == 3], 4000)
    # ---- T: measure the same compositions on the real interpreter
    jobs = []; meta = []
    for p in paths:
        for n in (10, 1000):
            jobs.append({"id": len(jobs), "source": program(list(p), n), "max_steps": 2000000}); meta.append((p, n))
    got = M.run_jobs(exe, "stepbudget", jobs, timeout=3000)
    byp = collections.defaultdict(dict)
    for j, (p, n) in zip(jobs, meta): byp[p][n] = got[j["id"]]
    agree = 0
    for p in paths:
        r10, r1000 = byp[p].get(10, {}), byp[p].get(1000, {})
        spec_bounded = pred[p][1000][0] <= 8 and pred[p][1000][1] == 0
        if r10.get("status") not in ("COMPLETE",) or r1000.get("status") not in ("COMPLETE",):
            feat = {"kind": "step-budget", "what": "abnormal", "path_kinds": sorted(set(p)), "status": str(r1000.get("status"))[:12]}
            if not known(feat):
                c.report(feat, {"path": p, "n10": r10, "n1000": r1000, "source": program(list(p), 10)}, "composition %s does not complete normally: %s / %s" % ("->".join(p), r10.get("status"), r1000.get("status")))
            continue
        grows = r1000["max_instr"] > 4 * r10["max_instr"] + 50
        impl_bounded = (not grows) and r1000["max_depth"] == 0 and r1000["max_instr"] <= 8
        if impl_bounded == spec_bounded: agree += 1; 
        if not impl_bounded:
            # which kind is responsible: the first re-entrant kind on the path per the spec, else the path itself
            culprit = next((k for k in p if k not in ("plain", "method", "ctor", "bound", "arrow", "asyncCall", "defaultParam", "fieldInit", "superCtor", "staticBlock")), None)
            feat = {"kind": "step-budget", "what": "unbounded-step", "reentrant_kind": culprit or "none", "spec_says_bounded": spec_bounded}
            if spec_bounded or not known(feat):
                c.report(feat, {"path": p, "n10": r10, "n1000": r1000, "source": program(list(p), 10)},
                         "one host step executes %d VM instructions (N=10: %d) at nested-run depth %d on path %s, which StepBudget.tla marks %s"
                         % (r1000["max_instr"], r10["max_instr"], r1000["max_depth"], "->".join(p), "trampolined" if spec_bounded else "re-entrant"))
        elif not spec_bounded:
            log("note: path %s is bounded on this tree although StepBudget.tla marks a kind on it re-entrant" % "->".join(p))
    log("%d compositions measured at N=10 and N=1000: %d classified as StepBudget.tla predicts" % (len(paths), agree))
    # ---- recursion depth through each kind, and huge size arguments: isolated children
    iso = 0
    depths = [1000, 20000] if quick else [1000, 20000, 100000]
    for kind, tpl in RECURSION.items():
        for n in depths:
            # (deep recursion is slow on this interpreter - 100,000 constructor frames take more than 30 s - but every step stays bounded: give it time)
            r = isolated(exe, HDR + tpl.format(n=n) + "\n", timeout=25 if n <= 20000 else 300); iso += 1
            st = r.get("status", "?")
            if st in ("COMPLETE", "ERROR", "HOST-STOPPED"): continue       # finished, or a catchable script error / host budget
            feat = {"kind": "recursion", "path_kind": kind, "status": st.split()[0]}
            if not known(feat):
                c.report(feat, {"kind": kind, "depth": n, "result": r}, "recursion to depth %d through %s ends the process: %s" % (n, kind, st))
    for kind, src in ENDLESS.items():
        job = json.dumps({"id": 0, "source": HDR + src + "\n", "max_steps": 20000}) + "\n"
        try:
            pr = subprocess.run([exe, "stepbudget"], input=job, capture_output=True, text=True, timeout=30)
            r = json.loads(pr.stdout.strip().splitlines()[-1]) if pr.returncode == 0 and pr.stdout.strip() else {"status": "ABORT rc=%d" % pr.returncode}
        except subprocess.TimeoutExpired:
            r = {"status": "HANG"}
        iso += 1
        if r.get("status") == "HOST-STOPPED": continue
        feat = {"kind": "endless", "shape": kind, "status": r.get("status", "?").split()[0]}
        if not known(feat):
            c.report(feat, {"shape": kind, "source": src, "result": r}, "the never-ending program `%s` does not hand control back to the host: %s (expected HOST-STOPPED after 20000 steps)" % (src, r.get("status")))
    for kind, tpl in CYCLIC.items():
        r = isolated(exe, HDR + tpl.format(n=0) + "\n"); iso += 1
        st = r.get("status", "?")
        if st in ("COMPLETE", "ERROR", "HOST-STOPPED"): continue
        feat = {"kind": "recursion", "path_kind": kind, "status": st.split()[0]}
        if not known(feat):
            c.report(feat, {"kind": kind, "result": r}, "a cyclic value handed to %s ends the process: %s" % (kind, st))
    for name, tpl in SIZES.items():
        for s in (SIZE_VALUES if "{s}" in tpl else [""]):
            r = isolated(exe, HDR + "try { " + tpl.format(s=s) + " } catch (e) { LOG(String(e).slice(0, 40)); }\n", timeout=40); iso += 1
            st = r.get("status", "?")
            if st in ("COMPLETE", "ERROR", "HOST-STOPPED"): continue
            feat = {"kind": "size-argument", "native": name, "status": st.split()[0]}
            if not known(feat):
                c.report(feat, {"native": name, "size": s, "result": r}, "%s with size %s ends the process: %s" % (name, s, st))
    log("%d isolated recursion / size-argument scenarios" % iso)
    c.sample({"path": list(paths[len(paths) // 2]), "predicted": pred[paths[len(paths) // 2]], "measured_n1000": byp[paths[len(paths) // 2]].get(1000)})
    c.cov["traces_validated_against_impl"] = agree
    c.cov["evaluations"] = len(jobs) + iso
    c.cov["distinct_nontrivial"] = len(paths) + iso
    c.cov["rule"] = "all compositions of <= %d call-path kinds out of 29 (x N in {10, 1000}) enumerated by TLC and measured with hook H3; recursion through 10 kinds to depth %s; %d natives x size arguments %s in isolated children" % (maxpath, depths, len(SIZES), SIZE_VALUES)
    c.assumptions += ["'grows with N' = max instructions per step at N=1000 exceeds 4x the value at N=10 plus 50", "children run under a 3 GB address-space limit; an abort, a native stack overflow or an allocation failure is recorded as data"]
    c.finish()


def replay(path):
    d = json.load(open(path)); print(json.dumps(d, indent=1)[:3000]); return 0
