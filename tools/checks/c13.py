"""C13 — the collector implements guard reachability exactly and memory-safely.
M : GcHeap.tla model-checked exhaustively (all API histories inside the bound), invariants over ghost state.
R : every behaviour TLC enumerated/simulated is replayed on the real Heap<TestObj>; the abstract observation
    is compared after EVERY call (streamed: tlc | vrunner gcreplay).
T : long seeded random histories recorded from the real heap (crossing the 256-slot chunk and 16-guard pool
    boundaries) are validated against GcHeapTrace.tla.
Memory verdict: a sample of the same histories is executed under Miri (vrunner gcmiri)."""
import json, os, random, shutil, subprocess, time
import vlib
from vlib import log

INVS = ["ReachableIntact", "NoDoubleTenancy", "StatsAgree", "ExactAfterCollect", "PooledAreReset"]
OPS = ["create_guard", "drop_guard", "clear", "alloc", "clone", "drop", "guard", "unguard", "write", "link", "unlink",
       "collect", "set_threshold", "drop_heap"]


def cfg_text(ng, ns, nh, depth, thresholds, emitting=True, checkgen=True):
    t = "SPECIFICATION Spec\nCONSTANTS NG = %d\n NS = %d\n NH = %d\n MaxDepth = %d\n CheckGen = %s\n Thresholds = {%s}\n Emitting = %s\nVIEW View\n" % (
        ng, ns, nh, depth, "TRUE" if checkgen else "FALSE", ", ".join(str(x) for x in thresholds), "TRUE" if emitting else "FALSE")
    t += "".join("INVARIANT %s\n" % i for i in INVS)
    if emitting:
        t += "INVARIANT EmitBehaviour\n"
    return t + "CHECK_DEADLOCK FALSE\n"


def stream(exe, name, cfg, ng, nh, workers, timeout, extra=(), keep=None):
    """tlc | vrunner gcreplay ; returns (TlcResult, mismatches, summary). `keep`: file to tee B lines into (sampled)."""
    metadir = os.path.join(vlib.BUILD, "tlc", name)
    shutil.rmtree(metadir, ignore_errors=True); os.makedirs(metadir)
    cmd = vlib.tlc_cmd("GcHeap.tla", cfg, metadir, workers=workers, extra=extra)
    t0 = time.time()
    tlc = subprocess.Popen(cmd, cwd=vlib.SPEC, env=vlib.tlc_env(heap="8g"), stdout=subprocess.PIPE, stderr=subprocess.STDOUT)
    src = tlc.stdout
    tee = None
    if keep:
        # sample every k-th behaviour line into `keep` (for the Miri run) while passing everything on
        tee = subprocess.Popen(["awk", '/^<<"B"/ { n++; if (n %% %d == 1) print > "%s" } { print }' % (keep[1], keep[0])],
                               stdin=tlc.stdout, stdout=subprocess.PIPE)
        tlc.stdout.close(); src = tee.stdout
    run = subprocess.Popen([exe, "gcreplay", str(ng), str(nh)], stdin=src, stdout=subprocess.PIPE, text=True)
    src.close()
    try:
        out, _ = run.communicate(timeout=timeout)
        tlc.wait(timeout=60)
    except subprocess.TimeoutExpired:
        tlc.kill(); run.kill(); vlib.tool_error("GcHeap TLC/replay timed out (%s)" % name)
    shutil.rmtree(metadir, ignore_errors=True)
    lines = out.splitlines()
    res = vlib.TlcResult(tlc.returncode, [l[5:] for l in lines if l.startswith("TLC: ")])
    res.wall = time.time() - t0; res.cmd = " ".join(cmd) + " | vrunner gcreplay"
    if tlc.returncode not in (0, 12, 13):
        log(res.tail()); vlib.tool_error("TLC failed rc=%s (%s)" % (tlc.returncode, name))
    mism = [json.loads(l[9:]) for l in lines if l.startswith("MISMATCH ")]
    summ = [json.loads(l[8:]) for l in lines if l.startswith("SUMMARY ")]
    if not summ:
        vlib.tool_error("gcreplay produced no summary")
    return res, mism, summ[0]


def feature_of_ops(ops, why):
    names = [o["op"] for o in ops]
    return {"kind": "heap-history", "ops": sorted(set(names)), "why": why.split(":")[0][:40]}


def validate_trace(path, name, timeout=900):
    cfg = os.path.join(vlib.SPEC, "GcHeapTrace.cfg")
    res = vlib.run_tlc("GcHeapTrace.tla", cfg, name, workers=1, timeout=timeout, heap="4g",
                       java="-Xss1g -Dtlc2.tool.queue.IStateQueue=StateDeque", env={"TRACE": path}, accept=(0, 10, 12, 13))
    matched = total = None; diffs = []
    for l in res.lines:
        if l.startswith('<<"MATCHED"'):
            nums = [int(x) for x in l.replace(">>", "").split(",")[1:]]
            matched, total = nums[0], nums[1]
        if l.startswith('<<"DIFF"'):
            diffs.append(l)
    return res, matched, total, diffs


def to_compact(behaviours, ng, nh):
    out = []
    for b in behaviours:
        out.append("B %d %d" % (ng, nh))
        for op in b["hist"]:
            h = op.get("h", 0); cur = 0
            if h and "obs" in op and op["obs"][4][h - 1][0] == 1:
                cur = 1
            out.append("%d %d %d %d %d %d" % (OPS.index(op["op"]), op.get("g", 0), h, op.get("h2", 0), op.get("v", op.get("n", 0)), cur))
    return out


def trace_to_compact(path, ng, nh):
    out = ["B %d %d" % (ng, nh)]
    for l in open(path):
        e = json.loads(l)
        if e["op"] == "final":
            continue
        out.append("%d %d %d %d %d %d" % (OPS.index(e["op"]), e.get("g", 0), e.get("h", 0), e.get("h2", 0), e.get("v", e.get("n", 0)), 1 if "hv" in e else 0))
    return out


def run_miri(shards, timeout):
    """runs vrunner gcmiri under Miri on each shard (list of compact lines), in parallel. Returns (calls, errors)."""
    d = os.path.join(vlib.BUILD, "gc"); os.makedirs(d, exist_ok=True)
    env = vlib.cargo_env()
    # no aliasing model: gc.rs:489 derives a &mut GcBox from a shared reference, which Stacked Borrows rejects on
    # the very first pool reuse; the property is about freed / out-of-bounds memory, which Miri still checks.
    env["MIRIFLAGS"] = "-Zmiri-disable-isolation -Zmiri-disable-stacked-borrows"
    tdir = os.path.join(vlib.BUILD, "target-miri")
    procs = []
    for i, lines in enumerate(shards):
        p = os.path.join(d, "miri_%d.txt" % i)
        open(p, "w").write("\n".join(lines) + "\n")
        procs.append((p, subprocess.Popen(["cargo", "+nightly", "miri", "run", "--offline", "--target-dir", tdir, "--", "gcmiri"],
                                          cwd=vlib.HARNESS, env=env, stdin=open(p), stdout=subprocess.PIPE, stderr=subprocess.STDOUT, text=True)))
        if i == 0:
            time.sleep(0.5)
    calls = 0; errors = []
    for p, pr in procs:
        try:
            out, _ = pr.communicate(timeout=timeout)
        except subprocess.TimeoutExpired:
            pr.kill(); vlib.tool_error("Miri replay timed out")
        ok = False
        for l in out.splitlines():
            if l.startswith("MIRI-REPLAY"):
                ok = True
                calls += int(l.split("calls=")[1].split()[0])
        if "Undefined Behavior" in out or "error: " in out and not ok:
            errors.append((p, out[-3000:]))
        elif not ok:
            vlib.tool_error("Miri run produced no summary:\n" + out[-2000:])
    return calls, errors


def main(tier):
    c = vlib.Check("C13")
    exe = vlib.build_harness()
    quick = tier == "quick"
    rnd = random.Random(c.seed)
    gcdir = os.path.join(vlib.BUILD, "gc"); os.makedirs(gcdir, exist_ok=True)
    keepfile = os.path.join(gcdir, "keep_exh.txt")
    for f in (keepfile,):
        if os.path.exists(f): os.remove(f)
    total_beh = 0; total_calls = 0
    # ---- M + R, exhaustive
    bounds = [(2, 3, 3, 7, [0, 1, 2])] if quick else [(3, 4, 3, 7, [0, 1, 2]), (2, 2, 3, 8, [0, 1])]
    for (ng, ns, nh, depth, thr) in bounds:
        cfg = vlib.write_cfg("GcHeap_%d_%d_%d_%d.cfg" % (ng, ns, nh, depth), cfg_text(ng, ns, nh, depth, thr))
        res, mism, summ = stream(exe, "gcheap", cfg, ng, nh, workers=12 if quick else 14, timeout=900 if quick else 6000,
                                 keep=(keepfile, 2003) if (ng, nh) == bounds[0][0:1] + bounds[0][2:3] else None)
        c.add_tlc(res)
        for inv in res.violated():
            c.report({"kind": "spec-invariant", "invariant": inv}, {"tlc_tail": res.tail()},
                     "GcHeap.tla (model of src/gc.rs) violates %s inside the bound NG=%d NS=%d NH=%d depth=%d" % (inv, ng, ns, nh, depth))
        if not res.ok and not res.violated():
            vlib.tool_error("TLC did not finish cleanly:\n" + res.tail())
        for m in mism:
            c.report(feature_of_ops(m["ops"], m["why"]), {"ops": m["ops"], "why": m["why"]},
                     "real Heap diverges from GcHeap.tla: %s ; history=%s" % (m["why"], json.dumps(m["ops"])))
        total_beh += summ["behaviours"]; total_calls += summ["calls"]
        if summ["sample"]: c.sample({"exhaustive_behaviour": summ["sample"]})
        log("exhaustive NG=%d NS=%d NH=%d depth=%d: %d distinct states, %d behaviours replayed, %d mismatches (%.0fs)"
            % (ng, ns, nh, depth, res.distinct, summ["behaviours"], summ["mismatches"], res.wall))
    # ---- R, simulation beyond the exhaustive bound
    simkeep = os.path.join(gcdir, "keep_sim.txt")
    if os.path.exists(simkeep): os.remove(simkeep)
    sng, sns, snh, sdepth = 3, 4, 4, 40
    cfg = vlib.write_cfg("GcHeap_sim.cfg", cfg_text(sng, sns, snh, sdepth, [0, 1, 2, 3]).replace("VIEW View\n", ""))
    nsim = 1500 if quick else 40000
    res, mism, summ = stream(exe, "gcsim", cfg, sng, snh, workers=4, timeout=900 if quick else 6000,
                             extra=["-simulate", "num=%d" % (nsim // 4), "-depth", str(sdepth + 1), "-seed", str(c.seed)], keep=(simkeep, 37))
    c.add_tlc(res)
    for inv in res.violated():
        c.report({"kind": "spec-invariant", "invariant": inv}, {"tlc_tail": res.tail()}, "GcHeap.tla violates %s in simulation" % inv)
    for m in mism:
        c.report(feature_of_ops(m["ops"], m["why"]), {"ops": m["ops"], "why": m["why"]},
                 "real Heap diverges from GcHeap.tla: %s ; history=%s" % (m["why"], json.dumps(m["ops"])))
    total_beh += summ["behaviours"]; total_calls += summ["calls"]
    log("simulation depth %d: %d behaviours replayed, %d mismatches" % (sdepth, summ["behaviours"], summ["mismatches"]))
    # ---- T: long random histories recorded from the implementation
    ntr = 3 if quick else 12
    nops = 3000 if quick else 8000
    accepted = 0; events = 0; trace_files = []
    for i in range(ntr):
        p = os.path.join(gcdir, "trace_%d.ndjson" % i)
        r = subprocess.run([exe, "gctrace", str(rnd.randrange(1, 1 << 30)), str(nops), "40", "400", p], stdout=subprocess.PIPE, text=True, timeout=600)
        if r.returncode != 0:
            vlib.tool_error("gctrace failed")
        info = json.loads(r.stdout.strip().splitlines()[-1])
        res, matched, total, diffs = validate_trace(p, "gctrace%d" % i, timeout=1800)
        c.add_tlc(res)
        events += total or 0
        viol = res.violated()
        if matched is None:
            vlib.tool_error("trace validation printed no MATCHED line:\n" + res.tail())
        if matched == total and not viol:
            accepted += 1; trace_files.append(p)
        else:
            ev = open(p).read().splitlines()
            nxt = ev[matched] if matched < len(ev) else ""
            if any("driver:" in d for d in diffs) or (not diffs and not viol and not info.get("panicked")):
                vlib.tool_error("trace driver issued a call the specification does not enable at event %d: %s %s" % (matched + 1, nxt, diffs))
            c.report({"kind": "heap-trace", "why": (diffs[0].split(",")[2].strip() if diffs else "invariant " + ",".join(viol))},
                     {"trace": p, "matched": matched, "next_event": nxt, "diff": diffs, "invariants": viol},
                     "recorded heap history rejected by GcHeapTrace at event %d: %s %s %s" % (matched + 1, nxt, diffs, viol))
        log("trace %d: %d/%d events matched, objects=%d" % (i, matched, total, info["objects"]))
    # ---- memory verdict under Miri
    shards = []
    beh = []
    for f in (keepfile, simkeep):
        if os.path.exists(f):
            beh += [(f, b) for b in vlib.parse_prints(open(f).read().splitlines(), "B")]
    exh = [b for f, b in beh if f == keepfile]; sim = [b for f, b in beh if f == simkeep]
    nsh = 8 if quick else 14
    per = 12 if quick else 60
    for i in range(nsh):
        lines = to_compact(exh[i::nsh][:per * 3], bounds[0][0], bounds[0][2]) + to_compact(sim[i::nsh][:per], sng, snh)
        shards.append(lines)
    if trace_files:
        # a prefix of a recorded long history (crosses the 256-slot chunk boundary)
        tl = trace_to_compact(trace_files[0], 40, 400)
        shards[0] = tl[:1 + (900 if quick else 4000)]
    t0 = time.time()
    mcalls, merrs = run_miri(shards, timeout=900 if quick else 5000)
    log("Miri: %d calls executed in %.0fs, %d error(s)" % (mcalls, time.time() - t0, len(merrs)))
    for p, out in merrs:
        c.report({"kind": "miri", "why": "undefined behaviour"}, {"compact_history_file": p, "miri_output": out},
                 "Miri reports undefined behaviour while replaying a GcHeap history (%s)" % p)
    c.cov["traces_validated_against_impl"] = total_beh + accepted
    c.cov["evaluations"] = total_beh + ntr
    c.cov["distinct_nontrivial"] = total_beh
    c.cov["replayed_api_calls"] = total_calls
    c.cov["trace_events_validated"] = events
    c.cov["miri_calls"] = mcalls
    c.cov["exhaustive"] = True
    c.cov["rule"] = ("every API history of length %s inside the bounds %s (guards, slots, handles, depth) enumerated by TLC (one per distinct reachable state), "
                     "%d simulated behaviours of length %d beyond it, each replayed on the real Heap with the abstract state compared after every call; "
                     "%d recorded random histories of %d calls validated by GcHeapTrace.tla; distinct = distinct TLC states at the depth bound") % (
        [b[3] for b in bounds], [b[:3] for b in bounds], summ["behaviours"], sdepth, ntr, nops)
    c.assumptions += ["GcHeap.tla models src/gc.rs as coded (eager pooling at count zero, LIFO free list, collect-before-alloc)",
                      "Miri runs without an aliasing model (gc.rs derives &mut GcBox from a shared reference, rejected by Stacked Borrows; "
                      "not part of 'freed or out-of-bounds memory')",
                      "reads/writes are only issued through handles the specification calls current (reading through a stale handle is not an operation of the property)"]
    c.finish()


def replay(path):
    d = json.load(open(path))["replay"]
    exe = vlib.build_harness()
    if "ops" in d:
        print(json.dumps(d["ops"]))
        print("why:", d["why"])
        print("(re-run `bin/check C13` to re-evaluate the history against GcHeap.tla)")
    return 0
