"""C07 — suspending and resuming is transparent to the program.
The specification's `order` is BLOCKING (MiniJS.tla: the call emits ORDER and continues with the scripted response), so the
program-level behaviour is independent of the host schedule by construction.  Every generated async program (awaits at
random syntactic positions: inside try/catch/finally with pending completions, loops, for-of, callees, methods, argument
lists) is run on the real interpreter under several host schedules - immediate answers, answers deferred through pending
host promises settled one at a time, deferred with spurious extra step() calls, and deferred with a collection forced every
few steps - and every recorded trace must be the spec's behaviour.  node (async order stub) self-validates the spec."""
import json, os, random
import vlib, minijs as M, minijs_gen as G, mjcheck
from vlib import log

MODES = [("immediate", {}), ("deferred", {}), ("spurious", {}), ("deferred", {"gc": 1}), ("immediate", {"collect_every": 7})]


def main(tier):
    c = vlib.Check("C07")
    exe = vlib.build_harness()
    quick = tier == "quick"
    J = mjcheck.Judge(c, exe, props=("C01", "C07"))
    J.announce_dead_findings()
    n = 1500 if quick else 20000
    total = 0; agree_all = 0; with_orders = 0
    CH = 5000
    for k0 in range(0, n, CH):
        progs = mjcheck.gen_programs(c.seed * 31 + 7 + k0, min(CH, n - k0), objects=True, gens=False, orders=True, first_id=k0)
        res, exp = M.run_spec(progs, "c07")
        c.add_tlc(res)
        judged = [P for P in progs if M.expected_events(exp[P["id"]]) is not None]
        ng = M.run_node(judged, "c07", asyncmode=True)
        runs = []
        for (mode, extra) in (MODES if not quick else MODES[:4]):
            jobs = []
            for P in progs:
                j = {"id": P["id"], "source": M.ts_source(P, asyncmode=True), "resp": P["resp"], "mode": mode, "path": "/p/main.ts", "max_steps": 150000}
                j.update(extra); jobs.append(j)
            runs.append((mode + ("+gc" if extra else ""), M.run_jobs(exe, "prog", jobs)))
        for P in progs:
            rec = exp[P["id"]]
            results = []
            for (label, got) in runs:
                r = J.judge(P, rec, (ng.get(P["id"], []) if ng is not None else None), got[P["id"]], M.ts_source(P, asyncmode=True), what="host schedule " + label)
                results.append(r)
                if r == "unjudged": break
            total += 1
            if results and all(r == "ok" for r in results):
                agree_all += 1
                if any(ev["e"] == "order" for ev in rec["out"]): with_orders += 1
        log("batch %d: %d programs; so far %s" % (k0 // CH, len(progs), dict(J.stats)))
        c.sample({"source": M.ts_source(progs[0], asyncmode=True)[:700], "responses": progs[0]["resp"][:4], "expected": M.expected_events(exp[progs[0]["id"]])})
    if J.stats["judged"] and J.stats["spec_disagrees_with_reference_engine"] > 0.03 * (J.stats["judged"] + J.stats["spec_disagrees_with_reference_engine"]):
        vlib.tool_error("MiniJS.tla disagrees with the reference engine on more than 3% of the async programs")
    c.cov["traces_validated_against_impl"] = J.stats["agree"]
    c.cov["evaluations"] = total * len(MODES if not quick else MODES[:4])
    c.cov["distinct_nontrivial"] = with_orders
    c.cov["programs_agreeing_under_every_schedule"] = agree_all
    c.cov["judging"] = dict(J.stats)
    c.cov["known_finding_features"] = dict(J.known_counts)
    c.cov["rule"] = ("%d seeded async programs (every call awaited, orders at random expression positions, scripted value/error responses) x host schedules "
                     "{immediate, deferred via pending host promises, deferred + spurious steps, deferred at GC threshold 1%s}; non-trivial = issues at least one order and agrees under every schedule"
                     % (n, "" if quick else ", immediate with a forced collection every 7 steps"))
    c.assumptions += ["programs register no promise reactions and await every async call at once, so ECMAScript's deferred continuations and tsrun's synchronous await agree (DESIGN.md C07)",
                      "the discriminating oracle is the spec's blocking semantics; host schedules are additionally compared with each other through it"]
    c.finish()


def replay(path):
    d = json.load(open(path))["replay"]
    print(d["source"]); print("expected:", d["expected"]); print("got     :", d["got"])
    return 0
