"""C07 — suspending and resuming is transparent to the program.
The specification's `order` is BLOCKING (MiniJS.tla: the call emits ORDER and continues with the scripted response), so the
program-level behaviour is independent of the host schedule by construction.  Every generated async program (awaits at
random syntactic positions: inside try/catch/finally with pending completions, loops, for-of, callees, methods, argument
lists) is run on the real interpreter under several host schedules - immediate answers, answers deferred through pending
host promises settled one at a time, deferred with spurious extra step() calls, and deferred with a collection forced every
few steps - and every recorded trace must be the spec's behaviour.  node (async order stub) self-validates the spec."""
import json, os, random
import vlib, minijs as M, minijs_gen as G, mjcheck
from vlib import log

MODES = [("immediate", {}), ("deferred", {}), ("spurious", {}), ("deferred", {"gc": 1}), ("immediate", {"collect_every": 7})]


# synchronous code whose callee blocks on order(): (body, answers in issue order)
TWINS = {
 "fn_ctor": ('function load(k: number): any { return order({ v: k }); }\nfunction Conn(this: any, k: number) { this.tag = "c" + k; this.p = load(k); this.tag += "!"; }\n'
             'async function make(k: number) { const c = new (Conn as any)(k); return c.tag + ":" + (await c.p); }\nLOG((await make(1)) + "|" + (await make(2)));', [1, 2]),
 "class_ctor_bare_return": ('function load(k: number): any { return order({ v: k }); }\nclass Conn { p: any; extra: string = "none"; constructor(k: number) { this.p = load(k); if (k > 0) return; this.extra = "zero"; } }\n'
             'async function make(k: number) { const c = new Conn(k); return c.extra + ":" + (await c.p); }\nLOG((await make(0)) + "|" + (await make(5)));', [0, 5]),
 "class_ctor": ('function load(k: number): any { return order({ v: k }); }\nclass Conn { p: any; tag: string; constructor(k: number) { this.tag = "t" + k; this.p = load(k); this.tag += "!"; } }\n'
             'async function make(k: number) { const c = new Conn(k); return c.tag + ":" + (await c.p); }\nLOG((await make(7)) + "|" + (await make(8)));', [7, 8]),
 "derived_ctor": ('class B { p: any; constructor(k: number) { this.p = order({ v: k }); } }\nclass D extends B { q: number; constructor(k: number) { super(k); this.q = k * 2; } }\nconst d = new D(4); LOG([await d.p, d.q, d instanceof D]);', [4]),
 "call_chain": ('function c3(k: number): any { const local = [k, k + 1]; const r = order({ v: k }); return [r, local]; }\nfunction c2(k: number): any { const mine = "m" + k; const [r, l] = c3(k); return [r, l, mine]; }\n'
             'function c1(k: number): any { let acc = 0; for (let i = 0; i < 3; i++) acc += i; const x = c2(k); return [...x, acc]; }\nconst [r, l, m, a] = c1(9); LOG([await r, l, m, a]);', [9]),
 "method_receiver": ('const box = { n: 3, get(k: number): any { const before = this.n; const r = order({ v: k }); return [r, before, this.n]; } };\nconst [r, b, n] = box.get(6); LOG([await r, b, n]);', [6]),
 "array_callback": ('const rs = [1, 2, 3].map((k) => order({ v: k * 10 }));\nLOG([await rs[0], await rs[1], await rs[2], rs.length]);', [10, 20, 30]),
 "try_finally_around": ('function risky(k: number): any { try { return order({ v: k }); } finally { LOG("fin" + k); } }\nconst r = risky(2); LOG(await r); LOG("after");', [2]),
 "generator_body": ('function* g(): any { const a = yield order({ v: 1 }); const b = yield order({ v: 2 }); return [a, b]; }\nconst it = g(); const p1 = it.next().value; const p2 = it.next(await p1).value; LOG(it.next(await p2).value);', [1, 2]),
 "caller_registers": ('function leaf(k: number): any { return order({ v: k }); }\nfunction mid(k: number): any { return [{ a: k }, leaf(k), { b: k + 1 }]; }\n'
             'function top(k: number): any { return [[k], mid(k), { c: [k, k] }, "s" + k]; }\nconst t = top(3); LOG([t[0], t[1][0], await t[1][1], t[1][2], t[2], t[3]]);', [3]),
 "args_in_flight": ('function leaf(k: number): any { return order({ v: k }); }\nfunction join(a: any, b: any, c: any, d: any): any { return [a, b, c, d]; }\n'
             'const r = join({ first: [1] }, leaf(4), [{ third: 3 }], leaf(5)); LOG([r[0], await r[1], r[2], await r[3]]);', [4, 5]),
 "caller_block_scope": ('function helper(k: number): any { return order({ v: k }); }\nfunction f(k: number): any { let x = "outer"; let r; { let x = "inner"; r = helper(k); x += "!"; } return [r, x]; }\n'
             'const [r, x] = f(1); LOG([await r, x]);', [1]),
 "caller_catch_scope": ('function helper(k: number): any { return order({ v: k }); }\nfunction f(k: number): any { let state = "fn"; let r; try { let state = "try"; r = helper(k); throw new Error(state); } catch (e: any) { state += "+" + e.message; } finally { state += "+fin"; } return [r, state]; }\n'
             'const [r, st] = f(2); LOG([await r, st]);', [2]),
 "caller_loop_scope": ('function helper(k: number): any { return order({ v: k }); }\nfunction f(): any { let tag = "outer"; const rs: any[] = []; for (const tag of ["a", "b"]) { const inner = tag + tag; rs.push(helper(inner.length)); } for (let i = 0; i < 2; i++) { let tag = i; rs.push(helper(tag)); } switch (rs.length) { case 4: { let tag = "sw"; rs.push(helper(9)); } } return [rs, tag]; }\n'
             'const [rs, tag] = f(); const vs = []; for (const r of rs) vs.push(await r); LOG([vs, tag]);', [2, 2, 0, 1, 9]),
 "caller_scope_two_levels": ('function leaf(k: number): any { return order({ v: k }); }\nfunction mid(k: number): any { let m = "mid"; { let m = "mid-block"; const r = leaf(k); return [r, m, () => m]; } }\n'
             'function top(k: number): any { let t = "top"; let out; { let t = "top-block"; out = mid(k); t += "!"; } return [...out, t]; }\nconst [r, m, fm, t] = top(3); LOG([await r, m, fm(), t]);', [3]),
 "native_callback_batch": ('const rs = [{ v: 1 }, { v: 2 }, { v: 3 }].map(order as any);\nLOG([await rs[0], await rs[1], await rs[2], rs.length]);', [1, 2, 3]),
 "native_callback_out_of_order": ('const rs = [{ v: 1 }, { v: 2 }, { v: 3 }, { v: 4 }].map(order as any);\nconst c = await rs[2]; const a = await rs[0]; const d = await rs[3]; const b = await rs[1]; LOG([a, b, c, d]);', [1, 2, 3, 4]),
 "native_callback_then_blocking": ('const rs = [{ v: 1 }, { v: 2 }].forEach(order as any);\nconst x = order({ v: 3 }); LOG([rs === undefined, await x]); const y = order({ v: 4 }); LOG(await y);', [1, 2, 3, 4]),
 "default_param_and_spread": ('function f(a: any = order({ v: 5 }), ...rest: any[]): any { return [a, rest.length]; }\nconst [a, n] = f(); LOG([await a, n]); const xs = [...[1, 2], order({ v: 6 })]; LOG([xs.length, await xs[2]]);', [5, 6]),
}


def main(tier):
    c = vlib.Check("C07")
    exe = vlib.build_harness()
    quick = tier == "quick"
    J = mjcheck.Judge(c, exe, props=("C01", "C07"))
    J.announce_dead_findings()
    n = 1500 if quick else 20000
    total = 0; agree_all = 0; with_orders = 0
    CH = 5000
    for k0 in range(0, n, CH):
        progs = mjcheck.gen_programs(c.seed * 31 + 7 + k0, min(CH, n - k0), objects=True, gens=False, orders=True, first_id=k0)
        res, exp = M.run_spec(progs, "c07")
        c.add_tlc(res)
        judged = [P for P in progs if M.expected_events(exp[P["id"]]) is not None]
        ng = M.run_node(judged, "c07", asyncmode=True)
        runs = []
        for (mode, extra) in (MODES if not quick else MODES[:4]):
            jobs = []
            for P in progs:
                j = {"id": P["id"], "source": M.ts_source(P, asyncmode=True), "resp": P["resp"], "mode": mode, "path": "/p/main.ts", "max_steps": 150000}
                j.update(extra); jobs.append(j)
            runs.append((mode + ("+gc" if extra else ""), M.run_jobs(exe, "prog", jobs)))
        for P in progs:
            rec = exp[P["id"]]
            results = []
            for (label, got) in runs:
                r = J.judge(P, rec, (ng.get(P["id"], []) if ng is not None else None), got[P["id"]], M.ts_source(P, asyncmode=True), what="host schedule " + label)
                results.append(r)
                if r == "unjudged": break
            total += 1
            if results and all(r == "ok" for r in results):
                agree_all += 1
                if any(ev["e"] == "order" for ev in rec["out"]): with_orders += 1
        log("batch %d: %d programs; so far %s" % (k0 // CH, len(progs), dict(J.stats)))
        c.sample({"source": M.ts_source(progs[0], asyncmode=True)[:700], "responses": progs[0]["resp"][:4], "expected": M.expected_events(exp[progs[0]["id"]])})
    # ---- transparency twins: SYNCHRONOUS code (constructors, methods, call chains, callbacks) whose callee blocks on order():
    # the run with real orders (answered at once / through host promises settled later / with spurious steps) must equal the run
    # in which `order` is an ordinary function returning the answer - the very statement of the property
    TW = TWINS
    twjobs = []; twmeta = []
    for tag, (body, answers) in TW.items():
        real = 'import { LOG, ERR } from "verif:host";\nimport { order } from "tsrun:host";\ntry {\n' + body + '\n} catch (e) { ERR(e); }\n'
        twin = 'import { LOG, ERR } from "verif:host";\nconst order = (p: any): any => p.v;\ntry {\n' + body + '\n} catch (e) { ERR(e); }\n'
        resp = [{"k": "val", "v": a} for a in answers]
        twjobs.append({"id": len(twjobs), "source": twin, "resp": [], "mode": "immediate", "path": "/p/main.ts", "max_steps": 200000}); twmeta.append((tag, "twin"))
        for mode, gc in (("immediate", None), ("deferred", None), ("spurious", None), ("deferred", 1), ("batch", None)):
            # orders issued by a native caller do not block: their answers are picked up by later steps, which only the
            # "batch" schedule waits for (an empty suspension is a deadlock for "immediate")
            if mode == "immediate" and tag.startswith("native_callback"): continue
            j = {"id": len(twjobs), "source": real, "resp": resp, "mode": mode, "path": "/p/main.ts", "max_steps": 200000}
            if gc: j["gc"] = gc
            twjobs.append(j); twmeta.append((tag, mode + ("/gc1" if gc else "")))
    twgot = M.run_jobs(exe, "prog", twjobs)
    twin_of = {}
    ntw = 0
    c07f = vlib.load_known("C07")
    for j, (tag, how) in zip(twjobs, twmeta):
        ev = [e for e in M.impl_events(twgot[j["id"]]) if not e.startswith("O|")]
        if how == "twin": twin_of[tag] = ev; continue
        ntw += 1
        if ev == twin_of[tag] and not twgot[j["id"]].get("stale"): continue
        feat = {"kind": "transparency-twin", "template": tag, "schedule": how.split("/")[0], "got": "|".join(ev)}
        hit = next((f for f in c07f if vlib.key_matches(f["key"], feat)), None)
        if hit: c.known_hit.setdefault(hit["id"], {"finding": hit, "count": 0})["count"] += 1; continue
        c.report(feat, {"source": j["source"], "schedule": how, "with_orders": ev, "without_suspension": twin_of[tag], "stale": twgot[j["id"]].get("stale")},
                 "suspension is not transparent for [%s] under schedule %s: with order() as a plain function %s, with real orders %s\n%s" % (tag, how, twin_of[tag], ev, j["source"]))
    log("transparency twins: %d templates x 5 schedules compared with the run that never suspends" % len(TW))
    c.cov["transparency_twin_runs"] = ntw
    # ---- values through combinators (Orders.tla): what `await Promise.all / race` yields must be the inputs' values in input
    # order whatever the host's timing: ONE script each, ALL host histories (plain answers, promises settled before / after the call)
    import c08
    focus = [[{"o": "ord", "v": 1}, {"o": "ord", "v": 2}, {"o": "comb", "k": "all"}, {"o": "await", "v": 3}],
             [{"o": "ord", "v": 1}, {"o": "ord", "v": 2}, {"o": "comb", "k": "race"}, {"o": "tawait", "v": 3}]]
    os.makedirs(os.path.join(vlib.BUILD, "ord"), exist_ok=True)
    nbeh = 0
    for i, scr in enumerate(focus):
        sf = os.path.join(vlib.BUILD, "ord", "c07_focus_%d.ndjson" % i)
        open(sf, "w").write(json.dumps(scr) + "\n")
        pth = vlib.write_cfg("c07_ordF%d.cfg" % i, c08.cfg(2, 5, 5, 1, 0, True, False, ["EmitBehaviour"], scriptfile=sf))
        res, mism, summ = c08.stream_replay(exe, "c07_ordF%d" % i, pth, 2, 10, 1500)
        c.add_tlc(res); nbeh += summ["behaviours"]
        for m in mism:
            c.report({"kind": "divergence", "where": "combinator-values"}, m, "resuming changes what a combinator yields: %s\n%s host history %s" % (m["why"], m["source"], json.dumps(m["hist"])))
        log("combinator values, script %d: %d host histories replayed, %d divergences" % (i, summ["behaviours"], summ["mismatches"]))
    c.cov["combinator_value_histories"] = nbeh
    if J.stats["judged"] and J.stats["spec_disagrees_with_reference_engine"] > 0.03 * (J.stats["judged"] + J.stats["spec_disagrees_with_reference_engine"]):
        vlib.tool_error("MiniJS.tla disagrees with the reference engine on more than 3% of the async programs")
    c.cov["traces_validated_against_impl"] = J.stats["agree"]
    c.cov["evaluations"] = total * len(MODES if not quick else MODES[:4])
    c.cov["distinct_nontrivial"] = with_orders
    c.cov["programs_agreeing_under_every_schedule"] = agree_all
    c.cov["judging"] = dict(J.stats)
    c.cov["known_finding_features"] = dict(J.known_counts)
    c.cov["rule"] = ("%d seeded async programs (every call awaited, orders at random expression positions, scripted value/error responses) x host schedules "
                     "{immediate, deferred via pending host promises, deferred + spurious steps, deferred at GC threshold 1%s}; non-trivial = issues at least one order and agrees under every schedule"
                     % (n, "" if quick else ", immediate with a forced collection every 7 steps"))
    c.assumptions += ["programs register no promise reactions and await every async call at once, so ECMAScript's deferred continuations and tsrun's synchronous await agree (DESIGN.md C07)",
                      "the discriminating oracle is the spec's blocking semantics; host schedules are additionally compared with each other through it"]
    c.finish()


def replay(path):
    d = json.load(open(path))["replay"]
    print(d["source"]); print("expected:", d["expected"]); print("got     :", d["got"])
    return 0
