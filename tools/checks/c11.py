"""C11 — an interpreter stays usable and clean after failed or abandoned runs.
Histories of runs on ONE interpreter are enumerated: nesting kind at death (block, call depth, try/finally, try/catch,
generator, loop, method, native callback, async) x death mode (complete, uncaught error, abandoned after k host steps for a
spread of k) x role (script / module), singly and in sequences of two, plus random MiniJS programs abandoned at a random
step; each history ends with an observer program.  Lifecycle.tla (trace validation, batch) accepts a recorded history iff
every run starts clean: the observer completes, its trace is its trace on a fresh interpreter (for MiniJS observers: the
behaviour MiniJS.tla assigns), it cannot see any block-scoped name of a dead run, and call_depth() is 0 again."""
import json, os, random
import vlib, minijs as M, mjcheck, lifegen as L, lifecheck
from vlib import log

ABANDON_POINTS = [1, 2, 4, 7, 11, 16, 25, 40, 80]


def main(tier):
    c = vlib.Check("C11")
    exe = vlib.build_harness()
    quick = tier == "quick"
    rnd = random.Random(c.seed)
    obs_src, obs_exp = L.observer()
    jobs = []; metas = []; descr = []
    def death(nest, mode, role, k):
        src, asy = L.death_program(nest, mode, depth=rnd.choice([1, 3, 12]))
        if asy: role = "module"
        return {"source": src, "path": "/p/main.ts" if role == "module" else None, "mode": "abandon" if mode == "abandon" else "complete",
                "abandon_after": k, "resp": [{"k": "val", "v": 1}], "role": "death", "api": "eval" if (k % 2 == 1 or (mode != "abandon" and rnd.random() < 0.5)) and mode != "abandon" else "prepare"}, role
    def add(runs, role, what):
        ob = {"source": obs_src, "path": "/p/main.ts" if role == "module" else None, "mode": "complete", "role": "observer"}      # same entry path as the dead runs: the exports the host reads are those of the entry module
        # a script (no module path) has no export table of its own (the host keeps reading the last module's): exports are judged for module observers only
        jobs.append({"id": len(jobs), "runs": runs + [ob]}); metas.append(dict({"kind": "history", "observer_expected": obs_exp}, **({"observer_exports": L.OBSERVER_EXPORTS} if role == "module" else {}))); descr.append(what)
        if role == "script":       # ... but what a dead script exported must not surface in a later MODULE either
            obm = dict(ob, path="/p/main.ts")
            jobs.append({"id": len(jobs), "runs": runs + [obm]}); metas.append({"kind": "history", "observer_expected": obs_exp, "observer_exports": L.OBSERVER_EXPORTS}); descr.append(what + " (module observer)")
    singles = []
    for nest in L.NEST:
        for mode in ("complete", "throw", "abandon"):
            if nest in L.NEVER_COMPLETES and mode != "abandon": continue
            for role in ("script", "module"):
                for k in (ABANDON_POINTS if mode == "abandon" else [0]):
                    singles.append((nest, mode, role, k))
    for (nest, mode, role, k) in singles:
        r, role2 = death(nest, mode, role, k)
        if mode != "abandon":
            for api in ("prepare", "eval"):
                add([dict(r, api=api)], role2, "%s/%s/%s/%s" % (nest, mode, role2, api))
        else:
            add([r], role2, "%s/%s/%s/k=%d" % (nest, mode, role2, k))
    pairs = rnd.sample([(a, b) for a in singles for b in singles if a[1] != "complete"], 400 if quick else 6000)
    for (a, b) in pairs:
        ra, rolea = death(*a); rb, roleb = death(*b)
        add([ra, rb], roleb, "%s/%s/%s/k=%d then %s/%s/%s/k=%d" % (a[0], a[1], rolea, a[3], b[0], b[1], roleb, b[3]))
    # ---- random MiniJS programs as dead runs and as observers (observer oracle = MiniJS.tla)
    n = 300 if quick else 4000
    progs = mjcheck.gen_programs(c.seed * 13 + 3, 2 * n, objects=True, gens=True)
    res, exp = M.run_spec(progs, "c11")
    c.add_tlc(res)
    findings = mjcheck.load_c01_findings()
    used = 0
    for i in range(n):
        D, O = progs[2 * i], progs[2 * i + 1]
        e = M.expected_events(exp[O["id"]])
        if e is None or (set(exp[O["id"]].get("feat", [])) & set(findings)): continue   # observers stay inside the fragment where the tree agrees with the spec
        steps = max(2, exp[D["id"]].get("steps", 50))
        k = rnd.randint(1, max(2, min(400, steps)))
        mode = rnd.choice(["abandon", "abandon", "complete"])
        dr = {"source": M.ts_source(D), "path": "/p/main.ts", "mode": mode, "abandon_after": k, "resp": [], "role": "death"}
        ob = {"source": M.ts_source(O), "path": "/p/obs.ts", "mode": "complete", "role": "observer"}
        jobs.append({"id": len(jobs), "runs": [dr, ob]}); metas.append({"kind": "history", "observer_expected": e}); descr.append("random program %s at step %d, observer program %d" % (mode, k, O["id"]))
        used += 1
    tres, traces, rejected, diffs = lifecheck.run_and_validate(exe, jobs, metas, "c11")
    c.add_tlc(tres)
    for t, (matched, total) in sorted(rejected.items()):
        tr = traces[t - 1]; why = diffs.get(t, ["?"])
        nxt = tr["ev"][matched] if matched < len(tr["ev"]) else {}
        c.report({"kind": "lifecycle", "why": why[0]}, {"history": descr[t - 1], "runs": jobs[t - 1]["runs"], "events": tr["ev"], "observer_expected": tr["observer_expected"]},
                 "history [%s] rejected by Lifecycle.tla at event %d: %s; event: %s" % (descr[t - 1], matched + 1, why, json.dumps(nxt)[:500]))
    log("%d histories (%d single, %d pairs, %d with random programs): %d accepted, %d rejected" % (len(jobs), len(singles), len(pairs), used, len(jobs) - len(rejected), len(rejected)))
    c.sample({"history": descr[5], "events": traces[5]["ev"][:4]})
    c.sample({"history": descr[-1]})
    c.cov["traces_validated_against_impl"] = len(jobs) - len(rejected)
    c.cov["evaluations"] = len(jobs)
    c.cov["distinct_nontrivial"] = len(jobs)
    c.cov["rule"] = ("all %d single histories (9 nesting kinds x {complete, throw, abandon at k in %s} x {script, module}), %d sampled pairs of them, %d random MiniJS programs "
                     "killed at a random step followed by a random MiniJS observer judged against MiniJS.tla") % (len(singles), ABANDON_POINTS, len(pairs), used)
    c.assumptions += ["top-level declarations of a script (functions, classes, var/let at the top level) are deliberate global effects and are not probed",
                      "observers use names disjoint from the dead programs and additionally probe `typeof` of every block-scoped name the dead programs declare"]
    c.finish()


def replay(path):
    d = json.load(open(path)); print(json.dumps(d, indent=1)[:5000]); return 0
