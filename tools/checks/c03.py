"""C03 — TypeScript type syntax is erased.
The specification has no types: MiniJS node tables carry decorations only in the printer, so Sem(D(P)) = Sem(P) holds in the
spec by construction; the check is that the implementation refines it: every decorated variant D(P) must be accepted and its
recorded trace must be the behaviour MiniJS.tla assigns to P.
Inputs: (a) exhaustive position-kind x type-constructor family (templates with a closed-form expected trace);
(b) seeded random programs, each printed with several independent random decorations."""
import json, os, random
import vlib, minijs as M, minijs_gen as G, mjcheck
from vlib import log

TEMPLATES = [
    ("ann:var", "let v: {T} = 1; LOG(v);"),
    ("ann:const", "const v: {T} = 1; LOG(v);"),
    ("ann:param+return", "function f(p: {T}): {T} {{ return p; }} LOG(f(1));"),
    ("ann:arrow", "const g = (p: {T}): {T} => p; LOG(g(1));"),
    ("ann:arrow_block", "const g = (p: {T}, q?: {T}): {T} => {{ return p; }}; LOG(g(1));"),
    ("as", "LOG((1 as {T}));"),
    ("as_chain", "LOG((1 as unknown as {T}));"),
    ("as_member", "const o = {{ a: 1 }}; LOG((o as {T}).a);"),
    ("angle", "LOG((<{T}>1));"),
    ("satisfies", "LOG((1 satisfies {T}));"),
    ("type_alias", "type X<P = {T}> = {T} | P; LOG(1);"),
    ("interface", "interface I<P extends {T} = any> {{ p: {T}; m(a: {T}): {T}; readonly [k: string]: {T} }} LOG(1);"),
    ("generic_fn", "function f<P extends {T} = any>(p: P): P {{ return p; }} LOG(f(1));"),
    ("generic_call", "function f<P>(p: any): any {{ return p; }} LOG(f<{T}>(1));"),
    ("generic_arrow", "const g = <P extends {T}>(p: any) => p; LOG(g(1));"),
    ("definite_bang", "let v!: {T}; v = 1; LOG(v);"),
    ("declare_const", "declare const d: {T}; LOG(1);"),
    ("declare_function", "declare function df(a: {T}): {T}; LOG(1);"),
    ("optional_param", "function f(p?: {T}) {{ return 1; }} LOG(f());"),
    ("this_param", "function f(this: {T}, p: number) {{ return p; }} LOG(f(1));"),
    ("rest_param", "function f(...r: Array<{T}>) {{ return r.length; }} LOG(f(7));"),
    ("catch_ann", "try {{ throw 1; }} catch (e: unknown) {{ LOG(e as {T}); }}"),
    ("forof_ann", "for (const x of [1] as Array<{T}>) {{ LOG(x); }}"),
    ("destructure_ann", "const {{ a }}: {{ a: {T} }} = {{ a: 1 }}; LOG(a);"),
    ("nonnull", "const o: any = {{ a: 1 }}; LOG(o!.a!);"),
    ("nonnull_index", "const o: any = [1]; LOG(o![0]!);"),
    ("overload", "function f(a: {T}): void; function f(a: string, b: {T}): void; function f(a: any, b?: any) {{ return 1; }} LOG(f(0));"),
    ("class_members", "class C<P extends {T} = any> {{ private readonly x: {T} = 1 as any; public static s?: {T}; protected m<U>(a: {T}): {T} {{ return a; }} get g(): {T} {{ return this.m(this.x); }} }} LOG(new C().g);"),
    ("class_implements", "interface I {{ m(): {T} }} abstract class A {{ abstract m(): {T}; }} class C extends A implements I {{ m(): {T} {{ return 1 as any; }} }} LOG(new C().m());"),
    ("class_param_types", "class C {{ constructor(a: {T}, b?: {T}) {{ }} m(this: C, a?: {T}) {{ return 1; }} }} LOG(new C(1 as any).m());"),
    ("index_signature_obj", "const o: {{ [k: string]: {T} }} = {{ a: 1 as any }}; LOG(o.a);"),
    ("fn_type_var", "let f: (a: {T}, ...r: {T}[]) => {T}; f = (a: any) => a; LOG(f(1 as any));"),
    ("enum_free_type_only_export", "type Y = {T}; LOG(1 as any as Y);"),
    ("template_in_expr", "const s: {T} = `${{1 as {T}}}` as any; LOG(s);"),
]
TEMPLATE_EXPECT = {"template_in_expr": ["L|s:49"]}

# (tag, annotated program, un-annotated twin): operand / member positions where an assertion, `!`, an optional marker or a
# modifier sits inside a larger expression or declaration, so that mis-grouping or dropped members show up.  The oracle is
# the twin's own trace on the same interpreter AND the fixed expectation.
TWINS = [
    # arrow functions with a return type (untyped parameter list) where `:` also belongs to a conditional expression
    ("arrow_rettype_in_consequent", "const c: any = 1; const f: any = c ? (x): {T} => x + 1 : null; LOG(f(2));", "const c = 1; const f = c ? (x) => x + 1 : null; LOG(f(2));", ["L|n:3"]),
    ("arrow_rettype_in_alternate", "const c: any = 0; const f: any = c ? null : (x): {T} => x + 1; LOG(f(2));", "const c = 0; const f = c ? null : (x) => x + 1; LOG(f(2));", ["L|n:3"]),
    ("arrow_rettype_in_call_in_consequent", "const c: any = 1; LOG(c ? [1, 2].map((x): {T} => x * 2) : []);", "const c = 1; LOG(c ? [1, 2].map((x) => x * 2) : []);", ["L|a[n:2;n:4]"]),
    ("arrow_rettype_nested_conditional", "const n: any = 3; const f: any = n > 1 ? n > 5 ? null : (a, b): {T} => a * b : null; LOG(f(2, 5));", "const n = 3; const f = n > 1 ? n > 5 ? null : (a, b) => a * b : null; LOG(f(2, 5));", ["L|n:10"]),
    ("arrow_rettype_noparams_in_consequent", "const c: any = 1; const f: any = c ? (): {T} => 7 : null; LOG(f());", "const c = 1; const f = c ? () => 7 : null; LOG(f());", ["L|n:7"]),
    ("conditional_paren_then_arrow_alternate", "const a: any = 0; const f: any = a ? (1) : (c: {T}) => c; LOG(f(4));", "const a = 0; const f = a ? (1) : (c) => c; LOG(f(4));", ["L|n:4"]),
    ("arrow_rettype_object_type", "const g: any = (x): {{ v: {T} }} => ({{ v: x }}); LOG(g(1).v);", "const g = (x) => ({{ v: x }}); LOG(g(1).v);", ["L|n:1"]),
    ("angle_operand_mul_add", "LOG(2 * <{T}>3 + 4);", "LOG(2 * 3 + 4);", ["L|n:10"]),
    ("angle_operand_sub_sub", "LOG(10 - <{T}>3 - 4);", "LOG(10 - 3 - 4);", ["L|n:3"]),
    ("angle_operand_cond", 'LOG(true && <{T}>false ? "y" : "n");', 'LOG(true && false ? "y" : "n");', ["L|s:110"]),
    ("angle_operand_cmp", "LOG(1 < <{T}>2 === true);", "LOG(1 < 2 === true);", ["L|b:true"]),
    ("angle_in_array", "LOG([1, <{T}>2, 3]);", "LOG([1, 2, 3]);", ["L|a[n:1;n:2;n:3]"]),
    ("angle_in_args", "function f(a: any, b: any) {{ return a * 10 + b; }} LOG(f(<{T}>1, 2));", "function f(a, b) {{ return a * 10 + b; }} LOG(f(1, 2));", ["L|n:12"]),
    ("angle_assign_seq", "let x: any, y: any; x = <{T}>1, y = 2; LOG([x, y]);", "let x, y; x = 1, y = 2; LOG([x, y]);", ["L|a[n:1;n:2]"]),
    ("as_operand_mul_add", "LOG(2 * (3 as {T}) + 4);", "LOG(2 * 3 + 4);", ["L|n:10"]),
    ("as_low_precedence", "LOG((2 + 3 as {T}) * 2);", "LOG((2 + 3) * 2);", ["L|n:10"]),
    ("as_in_cond", 'LOG((1 as {T}) ? "y" : "n");', 'LOG(1 ? "y" : "n");', ["L|s:121"]),
    ("as_then_member", "const o = {{ a: {{ b: 5 }} }}; LOG((o as {T}).a.b + 1);", "const o = {{ a: {{ b: 5 }} }}; LOG(o.a.b + 1);", ["L|n:6"]),
    ("nonnull_chain", "const o: any = {{ a: {{ b: [7] }} }}; LOG(o!.a!.b![0]! + 1);", "const o = {{ a: {{ b: [7] }} }}; LOG(o.a.b[0] + 1);", ["L|n:8"]),
    ("nonnull_call", "const o: any = {{ v: 3, m() {{ return this.v; }} }}; LOG(o.m!() + o!.m());", "const o = {{ v: 3, m() {{ return this.v; }} }}; LOG(o.m() + o.m());", ["L|n:6"]),
    ("optional_field", "class C {{ a?: {T}; b: any; }} const c = new C(); LOG([Object.keys(c).length, 'a' in c, c.a]);", "class C {{ a; b; }} const c = new C(); LOG([Object.keys(c).length, 'a' in c, c.a]);", ["L|a[n:2;b:true;U]"]),
    ("optional_field_override", "class B {{ t: any = 30; }} class D extends B {{ t?: {T}; }} LOG(new D().t);", "class B {{ t = 30; }} class D extends B {{ t; }} LOG(new D().t);", ["L|U"]),
    ("static_optional_field", "class C {{ static s?: {T}; static n: {T} = 1 as any; }} LOG(['s' in C, C.n]);", "class C {{ static s; static n = 1; }} LOG(['s' in C, C.n]);", ["L|a[b:true;n:1]"]),
    ("readonly_field", "class C {{ readonly a: {T} = 1 as any; private b?: {T}; }} const c = new C(); LOG(Object.keys(c).length);", "class C {{ a = 1; b; }} const c = new C(); LOG(Object.keys(c).length);", ["L|n:2"]),
    ("optional_method_param", "class C {{ m(a?: {T}, b: any = 2) {{ return [a, b]; }} }} LOG(new C().m());", "class C {{ m(a, b = 2) {{ return [a, b]; }} }} LOG(new C().m());", ["L|a[U;n:2]"]),
    ("generic_call_vs_compare", "function f<P>(x: any) {{ return x; }} const a = 1, b = 2, c = 3; LOG([f<{T}>(5), a < b, (a < b) > (c as any)]);", "function f(x) {{ return x; }} const a = 1, b = 2, c = 3; LOG([f(5), a < b, (a < b) > c]);", ["L|a[n:5;b:true;b:false]"]),
    ("generic_new", "class G<P> {{ constructor(public v: any) {{}} }} LOG(new G<{T}>(4).v);", "class G {{ constructor(v) {{ this.v = v; }} }} LOG(new G(4).v);", ["L|n:4"]),
    ("type_args_keywords", "function f<P>(x?: any) {{ return x === undefined ? 'u' : x; }} LOG([f<void>(), f<null>(1), f<true>(2), f<null | number>(3), f<{T}>(4)]);", "function f(x) {{ return x === undefined ? 'u' : x; }} LOG([f(), f(1), f(2), f(3), f(4)]);", ["L|a[s:117;n:1;n:2;n:3;n:4]"]),
    ("arrow_return_type", "const g = (a: any): {T} => a + 1; LOG(g(1));", "const g = (a) => a + 1; LOG(g(1));", ["L|n:2"]),
    ("ann_destructured_param", "function f({{ a, b }}: {{ a: {T}; b: any }}, [c]: [{T}]) {{ return [a, b, c]; }} LOG(f({{ a: 1 as any, b: 2 }}, [3 as any]));", "function f({{ a, b }}, [c]) {{ return [a, b, c]; }} LOG(f({{ a: 1, b: 2 }}, [3]));", ["L|a[n:1;n:2;n:3]"]),
    ("abstract_members", "abstract class A {{ abstract m(): {T}; protected abstract p: {T}; k() {{ return 1; }} }} class C extends A {{ m(): any {{ return 2; }} p: any = 3; }} const c = new C(); LOG([c.k(), c.m(), c.p]);", "class A {{ k() {{ return 1; }} }} class C extends A {{ m() {{ return 2; }} p = 3; }} const c = new C(); LOG([c.k(), c.m(), c.p]);", ["L|a[n:1;n:2;n:3]"]),
    ("declare_field", "class C {{ declare d: {T}; e: any = 1; }} LOG(Object.keys(new C()));", "class C {{ e = 1; }} LOG(Object.keys(new C()));", ["L|a[s:101]"]),
    ("index_signature_class", "class C {{ [k: string]: any; a: {T} = 1 as any; }} LOG(Object.keys(new C()));", "class C {{ a = 1; }} LOG(Object.keys(new C()));", ["L|a[s:97]"]),
]


def twin_family():
    """returns jobs (annotated and twin interleaved) and meta {annotated job id: (tag, kind, type, twin job id, expected)}"""
    jobs = []; meta = {}
    def src(body):
        return 'import { LOG, ERR } from "verif:host";\ntry {\n' + body + '\n} catch (e) { ERR(e); }\n'
    for (tag, ann, twin, expect) in TWINS:
        types = G.TYPES if "{T}" in ann else G.TYPES[:1]
        tid = len(jobs)
        jobs.append({"id": tid, "source": src(twin.replace("{{", "{").replace("}}", "}")), "resp": [], "mode": "immediate", "path": "/p/main.ts", "max_steps": 50000})
        for (t, kind) in types:
            jid = len(jobs)
            jobs.append({"id": jid, "source": src(ann.replace("{T}", t).replace("{{", "{").replace("}}", "}")), "resp": [], "mode": "immediate", "path": "/p/main.ts", "max_steps": 50000})
            meta[jid] = (tag, kind, t, tid, expect)
    return jobs, meta


def family():
    jobs = []; meta = {}
    for (tag, tpl) in TEMPLATES:
        for (t, kind) in G.TYPES:
            body = tpl.replace("{T}", t).replace("{{", "{").replace("}}", "}")
            jid = len(jobs)
            src = 'import { LOG, ERR } from "verif:host";\n(function () { "use strict"; try {\n' + body + '\n} catch (e) { ERR(e); } })();\n'
            if tag == "class_members" or tag.startswith("class"):
                src = 'import { LOG, ERR } from "verif:host";\ntry {\n' + body + '\n} catch (e) { ERR(e); }\n'
            jobs.append({"id": jid, "source": src, "resp": [], "mode": "immediate", "path": "/p/main.ts", "max_steps": 50000})
            meta[jid] = (tag, kind, t, TEMPLATE_EXPECT.get(tag, ["L|n:1"]))
    return jobs, meta


def load_findings():
    out = []
    for f in vlib.load_known("C03"):
        out.append(f)
    return out


def excuse(findings, live, tags):
    for f in findings:
        k = f["key"]
        need = set(k.get("tags", []))
        anyof = set(k.get("any", []))
        if need and need <= tags and (not anyof or (anyof & tags)) and live.get(f["id"], True):
            return f
    return None


def main(tier):
    c = vlib.Check("C03")
    exe = vlib.build_harness()
    quick = tier == "quick"
    findings = load_findings()
    # witnesses of the C03 findings
    wjobs = []
    for i, f in enumerate(findings):
        src = 'import { LOG, ERR } from "verif:host";\ntry {\n' + f["witness_program"]["body"] + '\n} catch (e) { ERR(e); }\n'
        wjobs.append({"id": i, "source": src, "resp": [], "mode": "immediate", "path": "/p/main.ts"})
    wres = M.run_jobs(exe, "prog", wjobs, nproc=4) if wjobs else {}
    live = {f["id"]: (M.impl_events(wres[i]) != f["witness_program"]["expected"]) for i, f in enumerate(findings)}
    for f in findings:
        if not live[f["id"]]: log("note: witness of %s no longer fails; it excuses nothing in this run" % f["id"])

    def fail(tags, replay, what):
        f = excuse(findings, live, tags)
        if f:
            c.known_hit.setdefault(f["id"], {"finding": f, "count": 0})["count"] += 1
            return
        c.report({"kind": "deco", "tags": sorted(tags)}, replay, what)

    # ---- (a) exhaustive position x type-constructor family
    jobs, meta = family()
    got = M.run_jobs(exe, "prog", jobs)
    fam_ok = 0
    for j in jobs:
        tag, kind, t, expect = meta[j["id"]]
        a = M.impl_events(got[j["id"]])
        if a == expect: fam_ok += 1
        else:
            fail({tag, "type:" + kind}, {"source": j["source"], "expected": expect, "got": a, "err": got[j["id"]].get("err")},
                 "type syntax not erased: position %s with type `%s`: expected %s, got %s (%s)\n%s" % (tag, t, expect, a, got[j["id"]].get("err"), j["source"]))
    log("position x type family: %d cases, %d erased correctly" % (len(jobs), fam_ok))
    tjobs, tmeta = twin_family()
    tgot = M.run_jobs(exe, "prog", tjobs)
    twin_ok = 0
    for jid, (tag, kind, t, tid, expect) in tmeta.items():
        a = M.impl_events(tgot[jid]); tw = M.impl_events(tgot[tid])
        if a == tw and a == expect: twin_ok += 1
        elif tw != expect:
            # the un-annotated twin itself misbehaves: a C01 matter, not judged here
            continue
        else:
            fail({tag, "type:" + kind}, {"source": tjobs[jid]["source"], "twin": tjobs[tid]["source"], "expected": expect, "got": a, "err": tgot[jid].get("err")},
                 "annotated program and its un-annotated twin differ (%s, type `%s`): twin %s, annotated %s (%s)\n%s" % (tag, t, tw, a, tgot[jid].get("err"), tjobs[jid]["source"]))
    log("annotated/twin operand and member positions: %d cases, %d identical to the twin" % (len(tmeta), twin_ok))
    fam_ok += twin_ok
    # ---- (b) random programs x random decorations
    n = 1200 if quick else 15000
    nvar = 2 if quick else 3
    progs = mjcheck.gen_programs(c.seed * 77 + 5, n, objects=True, gens=True)
    res, exp = M.run_spec(progs, "c03")
    c.add_tlc(res)
    plain = [{"id": P["id"], "source": M.ts_source(P), "resp": [], "mode": "immediate", "path": "/p/main.ts", "max_steps": 150000} for P in progs]
    gp = M.run_jobs(exe, "prog", plain)
    djobs = []; dmeta = {}
    drnd = random.Random(c.seed + 99)
    # open findings with a single-tag key are avoided by the random decorator (they are exercised by the family above)
    G.DECO_AVOID = set(f["key"]["tags"][0] for f in findings if live.get(f["id"]) and len(f["key"].get("tags", [])) == 1 and not f["key"].get("any"))
    for P in progs:
        e = M.expected_events(exp[P["id"]])
        if e is None or M.impl_events(gp[P["id"]]) != e:
            continue        # not judged here: C01 decides programs whose undecorated form already disagrees
        for v in range(nvar):
            # decorations that are listed as open findings are avoided where possible (re-draw), so that a known
            # parser gap does not mask a new defect in the same program; the count of excused variants is reported
            for attempt in range(6):
                G.DECO = random.Random(drnd.randrange(1 << 30)); G.DECO_USED = set()
                src = M.ts_source(P)
                tags = set(G.DECO_USED); G.DECO = None
                if not excuse(findings, live, tags): break
            jid = len(djobs)
            djobs.append({"id": jid, "source": src, "resp": [], "mode": "immediate", "path": "/p/main.ts", "max_steps": 150000})
            dmeta[jid] = (P["id"], tags, e)
    G.DECO_AVOID = set()
    gd = M.run_jobs(exe, "prog", djobs)
    ok = 0; tagcount = {}
    for j in djobs:
        pid, tags, e = dmeta[j["id"]]
        for t in tags: tagcount[t] = tagcount.get(t, 0) + 1
        a = M.impl_events(gd[j["id"]])
        if a == e: ok += 1
        else:
            k = M.first_diff(e, a)
            fail(tags, {"source": j["source"], "expected": e, "got": a, "err": gd[j["id"]].get("err"), "tags": sorted(tags)},
                 "decorated variant of program %d behaves differently from the undecorated one (which agrees with MiniJS.tla): event %d expected %s got %s (%s); decorations %s\n%s"
                 % (pid, k, e[k:k + 1], a[k:k + 1], gd[j["id"]].get("err"), sorted(tags), j["source"][:1500]))
    log("random programs: %d undecorated programs agree with the spec; %d decorated variants run, %d identical" % (len(djobs) // max(1, nvar), len(djobs), ok))
    if djobs: c.sample({"decorated_source": djobs[0]["source"][:700], "expected": dmeta[0][2], "decorations": sorted(dmeta[0][1])})
    c.sample({"family_case": jobs[5]["source"], "expected": ["L|n:1"]})
    c.cov["traces_validated_against_impl"] = ok + fam_ok
    c.cov["evaluations"] = len(djobs) + len(jobs) + len(tmeta)
    c.cov["distinct_nontrivial"] = len(djobs) + len(jobs) + len(tmeta)
    c.cov["decoration_kinds_exercised"] = tagcount
    c.cov["exhaustive"] = True
    c.cov["rule"] = ("exhaustive: %d position kinds x %d type expressions (every type-constructor kind of the grammar sample), each with a closed-form expected trace; "
                     "random: %d programs x %d independent random decorations (annotations, generics, as/angle/satisfies/!, interface/type/declare statements, overloads), "
                     "expected trace = MiniJS.tla behaviour of the undecorated program") % (len(TEMPLATES), len(G.TYPES), n, nvar)
    c.assumptions += ["decorations are inserted by the printer only where TypeScript allows them; the spec has no types, so erasure holds in the spec by construction",
                      "type-only imports/exports across modules are exercised by C09/C19 sources, not here"]
    c.finish()


def replay(path):
    d = json.load(open(path))["replay"]
    exe = vlib.build_harness()
    got = M.run_jobs(exe, "prog", [{"id": 0, "source": d["source"], "resp": [], "mode": "immediate", "path": "/p/main.ts"}], nproc=1)[0]
    a = M.impl_events(got)
    print(d["source"]); print("expected:", d["expected"]); print("got     :", a, got.get("err"))
    return 0 if a == d["expected"] else 1
