"""C09 — module graphs load once, dependencies first, whatever the host's order.
M : Modules.tla model-checked over ALL DAGs of main+3 modules x ALL host supply schedules within the bound
    (invariants OnceEach, DepsFirst, RequestsMissing, RequestsHaveImporter, CompleteLoadsAllNeeded; liveness Terminates
    under a fair host).
T : the host schedules TLC enumerated (and seeded random ones for larger graphs, with equivalent path spellings,
    named/namespace/default imports, re-export chains) are driven against the real interpreter; every recorded trace
    (request lists with importers, load log, completion value, export read-back, live-binding reads) must be a
    behaviour of Modules.tla (ModulesTrace.tla, batch validation)."""
import json, os, random, subprocess, time
import vlib, modgen
from vlib import log

INVS = ["OnceEach", "DepsFirst", "RequestsMissing", "RequestsHaveImporter", "CompleteLoadsAllNeeded"]
NMAX = 8


def mcfg(n, mh, mr, emitting, view=True, spec="Spec", props=()):
    t = "SPECIFICATION %s\nCONSTANTS N = %d\n MaxHost = %d\n MaxRuns = %d\n Emitting = %s\n" % (spec, n, mh, mr, "TRUE" if emitting else "FALSE")
    if view: t += "VIEW View\n"
    if emitting: t += "INVARIANT EmitBehaviour\n"
    else: t += "".join("INVARIANT %s\n" % i for i in INVS)
    t += "".join("PROPERTY %s\n" % p for p in props)
    return t + "CHECK_DEADLOCK FALSE\n"


def pad(deps, n=NMAX):
    return deps + [[] for _ in range(n + 1 - len(deps))]


def drive(exe, jobs, name):
    d = os.path.join(vlib.BUILD, "mod"); os.makedirs(d, exist_ok=True)
    jp = os.path.join(d, name + "_jobs.ndjson"); tp = os.path.join(d, name + "_traces.ndjson")
    open(jp, "w").write("\n".join(json.dumps(j) for j in jobs) + "\n")
    r = subprocess.run([exe, "modules"], stdin=open(jp), stdout=open(tp, "w"), timeout=1800)
    if r.returncode != 0:
        vlib.tool_error("vrunner modules failed")
    return tp


def validate(tp, name, timeout=3000):
    cfg = vlib.write_cfg("ModulesTrace_%s.cfg" % name, open(os.path.join(vlib.SPEC, "ModulesTrace.cfg")).read().replace("N = 6", "N = %d" % NMAX))
    res = vlib.run_tlc("ModulesTrace.tla", cfg, "modT" + name, workers=1, timeout=timeout, heap="8g",
                       java="-Xss1g -Dtlc2.tool.queue.IStateQueue=StateDeque", env={"TRACE": tp}, accept=(0, 10, 12, 13))
    rejected = []
    for l in res.lines:
        if l.startswith('<<"REJECTED"'):
            nums = [int(x) for x in l.replace(">>", "").split(",")[1:]]
            rejected.append((nums[0], nums[1], nums[2]))
    if not rejected and not res.ok and not res.violated():
        vlib.tool_error("trace validation failed to run:\n" + res.tail())
    return res, rejected


def judge(c, tp, jobs, res, rejected, label):
    traces = [json.loads(l) for l in open(tp)]
    for inv in res.violated():
        if inv in INVS:
            c.report({"kind": "module-trace-invariant", "invariant": inv}, {"tlc_tail": res.tail()},
                     "a recorded module-loading trace violates %s" % inv)
    for (t, matched, total) in rejected:
        tr = traces[t - 1]; job = jobs[t - 1]
        nxt = tr["ev"][matched] if matched < len(tr["ev"]) else None
        c.report({"kind": "module-trace", "event": (nxt or {}).get("e"), "result": (nxt or {}).get("r")},
                 {"deps": tr["deps"], "events": tr["ev"], "matched": matched, "sources": job["sources"], "rounds": job["rounds"]},
                 "%s: recorded trace %d is not a behaviour of Modules.tla: matched %d of %d events; first unmatched: %s; deps=%s"
                 % (label, t, matched, total, json.dumps(nxt), json.dumps(tr["deps"])))
    return len(traces) - len(rejected)


def main(tier):
    c = vlib.Check("C09")
    exe = vlib.build_harness()
    quick = tier == "quick"
    rnd = random.Random(c.seed)
    # ---- M
    for (n, mh, mr) in ([(3, 4, 4)] if quick else [(3, 5, 5), (4, 4, 4)]):
        res = vlib.run_tlc("Modules.tla", vlib.write_cfg("Modules_M.cfg", mcfg(n, mh, mr, False)), "modM", workers=10, timeout=3000, heap="8g")
        c.add_tlc(res)
        for inv in res.violated():
            c.report({"kind": "spec-invariant", "invariant": inv}, {"tlc_tail": res.tail()}, "Modules.tla (model of the loader) violates " + inv)
        if not res.ok and not res.violated(): vlib.tool_error("Modules model checking failed:\n" + res.tail())
        log("model checking N=%d MaxHost=%d: %d distinct states" % (n, mh, res.distinct))
    res = vlib.run_tlc("Modules.tla", vlib.write_cfg("Modules_L.cfg", mcfg(3, 3, 4, False, view=False, spec="FairSpec", props=["Terminates"]).replace("".join("INVARIANT %s\n" % i for i in INVS), "")),
                       "modL", workers=10, timeout=1500, heap="8g")
    c.add_tlc(res)
    if res.violated():
        c.report({"kind": "spec-liveness", "invariant": "Terminates"}, {"tlc_tail": res.tail()}, "Modules.tla: loading does not terminate under a fair host")
    elif not res.ok: vlib.tool_error("liveness run failed:\n" + res.tail())
    log("liveness Terminates: %s (%d states)" % ("violated" if res.violated() else "holds", res.distinct))
    # ---- host schedules enumerated by TLC
    res = vlib.run_tlc("Modules.tla", vlib.write_cfg("Modules_E.cfg", mcfg(3, 3, 3, True, view=False)), "modE", workers=10, timeout=3000, heap="8g")
    c.add_tlc(res)
    seen = set(); jobs = []
    for d in res.prints("B"):
        deps = [d["deps"][str(m)] for m in range(0, 4)]
        rounds = []; cur = None
        for e in d["hist"]:
            if e["e"] == "prepare": cur = []
            elif e["e"] == "provide": cur.append(e["m"])
            elif e["e"] == "run": rounds.append(cur); cur = []
        key = json.dumps([deps, rounds])
        if key in seen: continue
        seen.add(key)
        base = ["/p/", "/", "/a/b/"][len(jobs) % 3]
        src = modgen.gen_sources(deps, rnd, plain=(len(jobs) % 4 == 0), base=base)
        jobs.append({"t": len(jobs) + 1, "deps": pad(deps), "sources": {str(k): v for k, v in src.items()}, "rounds": rounds, "finish": len(jobs) % 2 == 0, "base": base})
    if quick and len(jobs) > 9000:
        jobs = rnd.sample(jobs, 9000)
        for i, j in enumerate(jobs): j["t"] = i + 1
    tp = drive(exe, jobs, "enum")
    tres, rej = validate(tp, "enum")
    c.add_tlc(tres)
    ok1 = judge(c, tp, jobs, tres, rej, "TLC-enumerated schedule")
    log("TLC-enumerated schedules: %d (graph, schedule) pairs driven, %d traces accepted, %d rejected" % (len(jobs), ok1, len(rej)))
    # ---- random larger graphs: diamonds, duplicates, early/unrequested supplies, batches, GC at threshold 1
    jobs2 = []
    for t in range(1, (1500 if quick else 20000) + 1):
        n = rnd.randint(2, NMAX)
        p = rnd.choice([0.3, 0.5, 0.8])
        deps = [[x for x in range(m + 1, n + 1) if rnd.random() < p] for m in range(0, n + 1)]
        base = rnd.choice(["/p/", "/", "/a/b/"])
        if t % 7 == 0: deps = [[m + 1] if m < n else [] for m in range(0, n + 1)]      # a plain chain: long re-export chains
        src = modgen.gen_sources(deps, rnd, base=base)
        rounds = [[rnd.randint(1, n) for _ in range(rnd.randint(0, 4))] for _ in range(rnd.randint(0, 5))]
        j = {"t": t, "deps": pad(deps), "sources": {str(k): v for k, v in src.items()}, "rounds": rounds, "finish": rnd.random() < 0.8, "base": base}
        if t % 5 == 0: j["gc"] = 1
        jobs2.append(j)
    tp2 = drive(exe, jobs2, "rand")
    tres2, rej2 = validate(tp2, "rand")
    c.add_tlc(tres2)
    ok2 = judge(c, tp2, jobs2, tres2, rej2, "random schedule")
    log("random graphs up to %d modules: %d traces accepted, %d rejected" % (NMAX, ok2, len(rej2)))
    tr = [json.loads(l) for l in open(tp2).read().splitlines()[:3]]
    for x in tr[:2]: c.sample({"deps": x["deps"], "events": [{k: v for k, v in e.items() if k != "raw"} for e in x["ev"]]})
    c.cov["traces_validated_against_impl"] = ok1 + ok2
    c.cov["evaluations"] = len(jobs) + len(jobs2)
    c.cov["distinct_nontrivial"] = len(seen) + len(jobs2)
    c.cov["complete_traces"] = sum(1 for l in open(tp2) if '"Complete"' in l) + sum(1 for l in open(tp) if '"Complete"' in l)
    c.cov["rule"] = ("all 64 DAGs over main+3 modules x all supply schedules of <= 3 provide calls and <= 3 runs enumerated by TLC "
                     "(distinct (graph, host schedule) pairs%s), plus seeded random DAGs of 2..%d modules with random schedules; every recorded trace validated by ModulesTrace.tla"
                     % (", sampled to 9000 in the quick tier" if quick else "", NMAX))
    c.assumptions += ["sources are synthesised by tools/modgen.py: one module per graph node under /p/, equivalent spellings per edge, named/namespace/default imports, a re-export chain for live bindings",
                      "request lists are compared as duplicate-free lists of resolved module ids plus a legal importer per entry; the order inside a ready round is left open (hash-map iteration)"]
    c.finish()


def replay(path):
    d = json.load(open(path))
    print(json.dumps(d, indent=1)[:6000])
    return 0
