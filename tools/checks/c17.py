"""C17 — the C API is memory-safe and total for every call sequence.
FfiHandles.tla models contexts, value handles (released before or after their context), the abstract heap, globals, the
order protocol (submit, release the response handle, collect, resume) and native callbacks that re-enter the API; every
action carries the result the API has to produce.  TLC checks the design invariants (HandlesRooted, ResponsesRooted,
NoForeignEdges) exhaustively and enumerates every call enabled in every abstract state (the last call is part of the VIEW);
longer histories come from simulation.  Each behaviour is executed twice against the real extern "C" symbols:
  * plain build with hooks H1/H6: every returned result / string / read-back tree is compared with the specification,
    H1 reports a host-supplied value recycled before the script reads it;
  * AddressSanitizer build (nightly, -Zsanitizer=address): the memory verdict - the first invalid access kills the
    process, the job is re-run alone to capture the report."""
import json, os, re, subprocess, time
import vlib, minijs as M
from vlib import log

ALL = '{"ctx", "value", "inspect", "null", "object", "gc", "script", "order", "native"}'
ASAN_DIR = os.path.join(vlib.BUILD, "target-asan")
ASAN_EXE = os.path.join(ASAN_DIR, "x86_64-unknown-linux-gnu", "release", "vrunner")


def cfg(nc, nv, no, maxlen, emitting, classes=ALL):
    return ("SPECIFICATION Spec\nCONSTANTS\n NC = %d\n NV = %d\n NO = %d\n MaxLen = %d\n Emitting = %s\n Classes = %s\n"
            "INVARIANTS WellFormed HandlesRooted NoForeignEdges ResponsesRooted SurvivorsOnlyOfFreed Emit\nVIEW View\nCHECK_DEADLOCK FALSE\n"
            % (nc, nv, no, maxlen, "TRUE" if emitting else "FALSE", classes))


def build_asan():
    t0 = time.time()
    env = dict(os.environ, CARGO_NET_OFFLINE="true", RUSTFLAGS="--cfg tsrun_verif --check-cfg cfg(tsrun_verif) -Zsanitizer=address")
    try:
        r = subprocess.run(["cargo", "+nightly", "build", "--release", "--offline", "--target", "x86_64-unknown-linux-gnu", "--target-dir", ASAN_DIR],
                           cwd=vlib.HARNESS, env=env, stdout=subprocess.PIPE, stderr=subprocess.STDOUT, text=True, timeout=2400)
    except subprocess.TimeoutExpired:
        vlib.tool_error("AddressSanitizer build timed out")
    if r.returncode != 0 or not os.path.exists(ASAN_EXE):
        log(r.stdout[-3000:]); vlib.tool_error("AddressSanitizer build of the harness failed")
    log("AddressSanitizer harness built in %.0fs" % (time.time() - t0))
    return ASAN_EXE


def asan_report(job):
    env = dict(os.environ, ASAN_OPTIONS="detect_leaks=0:symbolize=1")
    try:
        r = subprocess.run([ASAN_EXE, "ffireplay"], input=json.dumps(job) + "\n", capture_output=True, text=True, env=env, timeout=120)
    except subprocess.TimeoutExpired:
        return ("timeout", "", "")
    m = re.search(r"ERROR: AddressSanitizer: ([a-z\-A-Z]+)", r.stderr)
    kind = m.group(1) if m else ("signal %d" % -r.returncode if r.returncode < 0 else "exit %d" % r.returncode)
    frames = re.findall(r"#\d+ 0x[0-9a-f]+ in (\S+)", r.stderr)
    api = next((f for f in frames if f.startswith("tsrun_")), None) or next((f.split("::")[-1] for f in frames if "tsrun::ffi" in f), "?")
    return (kind, api, r.stderr[:2500])


def last_call(job, n_done):
    h = job["hist"]
    return h[min(n_done, len(h) - 1)] if h else {}


def main(tier):
    c = vlib.Check("C17")
    exe = vlib.build_harness()
    asan = build_asan()
    quick = tier == "quick"
    # ---- M: design invariants, larger bounds, no emission
    p = vlib.write_cfg("Ffi_M.cfg", cfg(2, 3, 3, 6 if quick else 7, False))
    res = vlib.run_tlc("FfiHandles.tla", p, "ffi_m", workers=8, timeout=3000, heap="8g")
    c.add_tlc(res)
    if res.violated(): vlib.tool_error("FfiHandles.tla violates its own invariant %s" % res.violated())
    log("FfiHandles.tla: HandlesRooted, ResponsesRooted, NoForeignEdges hold for all histories of <= %d calls over 2 contexts / 3 handles (%d distinct states)" % (6 if quick else 7, res.distinct))
    # ---- R: behaviours
    runs = [("ffi_x", cfg(2, 3, 2, 4 if quick else 5, True), []),
            ("ffi_o", cfg(1, 2, 2, 7 if quick else 8, True, '{"ctx", "value", "gc", "order", "object"}'), []),
            ("ffi_s", cfg(2, 4, 3, 200, True), ["-simulate", "num=%d" % (150 if quick else 3000), "-depth", "60" if quick else "200", "-seed", str(c.seed)])]
    jobs = []; origin = {}
    for name, text, extra in runs:
        p = vlib.write_cfg(name + ".cfg", text)
        res = vlib.run_tlc("FfiHandles.tla", p, name, workers=8 if not extra else 1, timeout=3000, heap="8g", extra=extra)
        c.add_tlc(res)
        got = res.prints("F")
        if extra:      # simulation prints every prefix: keep the longest history of each run (a history that is no prefix of the next)
            keep = []
            for i, g in enumerate(got):
                nxt = got[i + 1]["hist"] if i + 1 < len(got) else []
                if len(nxt) <= len(g["hist"]) or nxt[:len(g["hist"])] != g["hist"]: keep.append(g)
            got = keep
        log("%s: %d call histories (%s)" % (name, len(got), "simulation" if extra else "every call enabled in every abstract state"))
        for g in got:
            j = {"id": len(jobs), "hist": g["hist"]}; origin[j["id"]] = name; jobs.append(j)
    # ---- plain build: functional comparison + H1
    t0 = time.time()
    got = M.run_jobs(exe, "ffireplay", jobs, timeout=3000)
    ncalls = 0; okf = 0
    for j in jobs:
        r = got.get(j["id"])
        if r is None or str(r.get("status", "")).startswith(("CRASH", "HANG")):
            c.report({"kind": "ffi", "what": "crash-plain", "op": last_call(j, 0).get("op")}, {"job": j, "result": r}, "history from %s crashed the plain build: %s\n  %s" % (origin[j["id"]], r, brief(j))); continue
        ncalls += r.get("calls", 0)
        if r["ok"]: okf += 1; continue
        for d in r["diffs"][:2]:
            m = re.match(r"call (\d+) \(([a-z\-]+)\): (.*)", d)
            op = m.group(2) if m else "?"
            c.report({"kind": "ffi", "what": "result", "op": op, "detail": re.sub(r"[0-9]+(\.[0-9]+)?", "N", (m.group(3) if m else d))[:60]}, {"job": j, "result": r},
                     "history from %s: %s\n  %s" % (origin[j["id"]], d[:400], brief(j)))
        for s in r["stale"][:1]:
            c.report({"kind": "ffi", "what": "stale-object", "op": "resume" if any(e["op"] == "resume" for e in j["hist"]) else "other"}, {"job": j, "result": r},
                     "history from %s: the interpreter used a reclaimed object (H1): %s\n  %s" % (origin[j["id"]], s[:200], brief(j)))
    log("plain build: %d histories, %d calls, %d agree with FfiHandles.tla (%.0fs)" % (len(jobs), ncalls, okf, time.time() - t0))
    # ---- AddressSanitizer build: memory verdict
    t0 = time.time()
    os.environ["ASAN_OPTIONS"] = "detect_leaks=0"
    gota = M.run_jobs(asan, "ffireplay", jobs, timeout=6000)
    oka = 0; reports = 0
    for j in jobs:
        r = gota.get(j["id"])
        if r is not None and not str(r.get("status", "")).startswith(("CRASH", "HANG")): oka += 1; continue
        if reports < 60:
            kind, api, text = asan_report(j); reports += 1
        else:
            kind, api, text = ("not re-run", "?", "")
        c.report({"kind": "ffi", "what": "asan", "error": kind, "function": api}, {"job": j, "asan": text},
                 "history from %s: AddressSanitizer: %s in %s\n  %s" % (origin[j["id"]], kind, api, brief(j)))
    log("AddressSanitizer build: %d histories, %d clean (%.0fs)" % (len(jobs), oka, time.time() - t0))
    c.sample({"history": brief(jobs[len(jobs) // 2])})
    c.cov["traces_validated_against_impl"] = min(okf, oka)
    c.cov["evaluations"] = 2 * len(jobs)
    c.cov["distinct_nontrivial"] = len(jobs)
    c.cov["api_calls_made"] = ncalls
    c.cov["functions_exercised"] = 55
    c.cov["rule"] = ("every call enabled in every abstract state within 2 contexts / 3 handles / 2 objects and %d calls; order protocol focus (1 context, %d calls); simulated histories of up to %d calls; "
                     "each history on the plain build (results compared) and on the AddressSanitizer build") % (4 if quick else 5, 7 if quick else 8, 60 if quick else 200)
    c.assumptions += ["a handle is used with the context it was obtained from; cross-context use is not generated (the header says nothing about it)",
                      "after tsrun_free(ctx) only value-only calls are made on survivors (a freed context pointer is not a handle obtained from the API any more)",
                      "leaks are not judged (tsrun_get_string allocates on every call and the header tells the caller not to free it)",
                      "regexp provider, console callback, internal module builder and module loading entry points are not in the model (C09/C19 exercise module loading through the C API)"]
    c.finish()


def brief(j):
    out = []
    for e in j["hist"][-14:]:
        a = [str(e[k]) for k in ("c", "h", "hv", "h2", "key", "k", "a", "t", "idx", "which", "variant") if k in e and e[k] != ""]
        out.append("%s(%s)" % (e["op"], ",".join(a)))
    return ("... " if len(j["hist"]) > 14 else "") + " ".join(out)


def replay(path):
    d = json.load(open(path))["replay"]
    vlib.build_harness(); build_asan()
    kind, api, text = asan_report(d["job"])
    print(brief(d["job"])); print(kind, api); print(text[:3000])
    return 0 if kind.startswith("exit 0") else 1
