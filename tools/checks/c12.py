"""C12 — execution is deterministic and interpreter instances are isolated.
Instances.tla has no variable shared between instances (NonInterference is an invariant TLC checks); its behaviours
are the schedules: every interleaving of the host protocols of N instances (program shapes: k suspensions, ending in
a value or an uncaught error; host drives it fully, oversteps, or abandons it) with junk lifetimes in between.
Every schedule is executed on real interpreters in one thread; per operation the result kind must be the one the
specification predicts and the full observation (order payloads, completion value, error text, everything logged,
export names IN ORDER) must equal the instance's solo run.  The same programs are run with every instance in its own
OS thread next to a junk thread, and solo in several fresh processes (address-space layout differs): all identical.
Programs are assembled from segments that iterate the pointer- and hash-keyed tables (property tables, Map/Set of
objects, symbols, scopes with many bindings, interned strings, exports, promise reactions, Math.random / Date.now
under fixed providers)."""
import json, os, random, subprocess, time, hashlib
import vlib, minijs as M
from vlib import log

SEGMENTS = [
    # property tables: insertion order of many keys, deletes, re-inserts
    'const o: any = {}; for (let i = 0; i < 40; i++) o["k" + ((i * 7919) % 101)] = i; delete o.k5; o.k5 = "again"; LOG(Object.keys(o).join(",")); const seen: string[] = []; for (const k in o) seen.push(k); LOG(seen.join("")); LOG(JSON.stringify(o));',
    # Map / Set keyed by objects and mixed primitives
    'const ks: any[] = []; for (let i = 0; i < 25; i++) ks.push({ i }); const m = new Map(); for (const k of ks) m.set(k, k.i * 2); m.set("s", 1); m.set(1, "n"); m.delete(ks[3]); const order: any[] = []; m.forEach((v: any, k: any) => order.push(typeof k === "object" ? k.i : k)); LOG(order.join(",")); const s = new Set(ks.slice().reverse()); LOG([...s].map((x: any) => x.i).join(","));',
    # symbols: descriptions, registry, symbol-keyed properties
    'const a = Symbol("a"), b = Symbol("b"), c = Symbol.for("shared"); const h: any = { [b]: 2, plain: 0, [a]: 1, [c]: 3 }; LOG(Object.getOwnPropertySymbols(h).map((x) => x.toString()).join(",")); LOG(Symbol.for("shared") === c, a.toString(), String(b.description));',
    # scopes with many bindings, closures, shadowing
    'function mk(seed: number) { let v0 = seed, v1 = v0 + 1, v2 = v1 * 2, v3 = v2 - 3, v4 = v3 ^ 5, v5 = v4 + v0, v6 = v5 % 7, v7 = v6 + v1, v8 = v7 * v2, v9 = v8 - v3; return () => [v0, v1, v2, v3, v4, v5, v6, v7, v8, v9].map((x, i) => x + i).join(":"); } const fs = [mk(1), mk(2), mk(3)]; LOG(fs.map((f) => f()).join("|"));',
    # classes: member enumeration, statics, accessors
    'class P { static count = 0; #secret = 1; x = 1; constructor(public name: string) { P.count++; } get up() { return this.name.toUpperCase(); } zed() { return 1; } alpha() { return this.#secret; } static make(n: string) { return new P(n); } } const p = P.make("q"); LOG(Object.getOwnPropertyNames(P.prototype).join(","), Object.keys(p).join(","), P.count, p.up, p.alpha());',
    # providers
    'LOG(Math.random(), Math.random(), Date.now(), new Date(0).toISOString(), typeof Date.now());',
    # dynamic strings, interning, string methods
    'const parts: string[] = []; for (let i = 0; i < 30; i++) parts.push(String.fromCharCode(97 + (i * 5) % 26) + i); const joined = parts.join("-"); const tbl: any = {}; for (const p of parts) tbl[p.toUpperCase()] = p.length; LOG(joined.split("-").reverse().slice(0, 5).join(), Object.keys(tbl).slice(-4).join(), "x".repeat(3).padStart(5, "ab"), joined.indexOf("k10"));',
    # errors: messages, names, stacks are host-visible text
    'const msgs: string[] = []; for (const f of [() => (null as any).x, () => (undefined as any)(), () => { throw new RangeError("r"); }, () => JSON.parse("{"), () => new (Array as any)(-1)]) { try { f(); } catch (e: any) { msgs.push(e.name + ":" + e.message); } } LOG(msgs.join(" / ")); LOG(String(new Error("st").stack).split("\\n").length > 0);',
    # sort stability, generators, destructuring, spread
    'const xs = [5, 3, 9, 1, 5, 3].map((v, i) => ({ v, i })); xs.sort((a, b) => a.v - b.v); LOG(xs.map((x) => x.v + "@" + x.i).join(",")); function* g() { let i = 0; while (i < 4) yield { i: i++ }; } const [first, ...rest] = [...g()]; LOG(first.i, rest.length, { ...rest[0], z: 1 });',
    # promises: reaction order
    'const logp: string[] = []; const ps = [1, 2, 3].map((n) => Promise.resolve(n).then((v) => { logp.push("a" + v); return v; })); Promise.all(ps).then((v) => logp.push("all" + v.join(""))); Promise.race(ps).then((v) => logp.push("race" + v)); await Promise.resolve(); await Promise.resolve(); await Promise.resolve(); LOG(logp.join(","));',
    # typed conversions, number formatting, regexp
    'LOG((1234.5678).toFixed(2), (255).toString(16), (0.1 + 0.2), 1e21, (-7) % 3, parseInt("08"), "a1b22c333".replace(/\\d+/g, (m) => "<" + m.length + ">"), /(\\w)(\\d)/.exec("x9")?.slice(1).join());',
    # object identity / getters on literals
    'const wm = new Map(); const k1 = {}, k2 = {}; wm.set(k1, "one"); wm.set(k2, "two"); const lit = { get g() { return wm.get(k1); }, set s(v: any) { wm.set(k2, v); } }; lit.s = "TWO"; LOG(lit.g, wm.get(k2), wm.has({}), Object.entries({ b: 1, a: 2, 1: "x", 0: "y" }).join(";"));',
]
EXPORTS = ["zeta", "alpha", "m1", "omega", "kappa", "b2", "_u", "$d", "longer_export_name", "e"]


def program(shape, variant, corpus):
    """one TypeScript module of the given shape: k order suspensions, ending in a value or an uncaught error"""
    rnd = random.Random(variant * 1000003 + shape["k"] * 17 + (5 if shape["end"] == "error" else 0))
    out = ['import { LOG } from "verif:host";', 'import { order } from "tsrun:host";']
    # every program also uses the host's providers: console (captured), timers (console.time follows the installed clock) and regular
    # expressions; odd variants run under a host policy that compiles every pattern case-insensitively (the same patterns are used by
    # the other instances and by the junk lifetimes under the default provider)
    if variant % 2 == 1: out.append("//@regexp-ci")
    out.append('console.time("t"); console.log("c", Date.now()); LOG("Hello WORLD".replace(/world/, "there"), "a-B-c".split(/b/).join("|"), "xAy".search(/a/), /^(x+)+y$/.test("XXY"), "Tab".match(/t/g)?.length); console.timeEnd("t"); console.warn("w");')
    ex = rnd.sample(EXPORTS, 5)
    out.append("export const %s = %d;" % (ex[0], rnd.randint(0, 99)))
    out.append("export let %s: any = { n: [%d] };" % (ex[1], rnd.randint(0, 9)))
    def seg(i):
        pool = SEGMENTS + corpus
        bodies = [pool[rnd.randrange(len(pool))] for _ in range(2)]
        return "\n".join("{ %s }" % b for b in bodies)
    for r in range(shape["k"]):
        out.append(seg(r))
        out.append('const r%d: any = await order({ n: %d, tag: "%s" }); LOG("answer", r%d); %s = { n: [r%d] };' % (r, r, "t%d" % rnd.randint(0, 999), r, ex[1], r))
    out.append(seg(shape["k"]))
    out.append("export function %s() { return 1; }" % ex[2])
    out.append("export const %s = [%s];" % (ex[3], ", ".join(ex[:2])))
    if shape["end"] == "error":
        out.append('throw new Error("end of program " + %s);' % ex[0])
    else:
        out.append("[%s, Object.keys(%s).join(), typeof %s];" % (ex[0], ex[1], ex[2]))
    return "\n".join(out) + "\n"


def cfg(n, shapes, junk, emitting=True):
    return ("SPECIFICATION Spec\nCONSTANTS\n N = %d\n Shapes <- %s\n MaxJunk = %d\n Emitting = %s\nINVARIANTS NonInterference DroppedStaysDropped Emit\nVIEW View\nCHECK_DEADLOCK FALSE\n"
            % (n, shapes, junk, "TRUE" if emitting else "FALSE"))


def shape_key(s):
    return "%d-%s-%s" % (s["k"], s["end"], s["host"])


def main(tier):
    c = vlib.Check("C12")
    exe = vlib.build_harness()
    quick = tier == "quick"
    import c02
    corpus = [b for b in c02.corpus() if "await" not in b and "order(" not in b and "import " not in b and "WeakMap" not in b][:30]
    # ---- M: the design has no shared state (exhaustive, all shapes, 3 instances, junk)
    p = vlib.write_cfg("Inst_M.cfg", cfg(2 if quick else 3, "ShapesFull", 2, emitting=False))
    res = vlib.run_tlc("Instances.tla", p, "inst_m", workers=8, timeout=3000, heap="6g")
    c.add_tlc(res)
    if res.violated(): vlib.tool_error("Instances.tla violates its own invariant: %s" % res.violated())
    log("Instances.tla: NonInterference holds for every interleaving of %d instances x 18 shapes with <= 2 junk lifetimes (%d distinct states)" % (2 if quick else 3, res.distinct))
    # ---- R: schedules
    runs = [("inst_x", cfg(2, "ShapesQuick", 0), []),
            ("inst_j", cfg(2, "ShapesQuick", 1), ["-simulate", "num=%d" % (4000 if quick else 60000), "-depth", "40", "-seed", str(c.seed)]),
            ("inst_3", cfg(3, "ShapesFull", 2), ["-simulate", "num=%d" % (2500 if quick else 60000), "-depth", "60", "-seed", str(c.seed + 1)])]
    if not quick:
        runs.append(("inst_xf", cfg(2, "ShapesFull", 0), []))
        runs.append(("inst_xj", cfg(2, "ShapesQuick", 1), []))
    scheds = []
    for name, text, extra in runs:
        p = vlib.write_cfg(name + ".cfg", text)
        res = vlib.run_tlc("Instances.tla", p, name, workers=8 if not extra else 1, timeout=3000, heap="8g", extra=extra)
        c.add_tlc(res)
        got = res.prints("S")
        seen = set(); uniq = []
        for s in got:
            h = hashlib.md5(json.dumps(s, sort_keys=True).encode()).hexdigest()
            if h not in seen: seen.add(h); uniq.append(s)
        log("%s: %d schedules (%s)" % (name, len(uniq), "simulation" if extra else "exhaustive"))
        scheds += [(name, s) for s in uniq]
    # ---- programs and jobs
    nvar = 3 if quick else 12
    progcache = {}
    def prog_for(shape, variant):
        k = (shape["k"], shape["end"], variant)
        if k not in progcache: progcache[k] = program(shape, variant, corpus)
        return {"source": progcache[k], "key": "%d-%s-%d" % k}
    jobs = []; meta = {}
    for idx, (name, s) in enumerate(scheds):
        shapes = s["shapes"]
        progs = [prog_for(sh, (idx + 3 * i) % nvar) for i, sh in enumerate(shapes)]
        j = {"id": len(jobs), "progs": progs, "sched": [{"i": e["i"], "op": e["op"]} for e in s["sched"]], "junk_seed": idx * 7 + c.seed, "threads": False}
        meta[j["id"]] = (name, s, "one thread"); jobs.append(j)
        if idx % (40 if quick else 10) == 0:
            jt = dict(j, id=len(jobs), threads=True); meta[jt["id"]] = (name, s, "separate threads"); jobs.append(jt)
    t0 = time.time()
    got = M.run_jobs(exe, "instances", jobs, timeout=5000)
    log("%d schedules executed on real interpreters (%.0fs)" % (len(jobs), time.time() - t0))
    ok = 0; ops = 0
    for j in jobs:
        name, s, how = meta[j["id"]]
        r = got.get(j["id"])
        if r is None or r.get("status", "").startswith(("CRASH", "HANG")):
            c.report({"kind": "instances", "what": "crash", "how": how}, {"job": j}, "schedule %s (%s) crashed the process: %s" % (name, how, r)); continue
        bad = None
        pred = {}
        for e in s["sched"]:
            if e["i"]: pred.setdefault(e["i"], []).append(e["r"])
        for i in range(len(j["progs"])):
            o = r["obs"][i]; so = r["solo"][i]; kinds = r["kinds"][i]
            if o != so:
                k = next((x for x in range(min(len(o), len(so))) if o[x] != so[x]), min(len(o), len(so)))
                bad = ("instance %d differs from its solo run at its operation %d: with the others %r, alone %r" % (i + 1, k + 1, (o[k:k + 1] or ["<missing>"])[0][:300], (so[k:k + 1] or ["<missing>"])[0][:300]), "not-solo"); break
            want = pred.get(i + 1, [])
            for x, (kk, ww) in enumerate(zip(kinds, want)):
                if ww == "Error-again": continue
                if kk != ww:
                    bad = ("instance %d operation %d (%s): result kind %s, Instances.tla predicts %s for shape %s" % (i + 1, x + 1, [e["op"] for e in s["sched"] if e["i"] == i + 1][x], kk, ww, shape_key(s["shapes"][i])), "kind"); break
            if bad: break
            ops += len(o)
        if bad:
            c.report({"kind": "instances", "what": bad[1], "how": how}, {"job": j, "result": r}, "schedule from %s, %s: %s\n  schedule: %s" % (name, how, bad[0], " ".join("%d:%s" % (e["i"], e["op"]) for e in s["sched"])))
        else: ok += 1
    log("%d schedules: every instance equals its solo run and the predicted result kinds (%d instance operations compared)" % (ok, ops))
    # ---- repeated runs in fresh processes
    reps = 4 if quick else 10
    solo_jobs = []
    allshapes = [{"k": k, "end": e} for k in (0, 1, 2) for e in ("complete", "error")]
    for sh in allshapes:
        for v in range(nvar):
            ops_ = ["create"] + ["step", "fulfil"] * sh["k"] + ["step", "step", "drop"]
            solo_jobs.append({"id": len(solo_jobs), "progs": [prog_for(sh, v)], "sched": [{"i": 1, "op": o} for o in ops_], "junk_seed": 1, "threads": False, "solo_only": True})
    outs = []
    for rep in range(reps):
        env = dict(os.environ, VERIF_REP=str(rep), **({"MALLOC_PERTURB_": str(rep * 37 % 255)} if rep else {}))
        pr = subprocess.run((["setarch", "-R"] if rep == 1 and os.path.exists("/usr/bin/setarch") else []) + [exe, "instances"], input="\n".join(json.dumps(j) for j in solo_jobs) + "\n", capture_output=True, text=True, env=env, timeout=1200)
        if pr.returncode != 0 and not pr.stdout:
            pr = subprocess.run([exe, "instances"], input="\n".join(json.dumps(j) for j in solo_jobs) + "\n", capture_output=True, text=True, env=env, timeout=1200)
        outs.append([json.loads(l) for l in pr.stdout.split("\n") if l.strip()])
    nproc_ok = 0
    for k, j in enumerate(solo_jobs):
        base = outs[0][k]["solo"][0] if k < len(outs[0]) else None
        same = True
        for rep in range(1, reps):
            cur = outs[rep][k]["solo"][0] if k < len(outs[rep]) else None
            if cur != base:
                same = False
                x = next((q for q in range(min(len(cur or []), len(base or []))) if cur[q] != base[q]), 0)
                c.report({"kind": "instances", "what": "process-nondeterminism"}, {"job": j, "run0": base, "run%d" % rep: cur},
                         "program %s gives different observations in two fresh processes at operation %d: %r vs %r" % (j["progs"][0]["key"], x + 1, (base or [""])[x:x + 1], (cur or [""])[x:x + 1]))
                break
        nproc_ok += same
    log("%d programs x %d fresh processes: %d identical" % (len(solo_jobs), reps, nproc_ok))
    # ---- the ORDER in which module requests are reported is part of the observable behaviour: fan-out graphs, fresh processes
    import c09, modgen
    graphs = [[[1], [2, 3, 4, 5], [], [], [], []], [[1, 2], [3, 4, 5], [4, 5, 6], [], [], [], []], [[1], [2], [3, 4, 5, 6, 7], [], [], [], [], []]]
    mjobs = []
    for gi, deps in enumerate(graphs):
        src = modgen.gen_sources(deps, random.Random(gi + 1), plain=True, base="/p/")
        # the host supplies, round by round, exactly what was asked for (a topological layering of the graph)
        level = {0: 0}
        for m in range(len(deps)):
            for d_ in deps[m]: level[d_] = max(level.get(d_, 0), level.get(m, 0) + 1)
        rounds = [[m for m in range(1, len(deps)) if level.get(m) == l] for l in range(1, max(level.values()) + 1)]
        mjobs.append({"t": gi + 1, "deps": c09.pad(deps), "sources": {str(k_): v for k_, v in src.items()}, "rounds": rounds, "finish": True, "base": "/p/"})
    mouts = []
    for rep in range(max(reps, 6)):
        pr = subprocess.run([exe, "modules"], input="\n".join(json.dumps(j) for j in mjobs) + "\n", capture_output=True, text=True, timeout=600)
        mouts.append([l for l in pr.stdout.split("\n") if l.strip()])
    mod_ok = 0
    for k_ in range(len(mjobs)):
        texts = {o[k_] if k_ < len(o) else None for o in mouts}
        if len(texts) == 1 and None not in texts: mod_ok += 1; continue
        a, b = (list(texts) + [None])[:2]
        c.report({"kind": "instances", "what": "module-request-order"}, {"job": mjobs[k_], "trace_a": a, "trace_b": b},
                 "the module graph %s is driven identically in %d fresh processes but the recorded traces (order of the requests inside NeedImports) differ:\n  %s\n  %s" % (graphs[k_], len(mouts), (a or "")[:300], (b or "")[:300]))
    log("%d fan-out module graphs x %d fresh processes: %d with identical request order" % (len(mjobs), len(mouts), mod_ok))
    c.sample({"schedule": " ".join("%d:%s" % (e["i"], e["op"]) for e in scheds[len(scheds) // 2][1]["sched"]), "shapes": [shape_key(x) for x in scheds[len(scheds) // 2][1]["shapes"]]})
    c.sample({"program": progcache[next(iter(progcache))][:1500]})
    c.cov["traces_validated_against_impl"] = ok
    c.cov["evaluations"] = len(jobs) + len(solo_jobs) * reps
    c.cov["distinct_nontrivial"] = len(scheds)
    c.cov["instance_operations_compared"] = ops
    c.cov["programs"] = len(progcache); c.cov["fresh_process_repetitions"] = reps
    c.cov["rule"] = ("exhaustive: every interleaving of 2 instances over the quick shapes (no junk)%s; simulation: 2 instances + 1 junk lifetime, 3 instances x 18 shapes + <= 2 junk lifetimes; "
                     "a sample of the schedules also with one OS thread per instance plus a junk thread; every program solo in %d fresh processes") % ("" if quick else ", over all 18 shapes, and with one junk lifetime at every position", reps)
    c.assumptions += ["observations: result kind per host operation, order ids and payloads, completion value, error text, host-native LOG output with property order preserved, export names in the order the API returns them",
                      "time and random providers are fixed per instance (the property's premise)",
                      "cross-process variation relies on the kernel's address-space randomisation and MALLOC_PERTURB_; one repetition runs with randomisation disabled (setarch -R) when available"]
    c.finish()


def replay(path):
    d = json.load(open(path))["replay"]
    exe = vlib.build_harness()
    got = M.run_jobs(exe, "instances", [dict(d["job"], id=0)], nproc=1)[0]
    for i, (o, s) in enumerate(zip(got["obs"], got["solo"])):
        print("instance", i + 1, "same as solo:", o == s)
        for a, b in zip(o, s):
            if a != b: print("   with others:", a[:400]); print("   alone      :", b[:400])
    return 0 if all(o == s for o, s in zip(got["obs"], got["solo"])) else 1
