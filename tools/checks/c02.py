"""C02 — garbage collection is invisible: no reachable object is ever reclaimed.
Every specification that models programs and the host (MiniJS, Orders, Modules) has NO collector: their behaviours are the
behaviours with collection disabled.  The GC schedule is one more host choice: threshold in {1,2,3,5,7,100} and host-forced
collect() every k-th step.  Under every schedule the recorded trace must still be the spec's behaviour, and hook H1 (generation
stamps in Gc handles, cfg tsrun_verif) must report no use of a swept or reused slot.
Programs: MiniJS sync and async programs (spec oracle), plus a corpus exercising natives that allocate while holding inputs
(map/filter/sort callbacks, JSON, Map/Set, getters, proxies, generators, spread, promise chains, ...) whose oracle is the run
with collection disabled (the property's own formulation).  Thorough tier: the repository's interpreter tests rebuilt with H1
armed (panic on stale use)."""
import json, os, random, subprocess, time
import vlib, minijs as M, minijs_gen as G, mjcheck
from vlib import log

SCHEDULES = [{"gc": 1}, {"gc": 2}, {"gc": 3}, {"gc": 5}, {"gc": 7}, {"gc": 100, "collect_every": 1}, {"gc": 0, "collect_every": 3}, {"gc": 100, "collect_every": 11}]


def corpus():
    txt = open(os.path.join(vlib.ROOT, "tools", "corpus", "gc_stress.ts.txt")).read()
    progs = []
    for p in txt.split("//---"):
        b = "\n".join(l for l in p.splitlines() if not l.startswith("//")).strip()
        if b: progs.append(b)
    return progs


def sched_label(s):
    return ",".join("%s=%s" % kv for kv in sorted(s.items()))


def main(tier):
    c = vlib.Check("C02")
    exe = vlib.build_harness()
    quick = tier == "quick"
    J = mjcheck.Judge(c, exe, props=("C01", "C07"))
    scheds = SCHEDULES[:5] + SCHEDULES[5:7] if quick else SCHEDULES
    stale_total = 0; runs_total = 0
    # ---- MiniJS programs: the spec's behaviour under every GC schedule
    for (label, asyncmode, n, seed) in (("sync", False, 700 if quick else 8000, 11), ("async", True, 400 if quick else 4000, 13)):
        progs = mjcheck.gen_programs(c.seed * 17 + seed, n, objects=True, gens=not asyncmode, orders=asyncmode)
        res, exp = M.run_spec(progs, "c02" + label)
        c.add_tlc(res)
        judged = [P for P in progs if M.expected_events(exp[P["id"]]) is not None]
        ng = M.run_node(judged, "c02" + label, asyncmode=asyncmode)
        for s in scheds:
            jobs = []
            for P in progs:
                j = {"id": P["id"], "source": M.ts_source(P, asyncmode=asyncmode), "resp": P.get("resp", []), "mode": "deferred" if asyncmode else "immediate", "path": "/p/main.ts", "max_steps": 60000}
                j.update(s); jobs.append(j)
            got = M.run_jobs(exe, "prog", jobs, timeout=1800)
            for P in progs:
                r = got[P["id"]]
                runs_total += 1
                if r.get("stale"): stale_total += 1
                J.judge(P, exp[P["id"]], (ng.get(P["id"], []) if ng is not None else None), r, jobs[0]["source"] if False else M.ts_source(P, asyncmode=asyncmode),
                        what="%s program, GC schedule %s" % (label, sched_label(s)))
        log("%s programs: %d x %d schedules; so far %s" % (label, n, len(scheds), dict(J.stats)))
    # ---- natives corpus: every schedule must reproduce the run with collection disabled
    bodies = corpus()
    def job(i, b, s):
        j = {"id": i, "source": 'import { LOG, ERR } from "verif:host";\ntry {\n' + b + '\n} catch (e) { ERR(e); }\n', "resp": [], "mode": "immediate", "path": "/p/main.ts", "max_steps": 400000}
        j.update(s); return j
    base = M.run_jobs(exe, "prog", [job(i, b, {"gc": 0}) for i, b in enumerate(bodies)])
    corpus_ok = 0
    for s in scheds:
        got = M.run_jobs(exe, "prog", [job(i, b, s) for i, b in enumerate(bodies)])
        for i, b in enumerate(bodies):
            runs_total += 1
            e = base[i]["ev"]; a = got[i]["ev"]
            if a == e and not got[i].get("stale"): corpus_ok += 1; continue
            if got[i].get("stale"): stale_total += 1
            k = M.first_diff(e, a)
            c.report({"kind": "gc-schedule", "schedule": sched_label(s), "corpus_program": i},
                     {"source": b, "schedule": s, "without_gc": e, "with_gc": a, "stale": got[i].get("stale")},
                     "corpus program %d behaves differently under GC schedule %s: event %d without collection %s, with %s; stale uses: %s\n%s"
                     % (i, sched_label(s), k, [x[:80] for x in e[k:k + 1]], [x[:80] for x in a[k:k + 1]], got[i].get("stale"), b[:600]))
    log("natives corpus: %d programs x %d schedules, %d identical to the run without collection" % (len(bodies), len(scheds), corpus_ok))
    # ---- suspension + collection: synchronous frames (constructors, call chains, methods, callbacks) hold fresh objects in
    # registers and locals while a callee blocks on order(); under every GC schedule and with the answers deferred the result
    # must be the one of the run that never suspends and never collects
    import c07
    tw_ok = 0
    for tag, (body, answers) in c07.TWINS.items():
        # each frame also keeps a fresh object alive across the suspension
        real = 'import { LOG, ERR } from "verif:host";\nimport { order } from "tsrun:host";\ntry {\n' + body + '\n} catch (e) { ERR(e); }\n'
        twin = 'import { LOG, ERR } from "verif:host";\nconst order = (p: any): any => p.v;\ntry {\n' + body + '\n} catch (e) { ERR(e); }\n'
        resp = [{"k": "val", "v": a} for a in answers]
        tj = [{"id": 0, "source": twin, "resp": [], "mode": "immediate", "path": "/p/main.ts", "max_steps": 200000, "gc": 0}]
        for si, sc in enumerate(scheds):
            for mi, mode in enumerate(("deferred", "spurious")):
                j = {"id": 1 + si * 2 + mi, "source": real, "resp": resp, "mode": mode, "path": "/p/main.ts", "max_steps": 200000}; j.update(sc); tj.append(j)
        tg = M.run_jobs(exe, "prog", tj)
        want = [e for e in M.impl_events(tg[0]) if not e.startswith("O|")]
        base_real = None
        for j in tj[1:]:
            runs_total += 1
            ev = [e for e in M.impl_events(tg[j["id"]]) if not e.startswith("O|")]
            # suspension itself may already deviate (C07's findings): the reference is then the real-order run at the mildest schedule
            if base_real is None: base_real = ev
            ref = want if base_real == want else base_real
            if ev == ref and not tg[j["id"]].get("stale"): tw_ok += 1; continue
            if tg[j["id"]].get("stale"): stale_total += 1
            c.report({"kind": "gc-schedule", "schedule": sched_label({k: j[k] for k in ("gc", "collect_every") if k in j}), "twin": tag},
                     {"source": real, "mode": j["mode"], "schedule": {k: j[k] for k in ("gc", "collect_every") if k in j}, "expected": ref, "got": ev, "stale": tg[j["id"]].get("stale")},
                     "suspended frames lose objects under GC: [%s] schedule %s mode %s: expected %s, got %s; stale uses: %s" % (tag, sched_label({k: j[k] for k in ("gc", "collect_every") if k in j}), j["mode"], ref, ev, tg[j["id"]].get("stale")))
    log("suspension twins: %d templates x %d schedules x 2 host modes, %d identical" % (len(c07.TWINS), len(scheds), tw_ok))
    # ---- thorough: the repository's own tests as stale-handle detectors
    if not quick:
        env = dict(os.environ, RUSTFLAGS="--cfg tsrun_verif", TSRUN_VERIF_PANIC_ON_STALE="1", CARGO_NET_OFFLINE="true")
        t0 = time.time()
        r = subprocess.run(["cargo", "test", "--offline", "--test", "interpreter", "--target-dir", os.path.join(vlib.BUILD, "target-repo-h1")],
                           cwd="/repo", env=env, stdout=subprocess.PIPE, stderr=subprocess.STDOUT, text=True, timeout=3000)
        failed = [l for l in r.stdout.splitlines() if l.startswith("test ") and l.rstrip().endswith("FAILED")]
        stale_fail = [l for l in r.stdout.splitlines() if "stale Gc handle used" in l]
        log("repository interpreter tests with H1 armed: rc=%d, %d failed, %d stale-use panics (%.0fs)" % (r.returncode, len(failed), len(stale_fail), time.time() - t0))
        for l in stale_fail[:5]:
            c.report({"kind": "gc-stale-in-repo-test"}, {"line": l}, "a repository test uses a reclaimed object when built with the H1 hook: " + l)
        c.cov["repo_tests_with_h1"] = {"rc": r.returncode, "failed": len(failed), "stale_panics": len(stale_fail)}
    c.sample({"corpus_program": bodies[1][:300], "schedules": [sched_label(s) for s in scheds]})
    c.cov["traces_validated_against_impl"] = J.stats["agree"] + corpus_ok
    c.cov["evaluations"] = runs_total
    c.cov["distinct_nontrivial"] = J.stats["judged"] + len(bodies) * len(scheds)
    c.cov["stale_handle_uses_reported_by_H1"] = stale_total
    c.cov["judging"] = dict(J.stats)
    c.cov["rule"] = ("every program x GC schedule in {%s}; MiniJS programs are judged against the GC-free specification, corpus programs against their own run with "
                     "collection disabled; a run also fails when hook H1 reports a use of a swept or reused slot") % "; ".join(sched_label(s) for s in scheds)
    c.assumptions += ["detection needs a scenario that allocates inside an unguarded window; the corpus lists which natives are exercised",
                      "C08 and C09 additionally replay their behaviours at GC threshold 1"]
    c.finish()


def replay(path):
    d = json.load(open(path))
    print(json.dumps(d, indent=1)[:5000])
    return 0
