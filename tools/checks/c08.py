"""C08 — the order protocol is exact.
M : Orders.tla model-checked over all well-formed scripts x all host histories inside the bound; the C08 properties
    are evaluated on every finished behaviour; liveness (Quiesces) under weak fairness of step().
R : TLC behaviours (exhaustive at a small bound, simulated beyond) are replayed on the real interpreter: the
    StepResult kind, pending ids with payloads, cancelled ids and the completion value must match at every step.
A property violation the model exhibits is believed only after a behaviour exhibiting it has been followed exactly
by the real interpreter (witness pass); it is then matched against known_findings.json."""
import json, os, shutil, subprocess, time
import vlib
from vlib import log

ALLOPS = '{"ord", "tord", "await", "tawait", "comb", "cancel"}'
ALLKINDS = '{"all", "race", "any", "allSettled"}'


def cfg(nv, maxlen, maxhost, extra, stray, emitting, view, invs, ops=ALLOPS, kinds=ALLKINDS, scriptfile="", spec="Spec", props=()):
    t = ("SPECIFICATION %s\nCONSTANTS NV = %d\n MaxLen = %d\n MaxHost = %d\n ExtraSteps = %d\n MaxStray = %d\n Emitting = %s\n OpKinds = %s\n Kinds = %s\n ScriptFile = \"%s\"\n"
         % (spec, nv, maxlen, maxhost, extra, stray, "TRUE" if emitting else "FALSE", ops, kinds, scriptfile))
    if view:
        t += "VIEW View\n"
    t += "".join("INVARIANT %s\n" % i for i in invs) + "".join("PROPERTY %s\n" % p for p in props)
    return t + "CHECK_DEADLOCK FALSE\n"


def stream_replay(exe, name, cfgpath, nv, workers, timeout, extra=(), gc=None):
    metadir = os.path.join(vlib.BUILD, "tlc", name)
    shutil.rmtree(metadir, ignore_errors=True); os.makedirs(metadir)
    cmd = vlib.tlc_cmd("Orders.tla", cfgpath, metadir, workers=workers, extra=extra)
    t0 = time.time()
    tlc = subprocess.Popen(cmd, cwd=vlib.SPEC, env=vlib.tlc_env(heap="8g"), stdout=subprocess.PIPE, stderr=subprocess.STDOUT)
    args = [exe, "orders", str(nv)] + ([str(gc)] if gc is not None else [])
    run = subprocess.Popen(args, stdin=tlc.stdout, stdout=subprocess.PIPE, text=True)
    tlc.stdout.close()
    try:
        out, _ = run.communicate(timeout=timeout); tlc.wait(timeout=60)
    except subprocess.TimeoutExpired:
        tlc.kill(); run.kill(); vlib.tool_error("Orders TLC/replay timed out (%s)" % name)
    shutil.rmtree(metadir, ignore_errors=True)
    lines = out.splitlines()
    res = vlib.TlcResult(tlc.returncode, [l[5:] for l in lines if l.startswith("TLC: ")])
    res.wall = time.time() - t0; res.cmd = " ".join(cmd) + " | vrunner orders"
    if tlc.returncode not in (0, 12, 13):
        log(res.tail()); vlib.tool_error("TLC failed rc=%s (%s)" % (tlc.returncode, name))
    mism = [json.loads(l[9:]) for l in lines if l.startswith("MISMATCH ")]
    summ = [json.loads(l[8:]) for l in lines if l.startswith("SUMMARY ")]
    if not summ:
        vlib.tool_error("orders replayer produced no summary")
    return res, mism, summ[0]


def script_feat(script):
    return {"comb": next((o["k"] for o in script if o["o"] == "comb"), "none"),
            "has_cancel": any(o["o"] == "cancel" for o in script)}


def main(tier):
    c = vlib.Check("C08")
    exe = vlib.build_harness()
    quick = tier == "quick"
    os.makedirs(os.path.join(vlib.BUILD, "ord"), exist_ok=True)
    # ---- M: all scripts x all host histories, properties evaluated on finished behaviours
    bounds = [(2, 4, 4, 2, 0), (2, 3, 3, 3, 1)] if quick else [(2, 4, 4, 3, 1), (2, 5, 4, 2, 0), (3, 4, 3, 2, 0)]
    viol = {}   # (prop, comb) -> example scripts
    for (nv, ml, mh, ex, st) in bounds:
        p = vlib.write_cfg("Orders_M_%d_%d_%d.cfg" % (nv, ml, mh), cfg(nv, ml, mh, ex, st, False, True, ["EmitViolations"]))
        res = vlib.run_tlc("Orders.tla", p, "ordM", workers=12 if quick else 14, timeout=900 if quick else 7200, heap="12g")
        c.add_tlc(res)
        if not res.ok:
            vlib.tool_error("Orders model checking did not finish:\n" + res.tail())
        for d in res.prints("V"):
            f = script_feat(d["script"])
            for v in d["viol"]:
                k = (v, f["comb"] if v == "NoLostWakeup" else "*", nv)
                cur = viol.setdefault(k, [])
                if len(cur) < 2 or len(d["script"]) < max(len(x) for x in cur):
                    cur.append(d["script"]); cur.sort(key=len); del cur[2:]
        log("model checking NV=%d MaxLen=%d MaxHost=%d: %d distinct states (%.0fs); violated so far: %s"
            % (nv, ml, mh, res.distinct, res.wall, sorted(set((k[0], k[1]) for k in viol))))
    # ---- witness pass: a model-level violation counts only once the real interpreter has followed a behaviour exhibiting it
    confirmed = {}
    for (prop, comb, nv), scripts in sorted(viol.items()):
        sf = os.path.join(vlib.BUILD, "ord", "script_%s_%s.ndjson" % (prop, comb.replace("*", "any")))
        open(sf, "w").write(json.dumps(scripts[0]) + "\n")
        p = vlib.write_cfg("Orders_W.cfg", cfg(nv, 5, 4, 2, 0, True, False, ["EmitBehaviour"], scriptfile=sf))
        res, mism, summ = stream_replay(exe, "ordW", p, nv, 4, 600)
        c.add_tlc(res)
        n = summ["confirmed_violations"].get(prop, 0)
        log("witness %s/%s: script %s -> %d behaviours, %d followed exactly by the implementation and violating, %d divergences"
            % (prop, comb, json.dumps(scripts[0]), summ["behaviours"], n, summ["mismatches"]))
        for m in mism:
            c.report({"kind": "divergence", "where": "witness"}, m, "implementation diverges from Orders.tla: %s\n%s" % (m["why"], m["source"]))
        if n > 0:
            w = summ["witness"][prop]
            c.report({"kind": "protocol-property", "invariant": prop, "comb": comb if comb != "*" else script_feat(scripts[0])["comb"]},
                     w, "order protocol property %s violated (confirmed on the real interpreter): program\n%s host history %s" % (prop, w["source"], json.dumps(w["hist"])))
            confirmed[(prop, comb)] = n
            c.sample({"violating_behaviour": {"property": prop, "script": w["script"], "hist": w["hist"]}})
    # ---- R: exhaustive at a tiny bound + simulation
    total = 0; acts = 0
    runs = [("ordRx", cfg(2, 3, 3, 1, 0, True, False, ["EmitBehaviour"]), 2, [], None)]
    nsim = 6000 if quick else 150000
    runs.append(("ordRs", cfg(2, 5, 5, 3, 1, True, False, ["EmitBehaviour"]), 2, ["-simulate", "num=%d" % (nsim // 4), "-depth", "24", "-seed", str(c.seed)], None))
    runs.append(("ordRg", cfg(2, 5, 5, 3, 1, True, False, ["EmitBehaviour"]), 2, ["-simulate", "num=%d" % (nsim // 16), "-depth", "24", "-seed", str(c.seed + 1)], 1))
    if not quick:
        # (3 orders, 6 host moves: larger constants make TLC enumerate a set of more than 10^6 scripts in Init)
        runs.append(("ordR3", cfg(3, 5, 5, 2, 1, True, False, ["EmitBehaviour"]), 3, ["-simulate", "num=%d" % (nsim // 8), "-depth", "28", "-seed", str(c.seed + 2)], None))
    # focus scripts: ONE program each, ALL host histories (exhaustive): suspensions after a combinator / a cancel,
    # so that late settlements of race losers, duplicate cancellations etc. become observable in a later result
    FOCUS = [
        [{"o": "ord", "v": 1}, {"o": "ord", "v": 2}, {"o": "comb", "k": "race"}, {"o": "await", "v": 4}, {"o": "ord", "v": 3}],
        [{"o": "ord", "v": 1}, {"o": "ord", "v": 2}, {"o": "comb", "k": "all"}, {"o": "tawait", "v": 4}, {"o": "tord", "v": 3}],
        [{"o": "ord", "v": 1}, {"o": "cancel", "v": 1}, {"o": "tord", "v": 2}, {"o": "cancel", "v": 1}, {"o": "ord", "v": 3}],
        [{"o": "tord", "v": 1}, {"o": "ord", "v": 2}, {"o": "comb", "k": "allSettled"}, {"o": "tawait", "v": 1}, {"o": "ord", "v": 3}],
    ] + ([] if quick else [
        [{"o": "ord", "v": 1}, {"o": "ord", "v": 2}, {"o": "ord", "v": 3}, {"o": "comb", "k": "race"}, {"o": "await", "v": 4}, {"o": "tawait", "v": 2}],
        [{"o": "ord", "v": 1}, {"o": "ord", "v": 2}, {"o": "comb", "k": "any"}, {"o": "tawait", "v": 1}, {"o": "ord", "v": 3}],
    ])
    for i, scr in enumerate(FOCUS):
        sf = os.path.join(vlib.BUILD, "ord", "focus_%d.ndjson" % i)
        open(sf, "w").write(json.dumps(scr) + "\n")
        runs.append(("ordF%d" % i, cfg(3, 6, 6 if quick else 7, 1, 0, True, False, ["EmitBehaviour"], scriptfile=sf), 3, [], None))
    for name, text, nv, extra, gc in runs:
        p = vlib.write_cfg(name + ".cfg", text)
        res, mism, summ = stream_replay(exe, name, p, nv, 4 if extra else 10, 1200 if quick else 7200, extra=extra, gc=gc)
        c.add_tlc(res)
        total += summ["behaviours"]; acts += summ["actions"]
        for m in mism:
            c.report({"kind": "divergence", "where": name}, m, "implementation diverges from Orders.tla: %s\n%s host history %s" % (m["why"], m["source"], json.dumps(m["hist"])))
        if summ["sample"]: c.sample(summ["sample"])
        log("%s: %d behaviours replayed (%d actions), %d divergences%s" % (name, summ["behaviours"], summ["actions"], summ["mismatches"], " [GC threshold 1]" if gc else ""))
    # ---- liveness: once the host has stopped, stepping reaches a terminal result or a state where the host can still act
    for kinds, label in (('{"all", "race", "allSettled"}', "all/race/allSettled"), ('{"any"}', "any")):
        p = vlib.write_cfg("Orders_L.cfg", cfg(2, 4, 4, 99, 0, False, False, [], kinds=kinds, spec="FairSpec", props=["Quiesces"]))
        res = vlib.run_tlc("Orders.tla", p, "ordL", workers=12, timeout=1500, heap="8g")
        c.add_tlc(res)
        v = res.violated()
        log("liveness Quiesces over %s: %s (%d distinct states)" % (label, "violated" if v else "holds", res.distinct))
        if v:
            c.report({"kind": "protocol-property", "invariant": "Quiesces", "comb": label}, {"tlc_tail": res.tail()},
                     "liveness property Quiesces violated for combinators %s: the run stays Suspended although the host has settled everything" % label)
        elif not res.ok:
            vlib.tool_error("liveness run did not finish:\n" + res.tail())
    c.cov["traces_validated_against_impl"] = total
    c.cov["evaluations"] = total
    c.cov["distinct_nontrivial"] = total
    c.cov["replayed_actions"] = acts
    c.cov["properties_violated_in_model_and_confirmed"] = ["%s/%s" % k for k in confirmed]
    c.cov["rule"] = ("M: every well-formed script (ord/tord/await/tawait/comb/cancel) x every host history within %s (NV, MaxLen, MaxHost, extra steps, stray answers); "
                     "R: every behaviour of the tiny bound plus simulated behaviours, each replayed on the real interpreter and compared step by step") % bounds
    c.assumptions += ["Orders.tla models the interpreter's order ledger as coded; a mismatch between replay and model is reported as a violation of C08 "
                      "(the model's own properties are evaluated on behaviours the implementation was shown to follow)",
                      "a pending host promise the program never awaits does not count as outstanding at Complete"]
    c.finish()


def replay(path):
    d = json.load(open(path))
    print(json.dumps(d, indent=1)[:4000])
    return 0
