"""C14 — garbage is reclaimed: repeated work does not grow the heap.
A self-contained program is run k = 6 times in a row on ONE interpreter with a forced collection after every run; the ledger
`live objects after collect()` is recorded.  Lifecycle.tla (trace validation, batch, kind "repeat") accepts the history iff
the live count is constant from the second repetition on.  Bodies: every nesting kind of C11 in the modes complete / uncaught
error (cycles, closures, generators exhausted and abandoned, failing calls, async functions with orders, settled promises),
the natives corpus, and seeded random MiniJS programs (sync and async)."""
import json, os, random
import vlib, minijs as M, mjcheck, lifegen as L, lifecheck
from vlib import log

K = 6
EXTRA = {
    "cycle": 'const a: any = { n: [] }; const b: any = { a }; a.b = b; a.n.push(a, b); LOG(a.n.length);',
    "closures": 'const fs: any[] = []; for (let i = 0; i < 10; i++) { const big = { i, p: [i, i] }; fs.push(() => big.p[0] + i); } LOG(fs.reduce((s, f) => s + f(), 0));',
    "settled_promises": 'let p: any = Promise.resolve(1); for (let i = 0; i < 5; i++) p = p.then((v: number) => ({ v }).v + 1); p.then((v: number) => LOG(v)); Promise.reject(new Error("x")).catch((e: any) => LOG(e.message));',
    "gen_exhausted": 'function* g() { let i = 0; while (i < 3) yield { i: i++ }; } LOG([...g()].length);',
    "gen_abandoned": 'function* g() { try { yield { a: 1 }; yield { a: 2 }; } finally { LOG(0); } } const it = g(); LOG(it.next().value.a);',
    "gen_once": 'function* g() { yield 1; } LOG(g().next().value);',
    "failing_call": 'function f(n: number): number { const pad = [n, { n }]; if (n === 0) throw new Error("deep"); return f(n - 1) + pad.length; } try { f(8); } catch (e: any) { LOG(e.message); }',
    "map_set": 'const m = new Map(); for (let i = 0; i < 10; i++) m.set({ i }, [i]); const s = new Set([...m.keys()]); LOG(s.size);',
    "class_instances": 'class C { k: any[] = []; constructor(public v: number) {} add(c: C) { this.k.push(c); return this; } } let r = new C(0); for (let i = 1; i < 8; i++) r = new C(i).add(r); LOG(r.k[0].v);',
    "json": 'const o = JSON.parse(JSON.stringify({ a: [1, { b: [2, { c: 3 }] }] })); LOG(o.a[1].b[1].c);',
    "uncaught_in_callback": '[1, 2, 3].map((x) => { if (x === 2) throw new Error("cb" + x); return { x }; });',
    "proxy": 'const t = new Proxy({ a: 1 }, { get(tg: any, k: any) { return k in tg ? tg[k] : [k]; } }); LOG((t as any).zz.length + (t as any).a);',
}


# promise combinators whose losers never settle / reject, awaited inside the body (the awaits are real suspensions under deferred answers)
EXTRA_ASYNC = {
    "race_never_loser": 'const never = new Promise(() => {}); const r: any = await Promise.race([never, Promise.resolve({ v: [1] })]); LOG(r.v.length);',
    "race_never_loser_reject": 'const never = new Promise(() => {}); try { await Promise.race([never, Promise.reject(new Error("lost"))]); } catch (e: any) { LOG(e.message); }',
    "race_order_vs_never": 'const never = new Promise(() => {}); const r: any = await Promise.race([never, order({ q: 1 })]); LOG(r);',
    "any_with_never": 'const never = new Promise(() => {}); const r: any = await Promise.any([Promise.reject(new Error("a")), never, Promise.resolve({ w: 2 })]); LOG(r.w);',
    "all_settled_mixed": 'const r: any = await Promise.allSettled([Promise.resolve({ a: 1 }), Promise.reject(new Error("b")), order({ c: 3 })]); LOG(r.length);',
    "then_on_never": 'const never = new Promise(() => {}); never.then((v) => LOG(v)); never.finally(() => LOG(0)); LOG(1);',
}
# bodies run N times INSIDE one program: what a finished iteration leaves behind must not depend on N (the run with the larger N is
# followed by a collection while the interpreter still holds that run's state)
SCALED = {
    "async_throw_catch": 'async function f(i: number) { const pad = { i, p: [i] }; throw new Error("x" + pad.p.length); } for (let i = 0; i < {N}; i++) { await f(i).catch((e: any) => e.message); } LOG({N});',
    "async_throw_try_await": 'async function f(i: number) { const pad = [i, { i }]; if (pad.length) throw new Error("y"); return pad; } let c = 0; for (let i = 0; i < {N}; i++) { try { await f(i); } catch (e) { c++; } } LOG(c);',
    "async_ok": 'async function f(i: number) { return { i, l: [i] }; } let s = 0; for (let i = 0; i < {N}; i++) { s += (await f(i)).l.length; } LOG(s);',
    "sync_throw_catch": 'function f(i: number) { const pad = { i }; throw new Error("z" + pad.i); } let c = 0; for (let i = 0; i < {N}; i++) { try { f(i); } catch (e) { c++; } } LOG(c);',
    "closures_in_loop": 'let s = 0; for (let i = 0; i < {N}; i++) { const big = { i, p: [i, i] }; const g = () => big.p.length + i; s += g(); } LOG(s);',
    "generators_abandoned": 'function* g(i: number) { try { yield { i }; yield { i }; } finally { } } let s = 0; for (let i = 0; i < {N}; i++) { const it = g(i); s += it.next().value.i; } LOG(s);',
    "for_of_break": 'let s = 0; for (let i = 0; i < {N}; i++) { for (const x of [{ a: i }, { a: i }]) { s += x.a; break; } } LOG(s);',
    "promise_chains": 'let s = 0; for (let i = 0; i < {N}; i++) { s += await Promise.resolve({ i }).then((v) => v.i).then((v) => v + 1); } LOG(s);',
    "race_in_loop": 'let s = 0; for (let i = 0; i < {N}; i++) { const r: any = await Promise.race([new Promise(() => {}), Promise.resolve({ i })]); s += r.i; } LOG(s);',
    "orders_in_loop": 'let s = 0; for (let i = 0; i < {N}; i++) { s += (await order({ i })) as number; } LOG(s);',
    "class_instances_in_loop": 'class C { k: any[] = []; constructor(public v: number) {} } let s = 0; for (let i = 0; i < {N}; i++) { const c = new C(i); c.k.push(c); s += c.k.length; } LOG(s);',
}


def wrap(body, role, asy=False):
    if role == "module":
        return 'import { LOG, ERR } from "verif:host";\nimport { order } from "tsrun:host";\n' + body + "\n"
    if asy:   # no top-level await in a script: an async function expression called at once
        return 'import { LOG, ERR } from "verif:host";\nimport { order } from "tsrun:host";\n(async () => {\n' + body + "\n})();\n"
    return 'import { LOG, ERR } from "verif:host";\n{\n' + body + "\n}\n"          # a block keeps a script self-contained


def main(tier):
    c = vlib.Check("C14")
    exe = vlib.build_harness()
    quick = tier == "quick"
    jobs = []; metas = []; descr = []
    def add(src, path, what, resp=None):
        runs = [{"source": src, "path": path, "mode": "complete", "resp": resp or [{"k": "val", "v": 1}], "role": "rep"} for _ in range(K)]
        jobs.append({"id": len(jobs), "runs": runs}); metas.append({"kind": "repeat"}); descr.append(what)
        if "order(" in src:
            # the same body with every order answered through a host promise that is settled LATER: the awaits really suspend
            for hm in ("deferred", "spurious"):
                jobs.append({"id": len(jobs), "runs": [dict(r, host_mode=hm) for r in runs]}); metas.append({"kind": "repeat"}); descr.append(what.replace("/", "+" + hm + "/", 1) if "/" in what else what + "+" + hm)
    for nest in L.NEST:
        if nest in L.NEVER_COMPLETES: continue
        for mode in ("complete", "throw"):
            src, asy = L.death_program(nest, mode)
            body = src.split("\n", 2 if asy else 1)[-1]
            for role in ("module", "script"):
                add(wrap(body, role, asy), "/p/main.ts" if role == "module" else None, "%s/%s/%s" % (nest, mode, role))
    for name, body in EXTRA.items():
        for role in ("module", "script"):
            add(wrap(body, role), "/p/main.ts" if role == "module" else None, "%s/%s" % (name, role))
    for name, body in EXTRA_ASYNC.items():
        add(wrap(body, "module"), "/p/main.ts", "%s/module" % name)
        add(wrap(body, "script", True), None, "%s/script" % name)
    # scaling inside one run: N = 3, 3, 12, 12, 3 - the ledger after every run must be the same
    for name, body in SCALED.items():
        for role in ("module", "script"):
            runs = []
            for nn in (3, 3, 12, 12, 3, 3):
                src = wrap(body.replace("{N}", str(nn)), role, role == "script")
                runs.append({"source": src, "path": "/p/main.ts" if role == "module" else None, "mode": "complete", "resp": [{"k": "val", "v": 1}], "role": "rep"})
            for hm in ((None, "deferred") if "order(" in body else (None,)):
                jobs.append({"id": len(jobs), "runs": [dict(r, host_mode=hm) if hm else r for r in runs]}); metas.append({"kind": "repeat"}); descr.append("scaled:%s%s/%s" % (name, "+" + hm if hm else "", role))
    import c02
    for i, b in enumerate(c02.corpus()):
        add(wrap(b, "module"), "/p/main.ts", "corpus%d/module" % i)
        add(wrap(b, "script"), None, "corpus%d/script" % i)
    n = 150 if quick else 3000
    for (asyncmode, seed) in ((False, 5), (True, 6)):
        progs = mjcheck.gen_programs(c.seed * 19 + seed, n, objects=True, gens=not asyncmode, orders=asyncmode)
        for P in progs:
            src = M.ts_source(P, asyncmode=asyncmode)
            add(src, "/p/main.ts", "random %s program %d/module" % ("async" if asyncmode else "sync", P["id"]), resp=P.get("resp") or None)
            if asyncmode:
                hdr, rest = src.split("try {", 1)
                src = hdr + "(async () => { try {" + rest.rstrip() + " })();\n"
            add(src, None, "random %s program %d/script" % ("async" if asyncmode else "sync", P["id"]), resp=P.get("resp") or None)
    tres, traces, rejected, diffs = lifecheck.run_and_validate(exe, jobs, metas, "c14")
    c.add_tlc(tres)
    findings = vlib.load_known("C14")
    for t, (matched, total) in sorted(rejected.items()):
        tr = traces[t - 1]
        lives = [e["live"] for e in tr["ev"] if e.get("e") == "collect"]
        c.report({"kind": "heap-growth", "role": descr[t - 1].rsplit("/", 1)[-1], "body": descr[t - 1].split("/")[0], "what": descr[t - 1]},
                 {"body": descr[t - 1], "source": jobs[t - 1]["runs"][0]["source"], "live_after_each_run": lives},
                 "repeating [%s] %d times grows the heap: live objects after each run %s (%s)" % (descr[t - 1], K, lives, diffs.get(t)))
    log("%d repeated bodies x %d runs: %d constant, %d growing" % (len(jobs), K, len(jobs) - len(rejected), len(rejected)))
    ok = next((i for i in range(len(jobs)) if (i + 1) not in rejected), 0)
    c.sample({"body": descr[ok], "live_after_each_run": [e["live"] for e in traces[ok]["ev"] if e.get("e") == "collect"]})
    c.cov["traces_validated_against_impl"] = len(jobs) - len(rejected)
    c.cov["evaluations"] = len(jobs) * K
    c.cov["distinct_nontrivial"] = len(jobs)
    c.cov["rule"] = "each of %d self-contained bodies (nesting kinds x {complete, throw} x {script, module}, %d special bodies, the natives corpus, %d random sync and %d random async MiniJS programs) run %d times on one interpreter; live objects after collect() must be constant from the 2nd run on" % (len(jobs), len(EXTRA), n, n, K)
    c.assumptions += ["the first repetition may create lazily initialised built-ins; growth is judged from the second repetition on",
                      "script bodies are wrapped in a block so that repeating them is legal (no top-level redeclaration)"]
    c.finish()


def replay(path):
    d = json.load(open(path)); print(json.dumps(d, indent=1)[:4000]); return 0
