"""C20 — error reports point at the code that failed.
Scenarios: a call chain of function kinds {declaration, arrow, object method, class method, constructor, native callback,
nested function, getter, function of another module} of depth 1..12 with a fault planted at a generator-known position
{ReferenceError, TypeError on member of null, TypeError on calling a non-function}, printed under layout transformations
{plain, inserted comments/blank lines, tabs, CRLF, wide characters before the fault, reflowed braces}; plus syntax errors at a
known token.  ErrTrace.tla states what a correct report is (exactly the active calls, innermost first, right names, every
position inside the range of the expression that was executing, in the file it names) and TLC validates every recorded
report against the generator's plan in batch."""
import json, os, random, itertools, collections
import vlib, minijs as M, errgen as E
from vlib import log

LAYOUTS = ["plain", "comments", "tabs", "crlf", "wide", "reflow"]
N = "<null>"


def make_case(chain, fault, layout, rnd):
    files, plan = E.build(chain, fault, layout, rnd)
    clean = {}; pos = {}
    for p, t in files.items():
        c, ps = E.strip_markers(E.apply_layout(t, layout, rnd)); clean[p] = c; pos[p] = ps
    frames = []
    for f in plan:
        r = pos[f["file"]][f["marker"]]
        frames.append({"names": [n if n is not None else N for n in f["names"]], "file": f["file"], "via": f["via"],
                       "line": r["line"], "endline": r["endline"], "c0": r["cp0"], "c1": r["cp1"]})
    return clean, frames


def syntax_cases(rnd):
    """a token planted where it cannot be: the report must point at (or just after) it"""
    out = []
    base = ["let a = 1;", "function f(x: number) {", "  return x + 1;", "}", "const o = { k: [1, 2, 3] };", "f(a);"]
    for layout in LAYOUTS:
        for bad, pat in (("let y = (2 +;", ";"), ("const z = [1, 2,, };", "}"), ("if (a > ) { }", ")"), ("let let = 3;", "let = 3"), ("f(1 2);", "2"), ('const s = "abc;', '"abc;')):
            for at in (1, 4, 6):
                lines = list(base); lines.insert(at, bad.replace(pat, E.L + "1|" + pat + E.R, 1))
                if layout == "wide": lines[at] = '"é\U0001d4b3中"; ' + lines[at]
                text = E.apply_layout("\n".join(lines) + "\n", layout, rnd)
                c, ps = E.strip_markers(text)
                r = ps["1"]
                out.append(({"/p/main.ts": c}, {"file": "/p/main.ts", "line": r["line"], "endline": r["endline"], "c0": r["cp0"], "c1": r["cp1"] + 1}, layout, bad))
    return out


def main(tier):
    c = vlib.Check("C20")
    exe = vlib.build_harness()
    quick = tier == "quick"
    rnd = random.Random(c.seed)
    findings = vlib.load_known("C20")
    cases = []    # (files, frames, wantkind, descr, feat)
    kinds = E.KINDS
    chains = [list(x) for d in (1, 2) for x in itertools.product(kinds, repeat=d)]
    if not quick: chains += [list(x) for x in itertools.product(kinds, repeat=3)]
    for ch in chains:
        for fault in E.FAULTS:
            for layout in (LAYOUTS if len(ch) <= (2 if not quick else 1) else [rnd.choice(LAYOUTS)]):
                files, frames = make_case(ch, fault, layout, rnd)
                cases.append((files, frames, E.FAULTS[fault][1], "%s/%s/%s" % ("-".join(ch), fault, layout), {"chain": ch, "fault": fault, "layout": layout}))
    for _ in range(150 if quick else 3000):
        d = rnd.randint(3, 12); ch = [rnd.choice(kinds) for _ in range(d)]
        fault = rnd.choice(list(E.FAULTS)); layout = rnd.choice(LAYOUTS)
        files, frames = make_case(ch, fault, layout, rnd)
        cases.append((files, frames, E.FAULTS[fault][1], "%s/%s/%s" % ("-".join(ch), fault, layout), {"chain": ch, "fault": fault, "layout": layout}))
    jobs = [{"id": i, "files": cs[0], "main": "/p/main.ts"} for i, cs in enumerate(cases)]
    syn = syntax_cases(rnd)
    jobs += [{"id": len(cases) + i, "files": s[0], "main": "/p/main.ts"} for i, s in enumerate(syn)]
    got = M.run_jobs(exe, "errloc", jobs)
    os.makedirs(os.path.join(vlib.BUILD, "err"), exist_ok=True)
    tp = os.path.join(vlib.BUILD, "err", "cases.ndjson")
    with open(tp, "w") as f:
        for i, cs in enumerate(cases):
            g = got[i]
            frames = [{"fn": fr["fn"] if fr["fn"] is not None else N, "file": fr["file"] if fr["file"] is not None else N, "line": fr["line"], "col": fr["col"]} for fr in g.get("stack", [])]
            f.write(json.dumps({"mode": "runtime", "kind": g.get("kind", "?"), "wantkind": cs[2], "plan": cs[1], "got": frames}) + "\n")
        for i, s in enumerate(syn):
            g = got[len(cases) + i]; loc = g.get("location") or {"file": None, "line": 0, "column": 0}
            f.write(json.dumps({"mode": "syntax", "kind": g.get("kind", "?"), "loc": {"file": "/p/main.ts" if loc.get("file") in (None, "/p/main.ts") else loc["file"], "line": loc["line"], "col": loc["column"]},
                                "range": s[1]}) + "\n")
    tres = vlib.run_tlc("ErrTrace.tla", os.path.join(vlib.SPEC, "ErrTrace.cfg"), "errtrace", workers=1, timeout=1800, heap="6g",
                        java="-Xss1g -Dtlc2.tool.queue.IStateQueue=StateDeque", env={"TRACE": tp}, accept=(0, 10, 12, 13))
    c.add_tlc(tres)
    rejected = set(); diffs = collections.defaultdict(list)
    for l in tres.lines:
        if l.startswith('<<"REJECTED"'): rejected.add(int(l.replace(">>", "").split(",")[1]))
        if l.startswith('<<"DIFF"'):
            body = l[len('<<"DIFF", '):].rstrip(">")
            t, name = body.split(",", 1); diffs[int(t)].append(name.strip())
    if not rejected and not tres.ok: vlib.tool_error("ErrTrace validation failed to run:\n" + tres.tail())
    dist = collections.Counter()
    for t in sorted(rejected):
        i = t - 1
        if i < len(cases):
            files, frames, wantkind, descr, feat0 = cases[i]; g = got[i]
            unexplained = []
            for why in diffs.get(t, ["?"]):
                via = why.split(",")[-1].strip(' ">') if ("frame" in why) else ""
                feat = {"kind": "error-report", "why": why.split(",")[0].strip('< "'), "via": via, "layout": feat0["layout"], "fault": feat0["fault"], "chain_kinds": sorted(set(feat0["chain"]))}
                dist[(feat["why"], feat["via"], feat["layout"] if "position" in feat["why"] else "")] += 1
                hit = None
                for f in findings:
                    if vlib.key_matches(f["key"], feat): hit = f; break
                if hit: c.known_hit.setdefault(hit["id"], {"finding": hit, "count": 0})["count"] += 1
                else: unexplained.append((feat, why))
            for (feat, why) in unexplained[:1]:
                c.report(feat, {"files": files, "plan": frames, "reported": g}, "error report for [%s] rejected by ErrTrace.tla: %s; reported %s" % (descr, why, json.dumps(g.get("stack"))[:400]))
        else:
            s = syn[i - len(cases)]; g = got[i]
            feat = {"kind": "syntax-error-report", "layout": s[2], "why": diffs.get(t, ["?"])[0].strip('< ">')}
            dist[("syntax:" + feat["why"], s[3], s[2])] += 1
            hit = None
            for f in findings:
                if vlib.key_matches(f["key"], feat): hit = f; break
            if hit: c.known_hit.setdefault(hit["id"], {"finding": hit, "count": 0})["count"] += 1; continue
            c.report(feat, {"files": s[0], "range": s[1], "reported": g}, "syntax error report for `%s` (%s layout) rejected: %s; reported %s, planted token at %s" % (s[3], s[2], diffs.get(t), json.dumps(g.get("location")), json.dumps(s[1])))
    if os.environ.get("VERIF_DEBUG"):
        for k, v in dist.most_common(60): log("  rejected %4d  %s" % (v, k))
    log("%d runtime fault scenarios + %d syntax error scenarios: %d accepted, %d rejected" % (len(cases), len(syn), len(jobs) - len(rejected), len(rejected)))
    c.sample({"scenario": cases[40][3], "plan": cases[40][1], "reported": got[40].get("stack")})
    c.cov["traces_validated_against_impl"] = len(jobs) - len(rejected)
    c.cov["evaluations"] = len(jobs)
    c.cov["distinct_nontrivial"] = len(jobs)
    c.cov["rule"] = "all call chains of depth <= %d over 9 function kinds x 3 fault kinds x layouts, random chains of depth 3..12, %d syntax error scenarios; every report validated against the generator's plan by ErrTrace.tla" % (2 if quick else 3, len(syn))
    c.assumptions += ["columns are 1-based code points; a position is correct if it lies inside the source range of the expression that was executing in that frame",
                      "errors thrown by user code (`throw new Error`) carry no trace in this implementation and are outside the property's antecedent"]
    c.finish()


def replay(path):
    d = json.load(open(path)); print(json.dumps(d, indent=1)[:5000]); return 0
