"""C10 — meaning does not depend on size.
M : RegAlloc.tla transcribes the register allocator of src/compiler/builder.rs (alloc / free / reserve_range / save / restore,
    8-bit `next`, LIFO free list) at reduced width W=3 so that every threshold is crossed inside the bound; TLC checks
    NoClobber, FreeListBelowNext, FreeListDistinct, WindowInBounds, MaxUsedCovers over all call sequences.
R : size families with a closed-form expected result: for every n in the size grid each construct (array / object literal,
    argument and parameter lists, template literal, switch, statement / declaration / call-statement sequences, operator
    chains, nested calls, nested literals, long strings; alone and among live surrounding variables) must either evaluate to
    the closed form or be refused with an explicit error BEFORE running (prepare fails); never a wrong value, a clobbered
    variable, a crash, or an error after partial execution."""
import json, os, random
import vlib, minijs as M
from vlib import log

GRID_SMALL = [0, 1, 2, 3, 7, 8, 15, 16, 17, 31, 32, 33, 63, 64, 65, 100, 127, 128, 129, 200, 249, 250, 251, 252, 253, 254, 255, 256, 257, 258, 259, 260, 300, 400, 511, 512, 513, 600, 700]
GRID_BIG = [1000, 4095, 4096, 4097, 10000, 32767, 32768, 32769, 65533, 65534, 65535, 65536, 65537, 65538, 70000]

HDR = 'import { LOG, ERR } from "verif:host";\n'
LIVE = "let va = 11, vb = 22, vc = 33, vd = 44;\n"
LIVECHK = "LOG([va, vb, vc, vd]);\n"
LIVEEXP = "L|a[n:11;n:22;n:33;n:44]"


def fam_array(n):      return "const a = [%s];\nLOG([a.length, %s]);\n" % (", ".join(str(i) for i in range(n)), "a[a.length - 1]" if n else "-1"), ["L|a[n:%d;n:%d]" % (n, n - 1)]
def fam_array_expr(n): return "let k = 1;\nconst a = [%s];\nLOG([a.length, a.reduce((s, x) => s + x, 0)]);\n" % (", ".join("k + %d" % i for i in range(n))), ["L|a[n:%d;n:%d]" % (n, n + n * (n - 1) // 2)]
def fam_object(n):     return "const o = {%s};\nLOG([Object.keys(o).length, %s]);\n" % (", ".join("p%d: %d" % (i, i) for i in range(n)), "o.p%d" % (n - 1) if n else "-1"), ["L|a[n:%d;n:%d]" % (n, n - 1)]
def fam_args(n):       return "function f(...r) { return r.length * 1000 + (r.length ? r[r.length - 1] : 0); }\nLOG(f(%s));\n" % ", ".join(str(i % 7) for i in range(n)), ["L|n:%d" % (n * 1000 + ((n - 1) % 7 if n else 0))]
def fam_params(n):     return "function f(%s) { return %s; }\nLOG(f(%s));\n" % (", ".join("p%d" % i for i in range(n)), ("p0 + p%d" % (n - 1)) if n else "0", ", ".join(str(i) for i in range(n))), ["L|n:%d" % (n - 1 if n else 0)]
def fam_template(n):   return "const x = 2;\nconst s = `%s`;\nLOG(s.length);\n" % "".join("a${x}" for _ in range(n)), ["L|n:%d" % (2 * n)]
def fam_switch(n):     return "function f(v) { switch (v) { %s default: return -1; } }\nLOG([f(0), f(%d), f(%d)]);\n" % (" ".join("case %d: return %d;" % (i, i * 2) for i in range(n)), n - 1, n), ["L|a[n:%d;n:%d;n:-1]" % (0 if n else -1, (n - 1) * 2 if n else -1)]
def fam_stmts(n):      return "let x = 0;\n%sLOG(x);\n" % ("x = x + 1;\n" * n), ["L|n:%d" % n]
def fam_decls(n):      return "%sLOG(%s);\n" % ("".join("let d%d = %d;\n" % (i, i) for i in range(n)), ("d0 + d%d" % (n - 1)) if n else "0"), ["L|n:%d" % (n - 1 if n else 0)]
def fam_calls(n):      return "let c = 0;\nfunction g(a, b) { c = c + a + b; }\n%sLOG(c);\n" % ("g(1, 2);\n" * n), ["L|n:%d" % (3 * n)]
def fam_mcalls(n):     return "const o = { c: 0, g(a) { this.c += a; return this; } };\n%sLOG(o.c);\n" % ("o.g(2);\n" * n), ["L|n:%d" % (2 * n)]
def fam_chain(n):      return "let k = 1;\nLOG(0%s);\n" % (" + k" * n), ["L|n:%d" % n]
def fam_nested_call(n): return "function f(x) { return x + 1; }\nLOG(%s0%s);\n" % ("f(" * n, ")" * n), ["L|n:%d" % n]
def fam_nested_arr(n): return "let a = %s0%s;\nlet d = 0; while (Array.isArray(a)) { a = a[0]; d++; }\nLOG(d);\n" % ("[" * n, "]" * n), ["L|n:%d" % n]
def fam_string(n):     return "const s = \"%s\";\nLOG([s.length, s.charCodeAt(s.length - 1)]);\n" % ("ab" * (n // 2) + ("c" if n % 2 else "")), ["L|a[n:%d;%s]" % (n, "nan" if n == 0 else "n:%d" % (99 if n % 2 else 98))]
def fam_consts(n):     return "let t = 0;\n%sLOG(t);\n" % "".join("t += %d.5;\n" % (i + 1000) for i in range(n)), ["L|n:%s" % (("%d" % (n * 1000 + n * (n - 1) // 2 + n // 2)) if n % 2 == 0 else ("%s" % (n * 1000 + n * (n - 1) / 2 + n * 0.5)))]
def fam_methods_chain(n): return "const o = { v: 0, inc() { this.v++; return this; } };\nLOG(o%s.v);\n" % (".inc()" * n), ["L|n:%d" % n]
def fam_destructure(n): return "const [%s] = [%s];\nLOG(%s);\n" % (", ".join("e%d" % i for i in range(n)), ", ".join(str(i) for i in range(n)), ("e0 + e%d" % (n - 1)) if n else "0"), ["L|n:%d" % (n - 1 if n else 0)]
def fam_if_chain(n):   return "function f(v) { %s return -1; }\nLOG([f(%d), f(%d)]);\n" % (" ".join("if (v === %d) return %d; else" % (i, i + 5) for i in range(n)), n - 1, n), ["L|a[n:%d;n:-1]" % (n + 4 if n else -1)]

def fam_spread_call(n):     # n arguments arrive through a spread: parameters, defaults, rest and `new` see all of them
    vals = [i + 1 for i in range(n)]
    g = lambda i, d: vals[i] if i < n else d
    pick = g(0, -1) * 1000000 + g(1, -2) * 1000 + g(2, -3)
    ctor = g(0, -1) * 100000 + max(0, n - 1)
    meth = g(0, -1) + g(1, -2)
    return ("function pick(a = -1, b = -2, c = -3) { return a * 1000000 + b * 1000 + c; }\n"
            "class P { v: number; constructor(x = -1, ...r: number[]) { this.v = x * 100000 + r.length; } }\n"
            "const o = { m(x = -1, y = -2) { return x + y; } };\n"
            "const a: number[] = []; for (let i = 0; i < %d; i++) a.push(i + 1);\n"
            "LOG([pick(...a), new P(...a).v, o.m(...a), ((x = -1, y = -2) => x * 10 + y)(...a), Math.max(0, ...a)]);\n" % n), ["L|a[n:%d;n:%d;n:%d;n:%d;n:%d]" % (pick, ctor, meth, g(0, -1) * 10 + g(1, -2), n)]
def fam_array_spread(n):    # a run of n plain elements next to spread elements
    els = ", ".join("k + %d" % i for i in range(n))
    lits = ", ".join(str(i) for i in range(n))
    sep = ", " if n else ""
    s = n * (n - 1) // 2
    return ("let k = 0; const head = [7, 8], tail = [9];\n"
            "const a = [...head%s%s]; const b = [%s%s...tail]; const c = [...head, %s%s...tail]; const d = [%s%s...head];\n"
            "const sum = (x: number[]) => x.reduce((t, v) => t + v, 0);\n"
            "LOG([a.length, sum(a), b.length, sum(b), c.length, sum(c), d.length, sum(d)]);\n" % (sep, els, els, sep, els, sep, lits, sep),
            ["L|a[n:%d;n:%d;n:%d;n:%d;n:%d;n:%d;n:%d;n:%d]" % (n + 2, s + 15, n + 1, s + 9, n + 3, s + 24, n + 2, s + 15)])
def fam_enum(n):
    if n == 0: return "enum E { Z }\nLOG([E.Z, E[0]]);\n", ["L|a[n:0;s:90]"]
    last = "M%d" % (n - 1)
    return "enum E { %s }\nLOG([E.%s, E[%d], E.M0, Object.keys(E).length]);\n" % (", ".join("M%d" % i for i in range(n)), last, n - 1), ["L|a[n:%d;s:%s;n:0;n:%d]" % (n - 1, ",".join(str(ord(ch)) for ch in last), 2 * n)]
def fam_enum_from(n):       # the counter continues from an explicit start: values cross 127 / 255 / 32767 early
    if n == 0: return "LOG(0);\n", ["L|n:0"]
    return "enum E { M0 = 120%s }\nenum F { N0 = 32760%s }\nLOG([E.M%d, E[%d], F.N%d, F[%d]]);\n" % ("".join(", M%d" % i for i in range(1, n)), "".join(", N%d" % i for i in range(1, n)), n - 1, 120 + n - 1, n - 1, 32760 + n - 1), \
        ["L|a[n:%d;s:%s;n:%d;s:%s]" % (120 + n - 1, ",".join(str(ord(ch)) for ch in "M%d" % (n - 1)), 32760 + n - 1, ",".join(str(ord(ch)) for ch in "N%d" % (n - 1)))]
def fam_int_literals(n):    # integer literals around every encoding boundary keep their value in every position
    vals = [v + d for v in (0, 127, 128, 255, 256, 32767, 32768, 65535, 65536, 2 ** 31 - 1) for d in (-1, 0, 1)][:max(1, n)]
    return "const a = [%s];\nlet t = 0;\n%sLOG([a.reduce((s, x) => s + x, 0), t]);\n" % (", ".join(str(v) for v in vals), "".join("t = t + %d - %d;\n" % (v, v - 1) for v in vals)), ["L|a[n:%d;n:%d]" % (sum(vals), len(vals))]


REG_FAMILIES = {"array": fam_array, "array_expr": fam_array_expr, "object": fam_object, "args": fam_args, "params": fam_params, "template": fam_template, "switch": fam_switch,
                "nested_call": fam_nested_call, "nested_array": fam_nested_arr, "destructure": fam_destructure, "chain": fam_chain, "methods_chain": fam_methods_chain,
                "enum": fam_enum, "enum_from": fam_enum_from, "int_literals": fam_int_literals, "spread_call": fam_spread_call, "array_spread": fam_array_spread}
SEQ_FAMILIES = {"stmts": fam_stmts, "decls": fam_decls, "calls": fam_calls, "mcalls": fam_mcalls, "string": fam_string, "consts": fam_consts, "if_chain": fam_if_chain}


def main(tier):
    c = vlib.Check("C10")
    exe = vlib.build_harness()
    quick = tier == "quick"
    findings = vlib.load_known("C10")
    # ---- M: the allocator as an abstract data type, exhaustively at reduced width
    cfg = vlib.write_cfg("RegAlloc.cfg", "SPECIFICATION Spec\nCONSTANTS W = 3\n MaxOps = %d\nINVARIANT FreeListBelowNext\nINVARIANT FreeListDistinct\nINVARIANT NoClobber\nINVARIANT WindowInBounds\nINVARIANT MaxUsedCovers\nCHECK_DEADLOCK FALSE\n" % (8 if quick else 10))
    res = vlib.run_tlc("RegAlloc.tla", cfg, "regalloc", workers=10, timeout=3000, heap="8g")
    c.add_tlc(res)
    for inv in res.violated():
        c.report({"kind": "spec-invariant", "invariant": inv}, {"tlc_tail": res.tail()}, "RegAlloc.tla (transcription of the register allocator) violates " + inv)
    if not res.ok and not res.violated(): vlib.tool_error("RegAlloc model checking failed:\n" + res.tail())
    log("RegAlloc.tla W=3: %d distinct states, invariants hold" % res.distinct)
    # ---- R: size families
    jobs = []; meta = []
    def add(fam, n, live, f):
        body, exp = f(n)
        src = HDR + (LIVE if live else "") + body + (LIVECHK if live else "")
        jobs.append({"id": len(jobs), "source": src, "resp": [], "mode": "immediate", "path": "/p/main.ts", "max_steps": 3000000})
        meta.append((fam, n, live, exp + ([LIVEEXP] if live else [])))
    for fam, f in REG_FAMILIES.items():
        grid = GRID_SMALL + ([1000, 4096, 10000] if not quick and fam in ("array", "object", "args", "template", "switch", "spread_call", "array_spread") else [])
        if fam == "spread_call": grid = grid + [1000, 1024, 1025, 65536, 65537]     # argument counts are data here, not registers
        if fam in ("nested_call", "nested_array"): grid = [g for g in grid if g <= 300]
        for n in grid:
            add(fam, n, False, f)
            if n % 3 == 0 or 250 <= n <= 260: add(fam, n, True, f)
    for fam, f in SEQ_FAMILIES.items():
        grid = GRID_SMALL + ([1000, 4096] if quick else GRID_BIG)
        if quick and fam == "consts": grid = grid + [65535, 65536, 65537]      # the 16-bit constant index is crossed in the quick tier too
        if fam == "if_chain": grid = [g for g in grid if g <= 2000]
        for n in grid:
            add(fam, n, n % 2 == 0, f)
    got = M.run_jobs(exe, "prog", jobs, timeout=3000)
    ok = 0; refused = 0
    import collections
    dist = collections.Counter()
    for j, (fam, n, live, exp) in zip(jobs, meta):
        r = got[j["id"]]
        ev = [e for e in r.get("ev", []) if e.startswith(("L|", "E|", "X|"))]
        if ev == exp: ok += 1; continue
        # refused before running: prepare failed, nothing was logged, the error names a limit
        clean_refusal = r.get("status") == "ERROR" and r.get("steps", 0) <= 1 and not [e for e in ev if e.startswith("L|")]
        if clean_refusal:
            refused += 1
            feat = {"kind": "size", "family": fam, "outcome": "refused", "n_class": "<=255" if n <= 255 else "<=65535" if n <= 65535 else ">65535"}
        else:
            feat = {"kind": "size", "family": fam, "outcome": "wrong-or-crash", "status": r.get("status", "?").split()[0]}
        dist[(fam, feat["outcome"], r.get("status", "?")[:12], (r.get("err") or "")[:50])] += 1
        if feat["outcome"] == "refused" and fam in REG_FAMILIES and n >= 100:   # a single construct this big may be refused (8-bit register file)
            # an explicit limit error before running is what the property allows for a construct too big for the 8-bit register file
            continue
        hit = None
        for f in findings:
            if vlib.key_matches(f["key"], feat): hit = f; break
        if hit: c.known_hit.setdefault(hit["id"], {"finding": hit, "count": 0})["count"] += 1; continue
        k = M.first_diff(exp, ev)
        c.report(feat, {"family": fam, "n": n, "live_vars": live, "expected": exp, "got": ev, "status": r.get("status"), "err": r.get("err"), "source_head": j["source"][:300]},
                 "size family %s, n=%d%s: expected %s, got %s (status %s, %s)" % (fam, n, " among live variables" if live else "", exp[k:k + 1], [e[:80] for e in ev[k:k + 1]], r.get("status"), (r.get("err") or "")[:120]))
    if os.environ.get("VERIF_DEBUG"):
        for k_, v in dist.most_common(50): log("  %4d %s" % (v, k_))
    log("%d size scenarios: %d evaluate to the closed form, %d refused before running" % (len(jobs), ok, refused))
    c.sample({"family": meta[10][0], "n": meta[10][1], "expected": meta[10][3]})
    c.cov["traces_validated_against_impl"] = ok
    c.cov["evaluations"] = len(jobs)
    c.cov["distinct_nontrivial"] = len(jobs)
    c.cov["rule"] = "%d register-bound families x size grid %s..., %d sequence families x grid up to %d; expected value is a closed form of n; alone and among four live variables" % (len(REG_FAMILIES), GRID_SMALL[:8], len(SEQ_FAMILIES), (GRID_SMALL + ([1000, 4096] if quick else GRID_BIG))[-1])
    c.assumptions += ["the real allocator call sequences are not traced (hook H5 of the design was not built): the binding is the closed-form replay plus the reduced-width model of the allocator",
                      "a construct that needs more than the 8-bit register file may be refused, but only before running and with an error"]
    c.finish()


def replay(path):
    d = json.load(open(path)); print(json.dumps(d, indent=1)[:3000]); return 0
