"""C16 — data crosses the JSON boundary without loss or corruption.
JsonMap.tla defines what a document becomes (ToJs) and what a value graph serialises to (Ser) over opaque atoms and
checks its round-trip theorems with TLC; its two builders enumerate EVERY document (token builder) and EVERY value
graph (heap of containers with sharing and cycles) within the bounds and print them with the expectation.  The
harness instantiates the atoms (seeded pools: every escape class, astral characters, index-like and prototype-named
keys, integers to 2^53 and beyond, -0, subnormals, arbitrary doubles), prints each document with an independent
printer (all escape / number / whitespace forms) and drives the real interpreter through every path:
  host -> script   api::create_from_json          (DOC())        h.dump h.walk h.probe
  script -> host   tsrun::js_value_to_json        (OUT())        h.back p.back g.back, and the exported value
  text -> script   JSON.parse                                     p.dump p.walk p.probe
  script -> text   JSON.stringify, with indent                    h.str h.ind p.str p.ind p.twice g.str g.ind
Text produced by the implementation is read back by an independent conforming parser (Python json, extensions off).
Besides the enumerated inputs: number texts that need correct rounding, every Unicode scalar value (in chunks, as
values and as keys), random trees of depth <= 6, deep and wide extremes."""
import json, math, os, random, sys, time
import vlib, minijs as M, jsongen as J
from vlib import log

DOC_TAGS = ["h.dump", "h.walk", "h.probe", "h.back", "h.str", "h.ind", "p.dump", "p.walk", "p.probe", "p.back", "p.str", "p.ind", "p.twice"]
GRAPH_TAGS = ["g.str", "g.ind", "g.back"]
INDENTS = [2, 1, 4, 3, "\t", 10, " ", " \n", 0, 15]      # ECMAScript inserts a string gap verbatim: only white space keeps the text JSON


def cfg(mode, leaves, jsleaves, keys, maxtok=0, depth=3, kids=3, nc=1, ent=0, invs=()):
    S = lambda xs: "{" + ", ".join('"%s"' % x for x in xs) + "}"
    return ("SPECIFICATION Spec\nCONSTANTS\n Mode = \"%s\"\n DocLeaves = %s\n JsLeaves = %s\n Keys = %s\n MaxTok = %d\n MaxDepth = %d\n MaxKids = %d\n NC = %d\n MaxEntries = %d\n Emitting = TRUE\n"
            "INVARIANTS %s Emit\nCHECK_DEADLOCK FALSE\n") % (mode, S(leaves), S(jsleaves), S(keys), maxtok, depth, kids, nc, ent, " ".join(invs))


# ------------------------------------------------------------------ comparison
def diff_doc(e, g, path="$"):
    """first difference between two documents -> (path, cause) or None"""
    if e[0] != g[0]: return (path, "kind %s became %s" % (e[0], g[0]))
    if e[0] in ("bool", "str") and e[1] != g[1]: return (path, "%s changed" % ("string" if e[0] == "str" else "boolean"))
    if e[0] == "num" and e[1] != g[1]: return (path, "number changed")
    if e[0] == "arr":
        if len(e[1]) != len(g[1]): return (path, "array length changed")
        for i, (x, y) in enumerate(zip(e[1], g[1])):
            d = diff_doc(x, y, "%s[%d]" % (path, i))
            if d: return d
    if e[0] == "obj":
        de = dict(e[1]); dg = dict(g[1])
        for k in de:
            if k not in dg: return (path, "key lost: %s" % key_class(k))
        for k in dg:
            if k not in de: return (path, "key appeared: %s" % key_class(k))
        for k in de:
            d = diff_doc(de[k], dg[k], path + "." + k[:12])
            if d: return d
    return None


def key_class(k):
    if k == "__proto__": return "__proto__"
    if J.is_index(k): return "array-index key"
    return "other key"


def dump_to_doc(d):
    """host-side dump -> concrete value (for diffing)"""
    t = d.get("t")
    if t == "null": return ("null",)
    if t == "bool": return ("bool", d["b"])
    if t == "num":
        import struct
        return ("numbits", d["bits"])
    if t == "str": return ("str", d["s"])
    if t == "arr": return ("arr", [dump_to_doc(x) for x in d["xs"]])
    if t == "obj": return ("obj", [(k, dump_to_doc(v)) for k, v in zip(d["ks"], d["vs"])])
    return (t,)


def unwalk(g):
    """the value the script-level walker R() rebuilt (["a", ..] / ["o", k, v, ..]) -> document"""
    if g[0] != "arr": return g
    xs = g[1]
    if not xs or xs[0][0] != "str": raise ValueError("no tag")
    if xs[0][1] == "a": return ("arr", [unwalk(x) for x in xs[1:]])
    if xs[0][1] == "o":
        if len(xs) % 2 != 1 or any(xs[i][0] != "str" for i in range(1, len(xs), 2)): raise ValueError("bad pairs")
        return ("obj", [(xs[i][1], unwalk(xs[i + 1])) for i in range(1, len(xs), 2)])
    raise ValueError("bad tag")


def bitsdoc(v):
    if v[0] == "num": return ("numbits", J.bits(v[1]))
    if v[0] == "arr": return ("arr", [bitsdoc(x) for x in v[1]])
    if v[0] == "obj": return ("obj", [(k, bitsdoc(x)) for k, x in v[1]])
    return v


def diff_bits(e, g, path="$"):
    if e[0] != g[0]: return (path, "kind %s became %s" % (e[0], g[0]))
    if e[0] == "numbits" and e[1] != g[1]:
        import struct
        x = struct.unpack("<d", bytes.fromhex(e[1])[::-1])[0]; y = struct.unpack("<d", bytes.fromhex(g[1])[::-1])[0]
        if x == 0 and y == 0: return (path, "sign of zero lost")
        return (path, "number changed (%r -> %r)" % (x, y) if False else "number changed")
    if e[0] in ("bool", "str") and e[1] != g[1]: return (path, "string changed" if e[0] == "str" else "boolean changed")
    if e[0] == "arr":
        if len(e[1]) != len(g[1]): return (path, "array length changed")
        for i, (x, y) in enumerate(zip(e[1], g[1])):
            d = diff_bits(x, y, "%s[%d]" % (path, i))
            if d: return d
    if e[0] == "obj":
        de = dict(e[1]); dg = dict(g[1])
        for k in de:
            if k not in dg: return (path, "key lost: %s" % key_class(k))
        for k in dg:
            if k not in de: return (path, "key appeared: %s" % key_class(k))
        for k in de:
            d = diff_bits(de[k], dg[k], path + "." + k[:12])
            if d: return d
    return None


class Verdicts:
    def __init__(self, c):
        self.c = c; self.ok = 0; self.bad = 0; self.jobs = 0; self.order_diffs = 0
        self.by_tag = {}; self.causes = {}

    def fail(self, job, tag, cause, detail):
        self.bad += 1
        self.causes[(tag.split(".")[-1] if tag[0] in "hpg" and "." in tag else tag, cause, job["family"])] = self.causes.get((tag.split(".")[-1] if tag[0] in "hpg" and "." in tag else tag, cause, job["family"]), 0) + 1
        self.c.report({"kind": "json", "path": tag, "cause": cause, "family": job["family"]},
                      {"family": job["family"], "tag": tag, "cause": cause, "detail": detail, "text": job.get("text"), "doc": job.get("doc"), "source": job["source"]},
                      "%s: %s — %s (%s)\n  text: %s" % (tag, cause, detail[:300], job["family"], (job.get("text") or "")[:300].replace("\n", "\\n")))

    def passed(self, tag):
        self.ok += 1; self.by_tag[tag] = self.by_tag.get(tag, 0) + 1


def judge_doc(V, job, res):
    """job: family, source, exp_h (value or None), exp_p (value), tags"""
    V.jobs += 1
    recs = {}
    for tag, kind, payload in res.get("rec", []):
        recs.setdefault(tag, (kind, payload))
    if res.get("status") != "COMPLETE":
        V.fail(job, "run", "run did not complete: %s" % str(res.get("status"))[:40], str(res.get("status"))); return
    for tag in job["tags"]:
        side = tag[0]
        exp = job["exp_h"] if side == "h" else job["exp_p"]
        if exp is None: continue
        what = tag.split(".")[1]
        if tag + ".err" in recs:
            V.fail(job, tag, "refused: %s" % recs[tag + ".err"][1], "the operation threw"); continue
        if tag not in recs:
            V.fail(job, tag, "no result recorded", ""); continue
        kind, payload = recs[tag]
        if what in ("dump", "walk"):
            if kind != "dump": V.fail(job, tag, "unexpected record", kind); continue
            g = dump_to_doc(payload)
            if what == "walk":
                try: g = unwalk(g)
                except ValueError as ex2: V.fail(job, tag, "script-level walk is malformed", str(ex2)); continue
            d = diff_bits(bitsdoc(exp), g)
            if d: V.fail(job, tag, d[1], "at %s" % d[0]); continue
            if what == "dump" and payload.get("t") == "obj" and payload["ks"] != [k for k, _ in exp[1]]: V.order_diffs += 1
        elif what == "probe":
            if kind != "text" or payload != "": V.fail(job, tag, "script-level lookup inconsistent", str(payload)[:200]); continue
        else:
            if kind == "err": V.fail(job, tag, "refused: %s" % payload, "js_value_to_json returned an error"); continue
            if kind not in ("text", "json"): V.fail(job, tag, "result is not a string", json.dumps(payload)[:100]); continue
            try:
                g = J.parse_strict(payload)
            except J.Bad as ex:
                V.fail(job, tag, "output is not well-formed JSON", "%s: %s" % (ex, payload[:200])); continue
            d = diff_doc(J.ser(exp), g)
            if d: V.fail(job, tag, d[1], "at %s; output %s" % (d[0], payload[:200])); continue
        V.passed(tag)
    # exported value
    if job["exp_p"] is not None and "exported" in job["tags_extra"]:
        ex = res.get("exported", ["none"])
        if ex[0] != "json": V.fail(job, "exported", "refused: %s" % ex[-1], str(ex))
        else:
            try:
                d = diff_doc(J.ser(job["exp_p"]), J.parse_strict(ex[1]))
                if d: V.fail(job, "exported", d[1], "at %s" % d[0])
                else: V.passed("exported")
            except J.Bad as e2:
                V.fail(job, "exported", "output is not well-formed JSON", str(e2))


def judge_graph(V, job, res):
    V.jobs += 1
    recs = {}
    for tag, kind, payload in res.get("rec", []):
        recs.setdefault(tag, (kind, payload))
    if res.get("status") != "COMPLETE":
        V.fail(job, "run", "run did not complete: %s" % str(res.get("status"))[:40], str(res.get("status"))); return
    exp = job["exp"]          # concrete document, or "cycle"
    outs = [(t, recs.get(t), recs.get(t + ".err")) for t in GRAPH_TAGS]
    ex = res.get("exported", ["none"])
    outs.append(("exported", ("json", ex[1]) if ex[0] == "json" else None, ("text", ex[1]) if ex[0] == "err" else None))
    for tag, r, err in outs:
        if exp == "cycle":
            if err is not None and "TypeError" in str(err[1]): V.passed(tag); continue
            if r is not None and r[0] == "err" and "TypeError" in str(r[1]): V.passed(tag); continue
            V.fail(job, tag, "cyclic value not refused with a TypeError", "got %s / %s" % (r, err)); continue
        if err is not None: V.fail(job, tag, "refused: %s" % err[1], "acyclic value"); continue
        if r is None: V.fail(job, tag, "no result recorded", ""); continue
        if r[0] == "err": V.fail(job, tag, "refused: %s" % r[1], "acyclic value"); continue
        if r[0] not in ("text", "json"): V.fail(job, tag, "result is not a string", json.dumps(r[1])[:100]); continue
        try:
            g = J.parse_strict(r[1])
        except J.Bad as e2:
            V.fail(job, tag, "output is not well-formed JSON", "%s: %s" % (e2, r[1][:200])); continue
        d = diff_doc(exp, g)
        if d: V.fail(job, tag, d[1] + graph_hint(job), "at %s; output %s" % (d[0], r[1][:200])); continue
        V.passed(tag)


def judge_leaf(V, job, res):
    V.jobs += 1
    recs = {t: (k, p) for t, k, p in res.get("rec", [])}
    v = job["leaf"]; s = J.ser(v)
    for tag, exp in (("t.str", s), ("t.ind", s), ("t.arr", ("arr", [s or ("null",)])), ("t.obj", ("obj", [("k", s)] if s is not None else []))):
        r = recs.get(tag)
        if tag + ".err" in recs or r is None: V.fail(job, tag, "refused or no result", str(recs.get(tag + ".err"))); continue
        if exp is None:
            if r[0] == "nontext" and r[1].get("t") == "undef": V.passed(tag)
            else: V.fail(job, tag, "a value without JSON representation did not yield undefined", json.dumps(r)[:100])
            continue
        if r[0] != "text": V.fail(job, tag, "result is not a string", json.dumps(r)[:100]); continue
        try:
            d = diff_doc(exp, J.parse_strict(r[1]))
        except J.Bad as e2:
            V.fail(job, tag, "output is not well-formed JSON", "%s: %s" % (e2, r[1][:100])); continue
        if d: V.fail(job, tag, d[1], "output %s" % r[1][:100])
        else: V.passed(tag)


def graph_hint(job):
    return ""


# ------------------------------------------------------------------ inputs
def tlc_inputs(name, text, timeout=1500):
    p = vlib.write_cfg(name + ".cfg", text)
    res = vlib.run_tlc("JsonMap.tla", p, name, workers=8, timeout=timeout, heap="6g")
    if res.violated():
        vlib.tool_error("JsonMap.tla violates its own theorem %s: the specification needs repair\n%s" % (res.violated(), res.tail()))
    return res, res.prints("J")


def doc_job(jid, family, v_text, v_host, rnd, indent, tags=None, style="mixed", extra=("exported",)):
    text = J.print_doc(v_text, rnd, style) if v_text is not None else None
    exp_p = J.norm(J.unraw(v_text)) if v_text is not None else None
    exp_h = J.norm(v_host) if v_host is not None else None
    use = [t for t in (tags or DOC_TAGS) if (t[0] == "h" and exp_h is not None) or (t[0] == "p" and exp_p is not None)]
    return {"id": jid, "family": family, "source": J.doc_program(indent), "text": text, "doc": J.enc_doc(v_host) if v_host is not None else None,
            "exp_p": exp_p, "exp_h": exp_h, "tags": use, "tags_extra": extra if exp_p is not None else ()}


def random_tree(rnd, depth, atoms):
    r = rnd.random()
    if depth == 0 or r < 0.3:
        k = rnd.random()
        if k < 0.15: return ("null",)
        if k < 0.3: return ("bool", rnd.random() < 0.5)
        if k < 0.65: return ("num", rnd.choice(list(atoms.n.values()) + [float(rnd.randint(-1000, 1000)), J.rand_double(rnd), rnd.choice(J.NUM_POOL)]))
        return ("str", rnd.choice(list(atoms.s.values()) + [J.rand_string(rnd), rnd.choice(J.STR_POOL)]))
    n = rnd.randint(0, 4)
    if r < 0.65: return ("arr", [random_tree(rnd, depth - 1, atoms) for _ in range(n)])
    ks = []
    for _ in range(n):
        ks.append(rnd.choice(list(atoms.k.values()) + ["a", "b", "0", "1", "2", "10", "01", "", "length", J.rand_string(rnd, 2), rnd.choice(J.KEY_POOL)]))
    return ("obj", [(k, random_tree(rnd, depth - 1, atoms)) for k in ks])


def main(tier):
    c = vlib.Check("C16")
    import glob
    for f in glob.glob(os.path.join(vlib.REPLAY, "C16-*.json")): os.remove(f)
    exe = vlib.build_harness()
    quick = tier == "quick"
    rnd = random.Random(c.seed * 7919 + 16)
    V = Verdicts(c)
    jobs = []; judge = {}
    only = os.environ.get("C16_FAMILY")
    def add(job, how):
        if only and only not in job["family"]: return
        job["id"] = len(jobs); jobs.append(job); judge[job["id"]] = how
    # ---- (1) every document of the token builder
    # (thorough bounds are sized so that TLC's output stays below a few 10^5 documents: the first thorough configuration - 7 leaves, 10 keys,
    # 5 tokens, 4 children - printed tens of millions of documents and the check spent an hour and 9 GB reading them)
    leaves = ["null", "true", "n1", "s1"] if quick else ["null", "true", "false", "n1", "s1", "s2"]
    keys = ["a", "0", "1", "01", "__proto__", "k1"] if quick else ["a", "0", "1", "10", "01", "__proto__", "length", "k1"]
    t0 = time.time()
    res, docs = tlc_inputs("jsonmap_doc", cfg("doc", leaves, [], keys, maxtok=4, depth=3, kids=3 if quick else 4, invs=("RoundTrip", "Idempotent")), timeout=3000)
    c.add_tlc(res)
    log("JsonMap.tla document builder: %d documents, theorems RoundTrip/Idempotent hold (%d states, %.0fs)" % (len(docs), res.distinct, time.time() - t0))
    step = 1
    cap = 30000 if quick else 400000
    if len(docs) > cap: step = len(docs) // cap + 1
    ndocs = 0
    for i, d in enumerate(docs):
        if i % step: continue
        a = J.Atoms(rnd, i)
        v = a.tree(d["doc"])
        # cross-check: the concrete normal form is the spec's ToJs instantiated
        if J.exp_dump(J.norm(v)) != J.exp_dump(a.tree(d["js"])):
            vlib.tool_error("concrete normal form disagrees with JsonMap.tla's ToJs on %s" % json.dumps(d["doc"])[:300])
        has_dup = any(True for _ in dups(v))
        add(doc_job(0, "enumerated document", v, None if has_dup else v, rnd, INDENTS[i % len(INDENTS)]), "doc"); ndocs += 1
    # ---- (2) every value graph of the heap builder
    jl = ["null", "n1", "s1", "undef", "fun", "nan", "nzero"] if quick else ["null", "true", "n1", "s1", "undef", "fun", "sym", "nan", "inf", "ninf", "nzero"]
    gk = ["a", "0", "k1"] if quick else ["a", "0", "1", "01", "k1"]
    t0 = time.time()
    res, graphs = tlc_inputs("jsonmap_graph", cfg("graph", [], jl, gk, nc=2 if quick else 3, ent=3, invs=("CycleIffRefused", "PruneStable")), timeout=6000)
    c.add_tlc(res)
    ncyc = sum(1 for g in graphs if g["out"]["a"] == "cycle-error")
    log("JsonMap.tla heap builder: %d value graphs (%d cyclic), theorems CycleIffRefused/PruneStable hold (%d states, %.0fs)" % (len(graphs), ncyc, res.distinct, time.time() - t0))
    cap = 25000 if quick else 400000
    step = len(graphs) // cap + 1
    ngraphs = 0
    for i, g in enumerate(graphs):
        if i % step: continue
        a = J.Atoms(rnd, i)
        exp = "cycle" if g["out"]["a"] == "cycle-error" else a.tree(g["out"])
        add({"family": "enumerated value graph", "source": J.graph_program(g["heap"], a, INDENTS[i % len(INDENTS)]), "text": None, "doc": None, "exp": exp, "heap": g["heap"]}, "graph"); ngraphs += 1
    # ---- (3) number texts, string sweep, random trees, extremes
    for t in J.NUM_TEXT_POOL:
        add(doc_job(0, "number text", ("arr", [("rawnum", t)]), None, rnd, 2, style="plain"), "doc")
        add(doc_job(0, "number text", ("obj", [("v", ("rawnum", t))]), None, rnd, 2, style="plain"), "doc")
    for x in J.NUM_POOL + [J.rand_double(rnd) for _ in range(300 if quick else 20000)] + [float(rnd.randint(-2 ** 53, 2 ** 53)) for _ in range(100 if quick else 5000)]:
        add(doc_job(0, "number value", ("arr", [("num", x)]), ("arr", [("num", x)]), rnd, 2, tags=["h.dump", "h.back", "h.str", "p.dump", "p.str", "p.back"]), "doc")
    CH = 2048
    cps = [cp for cp in range(0, 0x110000) if not 0xd800 <= cp <= 0xdfff]
    chunks = [cps[i:i + CH] for i in range(0, len(cps), CH)]
    if quick: chunks = chunks[:40] + chunks[40::8]
    for ci, ch in enumerate(chunks):
        s = "".join(chr(cp) for cp in ch)
        style = ["raw", "hex", "HEX", "short", "mixed"][ci % 5]
        add(doc_job(0, "unicode sweep (value)", ("arr", [("str", s)]), ("arr", [("str", s)]), rnd, 2, tags=["h.dump", "h.back", "h.str", "p.dump", "p.str", "p.back", "p.twice"], style=style), "doc")
        ks = "".join(chr(cp) for cp in ch[::37])
        add(doc_job(0, "unicode sweep (key)", ("obj", [(ks, ("num", 1.0)), (ks[::-1] + "x", ("str", ks))]), ("obj", [(ks, ("num", 1.0))]), rnd, 2, tags=["h.dump", "h.back", "h.str", "p.dump", "p.str", "p.back", "p.walk"], style=style), "doc")
    for i in range(1500 if quick else 60000):
        a = J.Atoms(rnd, i)
        v = random_tree(rnd, rnd.randint(1, 6), a)
        has_dup = any(True for _ in dups(v))
        add(doc_job(0, "random tree", v, None if has_dup else v, rnd, INDENTS[i % len(INDENTS)]), "doc")
    deep = ("num", 1.0)
    for _ in range(48): deep = ("arr", [deep]) if _ % 2 else ("obj", [("d", deep)])
    wide_a = ("arr", [("num", float(i)) for i in range(5000)])
    wide_o = ("obj", [("k%d" % i, ("str", str(i))) for i in range(400)])
    idx_o = ("obj", [(str(i), ("num", float(i))) for i in (5, 3, 10, 0, 4294967294, 4294967295, 2)])
    for nm, v in (("deep", deep), ("wide array", wide_a), ("wide object", wide_o), ("index keys", idx_o)):
        add(doc_job(0, "extreme: " + nm, v, v, rnd, 2, style="plain"), "doc")
    # ---- (4) top-level leaves: a value without a JSON representation yields undefined, not text
    for leaf in ("undef", "fun", "sym", "nan", "inf", "ninf", "nzero", "null", "true", "n1", "s1"):
        a = J.Atoms(rnd, len(jobs))
        v = a.leaf(leaf)
        src = J.PRELUDE + 'const x: any = %s;\nT("t.str", () => { TXT("t.str", JSON.stringify(x)); });\nT("t.ind", () => { TXT("t.ind", JSON.stringify(x, null, 2)); });\nT("t.arr", () => { TXT("t.arr", JSON.stringify([x])); });\nT("t.obj", () => { TXT("t.obj", JSON.stringify({ k: x })); });\n' % J.js_leaf(v)
        add({"family": "top-level leaf", "source": src, "text": None, "doc": None, "leaf": v}, "leaf")
    # ---- run
    t0 = time.time()
    wire = [{"id": j["id"], "source": j["source"], "doc": j.get("doc"), "text": j.get("text") or ""} for j in jobs]
    got = M.run_jobs(exe, "jsonmap", wire, timeout=3000)
    log("%d programs run on the implementation (%.0fs)" % (len(jobs), time.time() - t0))
    for j in jobs:
        r = got.get(j["id"], {"status": "MISSING", "rec": []})
        {"doc": judge_doc, "graph": judge_graph, "leaf": judge_leaf}[judge[j["id"]]](V, j, r)
    log("path checks: %d agree, %d differ; per path %s; key order differs from ECMAScript order in %d dumps (not part of the property)" % (V.ok, V.bad, dict(sorted(V.by_tag.items())), V.order_diffs))
    if os.environ.get("VERIF_DEBUG"):
        for k, n in sorted(V.causes.items(), key=lambda kv: -kv[1])[:60]: log("   cause %6d  %s" % (n, k))
    c.sample({"document_text": jobs[min(5, len(jobs) - 1)].get("text"), "paths": DOC_TAGS + GRAPH_TAGS + ["exported"]})
    c.cov["traces_validated_against_impl"] = V.ok
    c.cov["evaluations"] = len(jobs)
    c.cov["distinct_nontrivial"] = ndocs + ngraphs
    c.cov["enumerated_documents"] = ndocs; c.cov["enumerated_value_graphs"] = ngraphs; c.cov["cyclic_graphs"] = ncyc
    c.cov["unicode_chunks"] = len(chunks); c.cov["per_path_agreements"] = dict(V.by_tag)
    c.cov["key_order_differs"] = V.order_diffs
    c.cov["rule"] = ("exhaustive: every document of <= %d tokens (leaves %s, keys %s) and every value graph of the heap builder (NC=%d, <= %d entries, leaves %s); "
                     "sampled: number texts, seeded doubles and integers, every Unicode scalar value in chunks of %d as values and keys, random trees of depth <= 6, deep/wide extremes"
                     % (4, leaves, keys, 2 if quick else 3, 3, jl, CH))
    c.assumptions += ["strings and numbers are opaque atoms in JsonMap.tla: TLC decides structure, omission, key canonicalisation and cycles; character- and digit-level fidelity is checked by the harness against an independent conforming parser (Python json with its extensions disabled), not by TLC",
                      "object key ORDER is not judged (the property speaks of nesting and array order); order differences are counted in the evidence",
                      "lone surrogates are outside the property (Unicode scalar values) and cannot be represented by the implementation's UTF-8 strings"]
    c.finish()


def dups(v):
    if v[0] == "arr":
        for x in v[1]: yield from dups(x)
    elif v[0] == "obj":
        ks = [k for k, _ in v[1]]
        if len(set(ks)) != len(ks): yield True
        for _, x in v[1]: yield from dups(x)


def replay(path):
    d = json.load(open(path))["replay"]
    exe = vlib.build_harness()
    print(json.dumps({k: (v if k != "source" else "...") for k, v in d.items()}, indent=1)[:3000])
    got = M.run_jobs(exe, "jsonmap", [{"id": 0, "source": d["source"], "doc": d.get("doc"), "text": d.get("text") or ""}], nproc=1)[0]
    print(json.dumps(got)[:3000])
    return 0
