"""C04 — TypeScript's run-time constructs behave as their standard JavaScript emit.
TsEmit.tla is the emit semantics of enums as a state machine over the member list (auto / numeric / string / reference /
computed members, duplicate values, a second declaration block merging into the same object) and of constructor parameter
properties; TLC enumerates EVERY declaration within the bounds and prints it with the expected object.  The harness prints
the TypeScript declaration and an observer (key set, forward and reverse lookups / own keys and values), runs it on the real
interpreter and compares with the spec's object.  Namespaces and abstract classes: TypeScript programs and their
hand-desugared JavaScript twins must produce identical traces (and the fixed expectation)."""
import json, os, random
import vlib, minijs as M
from vlib import log

NAMES = ["A", "B", "C", "D", "E"]
HDR = 'import { LOG, ERR } from "verif:host";\ntry {\n'
FTR = '\n} catch (e) { ERR(e); }\n'


def member_src(m, i):
    n = NAMES[i]; k = m["k"]
    if k == "auto": return n
    if k == "num": return "%s = %d" % (n, m["v"])
    if k == "str": return '%s = "%s"' % (n, m["s"])
    if k == "comp": return '%s = "abc".length' % n
    if k == "ref":
        r = NAMES[m["m"] - 1]
        return "%s = %s" % (n, {"id": r, "plus1": r + " + 1", "neg": "-" + r, "not": "~" + r, "shl": r + " << 1"}[m["op"]])


def sval(v):
    if "s" in v: return "s:" + ",".join(str(ord(ch)) for ch in v["s"])
    return "n:%d" % v["n"]


def enum_case(d):
    b1, b2 = d["b1"], d["b2"]
    # decoys: outer constants named like the members - inside the enum body a member name refers to the member
    refs = sorted(set(NAMES[m["m"] - 1] for m in b1 + b2 if m["k"] == "ref"))
    src = "".join("const %s = 100;\n" % r for r in refs)
    src += "enum E { %s }\n" % ", ".join(member_src(m, i) for i, m in enumerate(b1))
    if b2: src += "enum E { %s }\n" % ", ".join(member_src(m, len(b1) + i) for i, m in enumerate(b2))
    src += 'LOG(Object.keys(E).sort());\nLOG(["A", "B", "C", "D", "E"].map((n) => (E as any)[n]));\nLOG([0, 1, 2, 3, 4, 6, 7, 8, 12, -1, -2, -3, -6, -7].map((v) => (E as any)[v]));\n'
    def expect(pairs):
        obj = {}
        for p in pairs: obj[p["key"]] = p["val"]
        keys = sorted((k[1:] if k.startswith("#") else k) for k in obj)
        e1 = "L|a[" + ";".join("s:" + ",".join(str(ord(c)) for c in k) for k in keys) + "]"
        e2 = "L|a[" + ";".join(sval(obj[n]) if n in obj else "U" for n in NAMES) + "]"
        e3 = "L|a[" + ";".join(sval(obj["#%d" % v]) if ("#%d" % v) in obj else "U" for v in (0, 1, 2, 3, 4, 6, 7, 8, 12, -1, -2, -3, -6, -7)) + "]"
        return obj, [e1, e2, e3]
    obj, exp = expect(d["pairs"])
    _, devexp = expect(d["devpairs"])
    kinds = sorted(set(m["k"] for m in b1 + b2))
    return src, exp, {"kind": "enum", "member_kinds": kinds, "blocks": 2 if b2 else 1, "devexp": devexp, "dup_values": len(set(sval(obj[n]) for n in NAMES if n in obj)) < sum(1 for n in NAMES if n in obj)}


def params_case(d):
    ps = d["ps"]; ext = d["ext"]
    plist = []
    for i, p in enumerate(ps):
        mod = "" if p["mod"] == "none" else p["mod"] + " "
        plist.append("%sp%d: number%s" % (mod, i, (" = %d" % p["dflt"]) if p["dflt"] else ""))
    src = ("class Base { z = 9; }\n" if ext else "") + "class C %s{ constructor(%s) { %s} }\n" % ("extends Base " if ext else "", ", ".join(plist), "super(); " if ext else "")
    src += "const a = new C(%s) as any; const b = new (C as any)() as any;\n" % ", ".join(str(i + 1) for i in range(len(ps)))
    src += 'LOG(Object.keys(a).sort());\nLOG(["p0", "p1", "p2", "z"].map((k) => a[k]));\nLOG(["p0", "p1", "p2", "z"].map((k) => b[k]));\n'
    keys = sorted(["p%d" % (i - 1) for i in d["keys"]] + (["z"] if ext else []))
    e1 = "L|a[" + ";".join("s:" + ",".join(str(ord(c)) for c in k) for k in keys) + "]"
    def val(k, args):
        if k == "z": return "n:9" if ext else "U"
        i = int(k[1:])
        if i >= len(ps) or ps[i]["mod"] == "none": return "U"
        if args: return "n:%d" % (i + 1)
        return ("n:%d" % ps[i]["dflt"]) if ps[i]["dflt"] else "U"
    e2 = "L|a[" + ";".join(val(k, True) for k in ("p0", "p1", "p2", "z")) + "]"
    e3 = "L|a[" + ";".join(val(k, False) for k in ("p0", "p1", "p2", "z")) + "]"
    return src, [e1, e2, e3], {"kind": "params", "extends": ext, "mods": sorted(set(p["mod"] for p in ps))}


TWINS = [
 # the namespace object receives every export AS the body runs: the body (and functions it calls) may go through N.x
 ("namespace_self_reference", "namespace Config { export const base = 10; export const derived = Config.base * 2; }\nLOG([Config.base, Config.derived]);",
  "var Config; (function (Config) { Config.base = 10; Config.derived = Config.base * 2; })(Config || (Config = {}));\nLOG([Config.base, Config.derived]);", ["L|a[n:10;n:20]"]),
 ("namespace_function_through_object", "namespace Reg { export const items: string[] = []; export function add(s: string) { Reg.items.push(s); } add('a'); add('b'); }\nLOG(Reg.items);",
  "var Reg; (function (Reg) { Reg.items = []; function add(s) { Reg.items.push(s); } Reg.add = add; add('a'); add('b'); })(Reg || (Reg = {}));\nLOG(Reg.items);", ["L|a[s:97;s:98]"]),
 ("namespace_nested_during_body", "namespace N { export namespace M { export const v = 1; } export const w = N.M.v + 1; export const has = 'M' in N; }\nLOG([N.w, N.has]);",
  "var N; (function (N) { let M; (function (M) { M.v = 1; })(M = N.M || (N.M = {})); N.w = N.M.v + 1; N.has = 'M' in N; })(N || (N = {}));\nLOG([N.w, N.has]);", ["L|a[n:2;b:true]"]),
 ("namespace_enum_during_body", "namespace N { export enum E { A = 1, B } export const x = N.E.B; export class C { static k = 5; } export const y = N.C.k; }\nLOG([N.x, N.y]);",
  "var N; (function (N) { let E; (function (E) { E[E['A'] = 1] = 'A'; E[E['B'] = 2] = 'B'; })(E = N.E || (N.E = {})); N.x = N.E.B; class C { static k = 5; } N.C = C; N.y = N.C.k; })(N || (N = {}));\nLOG([N.x, N.y]);", ["L|a[n:2;n:5]"]),
 ("namespace_exports", "namespace N { export const a = 1; const hidden = 2; export function f() { return a + hidden; } }\nLOG([N.a, N.f(), 'hidden' in N, Object.keys(N).sort()]);",
  "var N; (function (N) { N.a = 1; const hidden = 2; function f() { return N.a + hidden; } N.f = f; })(N || (N = {}));\nLOG([N.a, N.f(), 'hidden' in N, Object.keys(N).sort()]);", ["L|a[n:1;n:3;b:false;a[s:97;s:102]]"]),
 ("namespace_nested", "namespace N { export const a = 1; export namespace M { export const b = a + 1; export namespace K { export const c = b + 1; } } }\nLOG([N.M.b, N.M.K.c, Object.keys(N).sort()]);",
  "var N; (function (N) { N.a = 1; let M; (function (M) { M.b = N.a + 1; let K; (function (K) { K.c = M.b + 1; })(K = M.K || (M.K = {})); })(M = N.M || (N.M = {})); })(N || (N = {}));\nLOG([N.M.b, N.M.K.c, Object.keys(N).sort()]);", ["L|a[n:2;n:3;a[s:77;s:97]]"]),
 ("namespace_merge", "namespace N { export const a = 1; }\nnamespace N { export const c = N.a + 10; export function g() { return a + c; } }\nLOG([N.a, N.c, N.g(), Object.keys(N).sort()]);",
  "var N; (function (N) { N.a = 1; })(N || (N = {}));\n(function (N) { N.c = N.a + 10; function g() { return N.a + N.c; } N.g = g; })(N || (N = {}));\nLOG([N.a, N.c, N.g(), Object.keys(N).sort()]);", ["L|a[n:1;n:11;n:12;a[s:97;s:99;s:103]]"]),
 ("namespace_dotted", "namespace A.B.C { export const v = 5; }\nLOG([A.B.C.v, Object.keys(A), Object.keys(A.B)]);",
  "var A; (function (A) { let B; (function (B) { let C; (function (C) { C.v = 5; })(C = B.C || (B.C = {})); })(B = A.B || (A.B = {})); })(A || (A = {}));\nLOG([A.B.C.v, Object.keys(A), Object.keys(A.B)]);", ["L|a[n:5;a[s:66];a[s:67]]"]),
 ("namespace_class_enum", "namespace N { export class P { constructor(public x: number) {} } export enum Q { One = 1, Two } }\nLOG([new N.P(4).x, N.Q.Two, N.Q[1]]);",
  "var N; (function (N) { class P { constructor(x) { this.x = x; } } N.P = P; let Q; (function (Q) { Q[Q[\"One\"] = 1] = \"One\"; Q[Q[\"Two\"] = 2] = \"Two\"; })(Q = N.Q || (N.Q = {})); })(N || (N = {}));\nLOG([new N.P(4).x, N.Q.Two, N.Q[1]]);", ["L|a[n:4;n:2;s:79,110,101]"]),
 ("namespace_let_live", "namespace N { export let n = 1; export function inc() { n++; } }\nN.inc(); N.inc();\nLOG(N.n);",
  "var N; (function (N) { N.n = 1; function inc() { N.n++; } N.inc = inc; })(N || (N = {}));\nN.inc(); N.inc();\nLOG(N.n);", ["L|n:3"]),
 ("abstract_class", "abstract class S { abstract area(): number; describe() { return 'a' + this.area(); } static make() { return 1; } }\nclass Q extends S { area() { return 4; } }\nLOG([new Q().describe(), 'area' in S.prototype, S.make(), new Q() instanceof S]);",
  "class S { describe() { return 'a' + this.area(); } static make() { return 1; } }\nclass Q extends S { area() { return 4; } }\nLOG([new Q().describe(), 'area' in S.prototype, S.make(), new Q() instanceof S]);", ["L|a[s:97,52;b:false;n:1;b:true]"]),
 ("abstract_instantiable_at_runtime", "abstract class S { v = 3; }\nLOG(new (S as any)().v);", "class S { v = 3; }\nLOG(new S().v);", ["L|n:3"]),
 ("const_enum", "const enum CE { X = 2, Y = X * 3 }\nLOG([CE.X, CE.Y]);", "LOG([2, 6]);", ["L|a[n:2;n:6]"]),
 ("enum_in_function", "function f() { enum L { P = 10, Q } return [L.Q, L[10]]; }\nLOG(f());", "function f() { let L; (function (L) { L[L[\"P\"] = 10] = \"P\"; L[L[\"Q\"] = 11] = \"Q\"; })(L || (L = {})); return [L.Q, L[10]]; }\nLOG(f());", ["L|a[n:11;s:80]"]),
 ("enum_computed_string_concat", "enum M { A = 'x'.length, B = A << 2, C = ~B, D = -1 }\nLOG([M.A, M.B, M.C, M.D, M[-1], M[4]]);", "var M; (function (M) { M[M[\"A\"] = 'x'.length] = \"A\"; M[M[\"B\"] = 4] = \"B\"; M[M[\"C\"] = -5] = \"C\"; M[M[\"D\"] = -1] = \"D\"; })(M || (M = {}));\nLOG([M.A, M.B, M.C, M.D, M[-1], M[4]]);", ["L|a[n:1;n:4;n:-5;n:-1;s:68;s:66]"]),
 ("namespace_multi_declarator_export", "namespace L { export const min = 1, max = min + 9, mid = (min + max) / 2; export let p = 7, q = p + 1; }\nLOG([L.min, L.max, L.mid, L.p, L.q, Object.keys(L).sort(), 'max' in L]);",
  "var L; (function (L) { L.min = 1; L.max = L.min + 9; L.mid = (L.min + L.max) / 2; L.p = 7; L.q = L.p + 1; })(L || (L = {}));\nLOG([L.min, L.max, L.mid, L.p, L.q, Object.keys(L).sort(), 'max' in L]);", ["L|a[n:1;n:10;n:5.5;n:7;n:8;a[s:109,97,120;s:109,105,100;s:109,105,110;s:112;s:113];b:true]"]),
 ("param_props_before_field_initialisers", "class P { y = this.x + 1; tag = 'h' + this.h; constructor(public x: number, readonly h = x * 2) {} }\nLOG([new P(4).y, new P(4).tag, new P(3, 5).tag, Object.keys(new P(1)).sort()]);",
  "class P { constructor(x, h = x * 2) { this.x = x; this.h = h; this.y = this.x + 1; this.tag = 'h' + this.h; } }\nLOG([new P(4).y, new P(4).tag, new P(3, 5).tag, Object.keys(new P(1)).sort()]);", ["L|a[n:5;s:104,56;s:104,53;a[s:104;s:116,97,103;s:120;s:121]]"]),
 ("param_props_before_fields_with_method", "class R { area = this.size(); constructor(public w: number, private k: number) {} size() { return this.w * this.k; } }\nLOG(new R(3, 4).area);",
  "class R { constructor(w, k) { this.w = w; this.k = k; this.area = this.size(); } size() { return this.w * this.k; } }\nLOG(new R(3, 4).area);", ["L|n:12"]),
 ("param_props_order_and_body", "class T { log: string[] = []; constructor(public a: number, private b: number) { this.log.push('body:' + this.a + this.b); } }\nLOG(new T(1, 2).log);", "class T { constructor(a, b) { this.a = a; this.b = b; this.log = []; this.log.push('body:' + this.a + this.b); } }\nLOG(new T(1, 2).log);", ["L|a[s:98,111,100,121,58,49,50]"]),
]


def main(tier):
    c = vlib.Check("C04")
    exe = vlib.build_harness()
    quick = tier == "quick"
    findings = vlib.load_known("C04")
    jobs = []; meta = []
    for fam, mm in (("enum", 3), ("params", 3)):
        cfg = vlib.write_cfg("TsEmit_%s.cfg" % fam, "SPECIFICATION Spec\nCONSTANTS MaxMembers = %d\n MaxBlocks = 2\n Family = \"%s\"\nINVARIANT Emit\nCHECK_DEADLOCK FALSE\n" % (mm, fam))
        res = vlib.run_tlc("TsEmit.tla", cfg, "tsemit", workers=10, timeout=3000, heap="8g")
        c.add_tlc(res)
        if not res.ok: vlib.tool_error("TsEmit enumeration failed:\n" + res.tail())
        for d in res.prints("T"):
            src, exp, feat = enum_case(d) if d["f"] == "enum" else params_case(d)
            jobs.append({"id": len(jobs), "source": HDR + src + FTR, "resp": [], "mode": "immediate", "path": "/p/main.ts", "max_steps": 100000}); meta.append((exp, feat, src, None))
    for (tag, ts, js, exp) in TWINS:
        tid = len(jobs)
        jobs.append({"id": tid, "source": HDR + js + FTR, "resp": [], "mode": "immediate", "path": "/p/main.ts"}); meta.append((exp, {"kind": "twin-js", "tag": tag}, js, None))
        jobs.append({"id": tid + 1, "source": HDR + ts + FTR, "resp": [], "mode": "immediate", "path": "/p/main.ts"}); meta.append((exp, {"kind": "twin", "tag": tag}, ts, tid))
    got = M.run_jobs(exe, "prog", jobs, timeout=2400)
    ok = 0
    import collections
    dist = collections.Counter(); unjudged = []
    for j, (exp, feat, src, twin) in zip(jobs, meta):
        a = M.impl_events(got[j["id"]])
        if feat["kind"] == "twin-js": continue              # the JavaScript side of a twin is C01's business
        if twin is not None:
            tw = M.impl_events(got[twin])
            if tw != exp:                                   # the hand-desugared JS itself misbehaves: not judged here
                unjudged.append(feat.get("tag")); continue
        if a == exp: ok += 1; continue
        k = M.first_diff(exp, a)
        feat = dict(feat)
        if feat["kind"] == "enum" and a != feat["devexp"]:
            # not the emit, and not what the three known deviations produce either: a new defect
            feat = {"kind": "enum", "cause": "unexplained", "member_kinds": feat["member_kinds"], "line": k}
        elif feat["kind"] == "enum":
            cause = "second_block" if feat["blocks"] == 2 else "nonliteral_initializer" if ("comp" in feat["member_kinds"] or "ref" in feat["member_kinds"]) else "duplicate_values" if feat["dup_values"] else "other"
            feat = {"kind": "enum", "cause": cause, "member_kinds": feat["member_kinds"], "line": k}
        dist[json.dumps(feat, sort_keys=True)] += 1
        hit = None
        for f in findings:
            if vlib.key_matches(f["key"], feat): hit = f; break
        if hit: c.known_hit.setdefault(hit["id"], {"finding": hit, "count": 0})["count"] += 1; continue
        c.report(feat, {"source": src, "expected": exp, "got": a, "err": got[j["id"]].get("err")}, "TypeScript construct differs from its specified emit: observer line %d expected %s, got %s (%s)\n%s" % (k, exp[k:k + 1], a[k:k + 1], got[j["id"]].get("err"), src))
    if os.environ.get("VERIF_DEBUG"):
        for k_, v in dist.most_common(40): log("  %4d %s" % (v, k_))
    log("%d declarations and twins: %d behave as the emit" % (len([m for m in meta if m[1]['kind'] != 'twin-js']), ok))
    c.sample({"source": meta[100][2], "expected": meta[100][0]})
    c.cov["traces_validated_against_impl"] = ok
    c.cov["evaluations"] = len(jobs)
    c.cov["distinct_nontrivial"] = len(jobs)
    c.cov["exhaustive"] = True
    if unjudged: log("twins not judged because their JavaScript side does not produce the expected trace on this tree: %s" % sorted(set(unjudged)))
    c.cov["twins_not_judged"] = sorted(set(unjudged))
    c.cov["rule"] = "every enum declaration with <= %d members (4 members make more than 10^6 initial states: TLC refuses the set) over {auto, numeric, string, reference(+1), computed} members and an optional second block, every parameter-property list of <= 3 parameters x 4 modifiers x default x extends (TLC, exhaustive); %d namespace / abstract-class / enum programs against their hand-desugared JavaScript twins" % (3, len(TWINS))
    c.assumptions += ["key ORDER is not compared (own-key order is hash order in this implementation, a C01 matter); key sets, forward and reverse lookups are",
                      "namespaces are covered by hand-written twins rather than by an enumerated tree grammar"]
    c.finish()


def replay(path):
    d = json.load(open(path)); print(json.dumps(d, indent=1)[:3000]); return 0
