"""C05 — every source text is accepted or rejected cleanly, in bounded time.
SyntaxFamilies.tla defines the input space of nesting families (wrapper actions, enumerated by TLC) and the resource budget:
outcome in {ok, syntax error, other error VALUE}, work <= A*len^2 + B where work = tokens scanned by the lexer including
re-scans after rewound speculative parses (hook H2, deterministic, no clock).  Every family is instantiated at doubling
depths until it is refused; short token strings are enumerated exhaustively; token soups, prefixes and single-token mutations
of valid programs are sampled.  Each input is prepared in a child process (abort / stack overflow / hang are data) and the
recorded (len, work, outcome) triples are validated against the budget by TLC in batch."""
import json, os, random, itertools, collections
import vlib, minijs as M, mjcheck
from vlib import log

W = {
 "paren": lambda e: "(" + e + ")", "bracket": lambda e: "[" + e + "]", "unary": lambda e: "-" + e, "binary": lambda e: "1 + " + e,
 "cond_then": lambda e: "c ? " + e + " : 0", "cond_else": lambda e: "c ? 0 : " + e, "arrow": lambda e: "() => " + e, "template": lambda e: "`${" + e + "}`",
 "generic_call": lambda e: "f<T>(" + e + ")", "assign_paren": lambda e: "(a = " + e + ")", "call": lambda e: "f(" + e + ")", "object": lambda e: "{a: " + e + "}",
 "function": lambda e: "function () { return " + e + "; }", "class": lambda e: "class { m() { return " + e + "; } }", "lt_chain": lambda e: "a < " + e,
 "type_arg": lambda e: "(x as Array<" + ("T" if e == "1" else e[len("(x as "):-1]) + ">)", "as": lambda e: "(" + e + " as any)", "member_call": lambda e: "o.m(" + e + ").p",
 "spread": lambda e: "[..." + e + "]", "await_paren": lambda e: "(await " + e + ")", "new": lambda e: "new C(" + e + ")", "comma": lambda e: "(0, " + e + ")",
}
TOKENS = ["a", "b", "1", "0.5", '"s"', "`t`", "`${", "}`", "(", ")", "[", "]", "{", "}", "<", ">", "<=", ">=", "=", "==", "===", "!", "!=", "+", "-", "*", "/", "%", "**", "++", "--",
          "&&", "||", "??", "?", "?.", ":", ";", ",", ".", "...", "=>", "&", "|", "^", "~", "<<", ">>", ">>>", "+=", "let", "const", "var", "function", "class", "return",
          "if", "else", "for", "while", "of", "in", "new", "typeof", "as", "async", "await", "yield", "import", "export", "from", "interface", "type", "enum", "extends", "/re/g", "//c\n", "/*", "*/", "#p", "@d", "\\u0041", "é", "\U0001d4b3"]


# one line per lexical / syntactic construct: every character prefix of every line is offered (truncated escapes, unterminated
# strings / templates / comments / regexps / declaration bodies), also followed by a multi-byte character, and with one character deleted
CORPUS = [
 'let s = "a\\x41\\u0042\\u{1F600}\\n\\0\\\\";', "let t = 'q\\x7e\\u00e9\\u{61}';", 'let u = `a${b}\\x41${`n${c}\\u0041`}z`;', 'let \\u0061b\\u{63} = 1;',
 'let r = /a[\\]/]\\/(?<n>x)+/giu.test("x");', 'let n = [0x1F, 0b101, 0o17, 1_000, 1e-7, .5e+3, 12n, 0.0];', 'a /* c1 */ + // c2\n b;', 'label: for (const [k, v] of Object.entries(o)) { if (k) continue label; else break; }',
 'declare namespace N { foo; export function f(): void; const z: number }', 'declare module "m" { export { a, b }; export default class {} }', 'declare global { interface Window { x: number } }',
 'interface I<T extends object = {}> extends J, K { readonly [key: string]: T; m?(x: number): void; new (x: T): I<T> }', 'type U<T> = T extends (infer R)[] ? R : { [K in keyof T]?: T[K] } | `a${string}`;',
 'abstract class A<T> extends B<T> implements C { private static readonly x?: number = 1; abstract m(): void; get g() { return 1 } set g(v) {} #p = 2; static { init(); } }',
 'enum E { A = 1 << 2, B, C = "s".length }', 'const enum CE { X }', 'namespace A.B.C { export const d = 1 }', 'function f<T>(this: Window, a?: number, ...r: T[]): asserts a is number { return }',
 'function over(a: string): void; function over(a: number): void; function over(a: any) {}', 'export default async function* ag() { for await (const x of y) yield* x; }',
 'import d, { a as b, type T } from "./m"; import * as ns from "n"; export * from "q"; export { b as default };', 'const { a = 1, b: { c, ...d }, ["k" + 1]: e } = o, [x, , y = 2, ...z] = arr;',
 'x = a ? b : c ? d : e ?? f?.g?.[h]?.(i) ** -j;', 'y = <T>(x: T) => x; z = <any>w; v = w as unknown as T satisfies U; q = p!;', '@dec() class D { @prop() x = 1; constructor(@inject() private readonly y: Y) {} }',
 'try { throw new Error("e") } catch { } finally { }', 'switch (x) { case 1: case 2: break; default: { } }', 'do x++; while (x < 10) if (a) b; else if (c) d; else e;', 'o = { a, b() {}, get c() { return 1 }, [d]: 2, ...e, "f": 3, 4: 5, async *g() {} };',
 'new.target; import.meta.url; super.m(); new Foo;', 'f<T>(g<U>(h<V>(1)));', 'a < b > (c);', 'let v: Array<Array<Array<number>>> = [];', 'x = y <<= 2 >>> 1 >> 0;', 'for (var i = 0, j = 10; i < j; i++, j--) ;', 'if (a) function g() {}',
 'let 日本 = "語"; let 𝒳 = `€${日本}€`;', 'var yield_, await_, let_, of, async;', 'a = b\n++c; d = e\n/f/g; return\nx;', 'class C { static async *[Symbol.iterator]() {} "quoted"() {} 42() {} }',
]


# escape sequences: every escape form x digit count 0..12 x digit pattern, terminated or not, in every literal context
ESC_CTX = ['let s = "a%s";', "let s = 'a%s';", 'let s = `a%s`;', 'let s = `a${n}%s`;', 'let s = `a${n}b${m}%s${k}z`;', 'tag`%s`;', 'tag`a${n}%s`;', 'type T = `%s`;', 'type T = `a${string}%s`;',
           'let a%s = 1;', 'let r = /a%s/u;', 'o = { "%s": 1 };', 'import x from "%s";', "enum E { 'a%s' = 1 }"]


def escape_texts():
    esc = set()
    for n in range(0, 13):
        for digs in ("F" * n, ("1" + "0" * (n - 1)) if n else "", "0" * n, ("0" * (n - 1) + "1") if n else "", ("1F6" + "0" * (n - 3)) if n >= 3 else "", "f" * n, "G" * n, "10FFFF"[:n] if n <= 6 else "0" * (n - 6) + "10FFFF", "110000"[:n] if n <= 6 else "0" * (n - 6) + "110000"):
            esc |= {"\\u{" + digs + "}", "\\u{" + digs, "\\u" + digs, "\\x" + digs}
    return [c % e for c in ESC_CTX for e in sorted(esc)]


# member positions of every braced / parenthesised list construct: each vocabulary token as the only member, after a member,
# before a member and between two members (pairs of tokens likewise) - error recovery inside bodies has to make progress
BODIES = [("class A { %s }", "x: number;", "m() {}"), ("abstract class A { %s }", "abstract x: number;", "abstract m(): void;"), ("declare class A { %s }", "x: number;", "m(): void;"),
          ("declare abstract class A { %s }", "x: number;", "abstract m(): void;"), ("export declare class A<T> extends B<T> implements C { %s }", "static readonly x?: T;", "constructor(a: T);"),
          ("interface I { %s }", "x: number;", "m(): void;"), ("declare namespace N { %s }", "const z: number;", "function f(): void;"), ("namespace N { %s }", "const z = 1;", "export function f() {}"),
          ('declare module "m" { %s }', "export const z: number;", "export default class {}"), ("declare global { %s }", "interface W { x: number }", "var g: number;"),
          ("enum E { %s }", "A,", "B = 2,"), ("declare enum E { %s }", "A,", "B = 2,"), ("const enum E { %s }", "A,", "B = 2,"), ("type T = { %s };", "x: number;", "m(): void;"),
          ("o = { %s };", "a: 1,", "b() {},"), ("switch (x) { %s }", "case 1: a;", "default: b;"), ("declare function f(%s): void;", "a: number,", "b?: string,"), ("function f(%s) {}", "a: number,", "b = 1,"),
          ("let v: (%s) => void;", "a: number,", "b?: string,"), ("let [%s] = a;", "a,", "b = 1,"), ("let {%s} = o;", "a,", "b: c = 1,"), ("f<%s>(1);", "A,", "B[],"), ("import { %s } from 'm';", "a,", "b as c,"),
          ("export { %s };", "a,", "b as c,"), ("class A<%s> {}", "T,", "U extends T = T,")]


def body_texts(rnd, quick):
    out = []
    for tpl, m1, m2 in BODIES:
        for t in TOKENS:
            out += [tpl % t, tpl % (m1 + " " + t), tpl % (t + " " + m2), tpl % (m1 + " " + t + " " + m2), tpl % (m1 + " " + t + " " + t + " " + m2)]
        pairs = list(itertools.product(TOKENS, repeat=2))
        for a, b in rnd.sample(pairs, 150 if quick else 2000):
            out.append(tpl % (m1 + " " + a + " " + b + " " + m2))
    return out


def poison_variants(src):
    """a valid nesting made invalid at its deepest point or cut off before it closes: rejected inputs obey the same budget"""
    out = []
    i = src.find("1;") if "1;" in src else -1
    k = src.rfind("1")
    if k > 0:
        out.append(src[:k] + "1 +" + src[k + 1:])          # syntax error at the innermost expression
        out.append(src[:k + 1])                             # everything after the innermost expression is missing
        out.append(src[:k] + "g(")                          # ... and the innermost expression itself is an open call
    return out


def instantiate(fam, depth):
    e = "1"
    for i in range(depth):
        e = W[fam[(depth - 1 - i) % len(fam)]](e)
    return "let x: any = " + e + ";\n"


def main(tier):
    c = vlib.Check("C05", level="exploration")
    exe = vlib.build_harness()
    quick = tier == "quick"
    rnd = random.Random(c.seed)
    findings = vlib.load_known("C05")
    # ---- the families, enumerated by TLC
    cfg = vlib.write_cfg("SynFam_gen.cfg", "SPECIFICATION Spec\nCONSTANTS MaxFam = %d\n Mode = \"gen\"\nINVARIANT Emit\nCHECK_DEADLOCK FALSE\n" % 2)
    res = vlib.run_tlc("SyntaxFamilies.tla", cfg, "synfam", workers=4, timeout=900, heap="4g")
    c.add_tlc(res)
    fams = sorted(set(tuple(x) for x in res.prints("F")))
    if not fams: vlib.tool_error("SyntaxFamilies.tla emitted no families:\n" + res.tail())
    if quick: fams = [f for f in fams if len(f) == 1] + rnd.sample([f for f in fams if len(f) == 2], 120)
    records = []   # (source class, descr, feature dict, source)
    depths = [1, 2, 4, 8, 16, 32, 64, 128, 256, 512, 1024, 2048, 4096] + ([] if quick else [8192, 16384])
    # families are measured depth by depth so that a family stops growing once it is refused or blows the work cap
    alive = {f: True for f in fams}
    inputs = []
    for d in depths:
        batch = []
        for f in fams:
            if alive[f]:
                src = instantiate(f, d)
                batch.append((f, d, src))
                if d <= 64:
                    for pv in poison_variants(src): batch.append((f + ("poisoned",), d, pv))
        jobs = [{"id": i, "source": s} for i, (f, d_, s) in enumerate(batch)]
        got = M.run_jobs(exe, "parsework", jobs, timeout=1200) if jobs else {}
        for i, (f, d_, s) in enumerate(batch):
            r = got.get(i, {"status": "CRASH"})
            st = r.get("status", "CRASH"); st = "crash" if st.startswith("CRASH") else "hang" if st == "HANG" else st
            inputs.append({"cls": "family", "family": list(f), "depth": d_, "len": len(s), "work": r.get("work", 0), "status": st, "source": s if len(s) < 400 else s[:200] + " ... " + s[-100:]})
            if f in alive and (st != "ok" or r.get("work", 0) > 3000000 or len(s) > 120000): alive[f] = False
    log("nesting families: %d families x doubling depths, %d measurements" % (len(fams), len(inputs)))
    # ---- short token strings (exhaustive) and token soups
    toks = TOKENS
    soups = [" ".join(p) for k in (1, 2) for p in itertools.product(toks, repeat=k)]
    if not quick: soups += [" ".join(p) for p in itertools.product(toks[:45], repeat=3)]
    for _ in range(1500 if quick else 30000):
        soups.append(" ".join(rnd.choice(toks) for _ in range(rnd.randint(3, 200))))
    # ---- the construct corpus: every character prefix, prefix + multi-byte character, single-character deletions
    for line in CORPUS:
        for cut in range(len(line) + 1):
            soups.append(line[:cut]); soups.append(line[:cut] + "\u20ac"); soups.append(line[:cut] + "\U0001d4b3x")
        for k in range(len(line)):
            soups.append(line[:k] + line[k + 1:])
    n_before = len(soups)
    soups += escape_texts() + body_texts(rnd, quick)
    log("escape grid and member-position grid: %d texts" % (len(soups) - n_before))
    # ---- prefixes and single-token mutations of valid programs
    progs = mjcheck.gen_programs(c.seed * 3 + 1, 25 if quick else 200, objects=True, gens=True)
    import re
    for P in progs:
        src = M.ts_source(P)
        cuts = [m.start() for m in re.finditer(r"\s+", src)]
        for cpos in (cuts if not quick else rnd.sample(cuts, min(len(cuts), 40))):
            soups.append(src[:cpos])
        words = src.split(" ")
        for _ in range(30 if quick else 150):
            w2 = list(words); w2[rnd.randrange(len(w2))] = rnd.choice(toks); soups.append(" ".join(w2))
    jobs = [{"id": i, "source": s} for i, s in enumerate(soups)]
    got = M.run_jobs(exe, "parsework", jobs, timeout=2400, max_hangs=8)
    stopped = "__stopped__" in got
    if stopped: log("8 texts hang the front end: the remaining texts are left unmeasured (%d of %d measured)" % (len(got) - 1, len(soups)))
    for i, s in enumerate(soups):
        if stopped and i not in got: continue
        r = got.get(i, {"status": "CRASH"})
        st = r.get("status", "CRASH"); st = "crash" if st.startswith("CRASH") else "hang" if st == "HANG" else st
        inputs.append({"cls": "soup", "len": len(s), "work": r.get("work", 0), "status": st, "source": s if len(s) < 300 else s[:300] + " ..."})
    # ---- TLC validates every record against the budget
    os.makedirs(os.path.join(vlib.BUILD, "syn"), exist_ok=True)
    tp = os.path.join(vlib.BUILD, "syn", "records.ndjson")
    with open(tp, "w") as f:
        for r in inputs: f.write(json.dumps({"len": r["len"], "work": r["work"], "status": r["status"]}) + "\n")
    cfg = vlib.write_cfg("SynFam_trace.cfg", "SPECIFICATION Spec\nCONSTANTS MaxFam = 1\n Mode = \"trace\"\nCONSTRAINT Mark\nPOSTCONDITION AllAccepted\nCHECK_DEADLOCK FALSE\n")
    tres = vlib.run_tlc("SyntaxFamilies.tla", cfg, "syntrace", workers=1, timeout=2400, heap="8g", java="-Xss1g -Dtlc2.tool.queue.IStateQueue=StateDeque", env={"TRACE": tp}, accept=(0, 10, 12, 13))
    c.add_tlc(tres)
    rejected = {}
    for l in tres.lines:
        if l.startswith('<<"DIFF"'):
            body = l[len('<<"DIFF", '):].rstrip(">"); t, name = body.split(",", 1); rejected.setdefault(int(t), []).append(name.strip().strip('"'))
    if not rejected and not tres.ok: vlib.tool_error("budget validation failed to run:\n" + tres.tail())
    dist = collections.Counter()
    for t, whys in sorted(rejected.items()):
        r = inputs[t - 1]
        for why in whys:
            feat = {"kind": "parse", "why": why, "status": r["status"], "cls": r["cls"], "family": r.get("family", []), "family_kinds": sorted(set(r.get("family", []))), "depth_class": "deep" if r.get("depth", 0) >= 256 else "shallow"}
            dist[(why[:20], r["status"], tuple(r.get("family", [])) if r["cls"] == "family" else "soup")] += 1
            hit = None
            for f in findings:
                if vlib.key_matches(f["key"], feat): hit = f; break
            if hit: c.known_hit.setdefault(hit["id"], {"finding": hit, "count": 0})["count"] += 1; continue
            c.report(feat, r, "source text (%s%s, %d chars) breaks the budget: %s; outcome %s, work %d tokens\n%s" % (r["cls"], (" " + "/".join(r["family"]) + " depth %d" % r["depth"]) if r["cls"] == "family" else "", r["len"], why, r["status"], r["work"], r["source"][:300]))
    if os.environ.get("VERIF_DEBUG"):
        for k_, v in dist.most_common(60): log("  %4d %s" % (v, k_))
    log("%d source texts validated against the budget: %d within, %d outside" % (len(inputs), len(inputs) - len(rejected), len(rejected)))
    c.sample({"family": inputs[3].get("family"), "depth": inputs[3].get("depth"), "len": inputs[3]["len"], "work": inputs[3]["work"], "status": inputs[3]["status"]})
    c.cov["traces_validated_against_impl"] = len(inputs) - len(rejected)
    c.cov["evaluations"] = len(inputs)
    c.cov["distinct_nontrivial"] = len(inputs)
    c.cov["rule"] = "%d nesting families (all of length 1, %s of length 2 over 22 wrapper kinds) at doubling depths to %d; all token strings of length <= %d over a %d-token vocabulary; %d random soups, prefixes and single-token mutations of valid programs" % (len(fams), "a sample" if quick else "all", depths[-1], 2 if quick else 3, len(TOKENS), len(soups))
    c.assumptions += ["for rejected inputs there is no oracle beyond 'clean and within budget'", "work is counted in lexer tokens (hook H2), the budget is 3*len^2 + 2000 with len in characters",
                      "only valid UTF-8 is offered (the Rust API takes &str)"]
    c.finish()


def replay(path):
    d = json.load(open(path)); print(json.dumps(d, indent=1)[:3000]); return 0
