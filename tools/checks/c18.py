"""C18 — module specifiers resolve to canonical paths.
M: TLC enumerates every (specifier, importer) with <= MaxSegs segments and checks PathNorm's own
   properties on each.  R: each enumerated input, with the spec's expected result, is replayed on the
   real ModulePath::resolve (streamed: tlc | vrunner pathnorm)."""
import json, os, subprocess, shutil, random
import vlib
from vlib import log

def run_stream(exe, maxsegs, workers, timeout):
    cfg = vlib.write_cfg("PathNorm_%d.cfg" % maxsegs, """SPECIFICATION Spec
CONSTANTS MaxSegs = %d
  Emitting = TRUE
INVARIANT AbsoluteFromAbsoluteImporter
INVARIANT CleanResult
INVARIANT Idempotent
INVARIANT BarePassThrough
INVARIANT EquivalentSpellings
INVARIANT Emit
CHECK_DEADLOCK FALSE
""" % maxsegs)
    metadir = os.path.join(vlib.BUILD, "tlc", "pathnorm%d" % maxsegs)
    shutil.rmtree(metadir, ignore_errors=True); os.makedirs(metadir)
    cmd = vlib.tlc_cmd("PathNorm.tla", cfg, metadir, workers=workers)
    import time; t0 = time.time()
    tlc = subprocess.Popen(cmd, cwd=vlib.SPEC, env=vlib.tlc_env(heap="6g"), stdout=subprocess.PIPE, stderr=subprocess.STDOUT)
    run = subprocess.Popen([exe, "pathnorm"], stdin=tlc.stdout, stdout=subprocess.PIPE, text=True)
    tlc.stdout.close()
    try:
        out, _ = run.communicate(timeout=timeout)
        tlc.wait(timeout=60)
    except subprocess.TimeoutExpired:
        tlc.kill(); run.kill(); vlib.tool_error("PathNorm TLC/replay timed out")
    shutil.rmtree(metadir, ignore_errors=True)
    lines = out.splitlines()
    res = vlib.TlcResult(tlc.returncode, [l[5:] for l in lines if l.startswith("TLC: ")])
    res.wall = time.time() - t0; res.cmd = " ".join(cmd) + " | vrunner pathnorm"
    if tlc.returncode not in (0, 12, 13):
        log(res.tail()); vlib.tool_error("TLC failed rc=%s" % tlc.returncode)
    mism = [json.loads(l[9:]) for l in lines if l.startswith("MISMATCH ")]
    summ = [json.loads(l[8:]) for l in lines if l.startswith("SUMMARY ")]
    if not summ:
        vlib.tool_error("replayer produced no summary")
    return res, mism, summ[0]

def feature(m):
    imp = m["importer"]
    return {"kind": "resolve",
            "importer_class": ("none" if imp is None else "abs-root-level" if imp.startswith("/") and imp.count("/") == 1
                               else "abs" if imp.startswith("/") else "rel"),
            "fails": "result" if m["got"] != m["expected"] else "idempotence"}

def random_long(exe, n, rnd):
    """random longer paths: the expected result is computed by the same segment machine (python transcription
    of PathNorm!Resolve, itself cross-checked against TLC's lines in the exhaustive part)."""
    alpha = ["", ".", "..", "a", "b", "..a", "a.ts", "c d", "é", "x.y.z"]
    def norm(segs):
        st = []
        for s in segs:
            if s in ("", "."): continue
            if s == "..":
                if st: st.pop()
            else: st.append(s)
        return st
    jobs = []
    for i in range(n):
        ns = rnd.randint(1, 14); ni = rnd.randint(0, 10)
        spec = {"abs": rnd.random() < 0.3, "segs": [rnd.choice(alpha) for _ in range(ns)]}
        if rnd.random() < 0.6 and not spec["abs"]:
            spec["segs"][0] = rnd.choice([".", ".."])
        if not spec["abs"] and spec["segs"][0] == "": spec["segs"][0] = "a"
        imp = {"abs": rnd.random() < 0.8, "segs": [rnd.choice(alpha) for _ in range(ni)]}
        if not imp["abs"] and imp["segs"] and imp["segs"][0] == "": imp["segs"][0] = "b"
        rel = (not spec["abs"]) and len(spec["segs"]) > 1 and spec["segs"][0] in (".", "..")
        if not spec["abs"] and not rel: res = spec
        elif spec["abs"]: res = {"abs": True, "segs": norm(spec["segs"])}
        elif imp["abs"] or len(imp["segs"]) > 1: res = {"abs": imp["abs"], "segs": norm(imp["segs"][:-1] + spec["segs"])}
        else: res = {"abs": False, "segs": norm(spec["segs"])}
        jobs.append('<<"P", %s>>' % json.dumps(json.dumps({"spec": spec, "imp": imp, "res": res})))
    r = subprocess.run([exe, "pathnorm"], input="\n".join(jobs) + "\n", stdout=subprocess.PIPE, text=True, timeout=300)
    lines = r.stdout.splitlines()
    return [json.loads(l[9:]) for l in lines if l.startswith("MISMATCH ")], [json.loads(l[8:]) for l in lines if l.startswith("SUMMARY ")][0]

def main(tier):
    c = vlib.Check("C18")
    exe = vlib.build_harness()
    maxsegs = 5 if tier == "quick" else 6
    res, mism, summ = run_stream(exe, maxsegs, workers=8 if tier == "quick" else 14, timeout=600 if tier == "quick" else 3000)
    c.add_tlc(res)
    for inv in res.violated():
        c.report({"kind": "spec-invariant", "invariant": inv}, {"tlc_tail": res.tail()}, "PathNorm.tla violates its own property " + inv)
    if not res.ok and not res.violated():
        vlib.tool_error("TLC did not finish cleanly:\n" + res.tail())
    if summ["inputs"] != res.distinct:
        vlib.tool_error("replayed %d inputs but TLC enumerated %d states" % (summ["inputs"], res.distinct))
    rnd = random.Random(c.seed)
    m2, s2 = random_long(exe, 20000 if tier == "quick" else 400000, rnd)
    for m in mism + m2:
        c.report(feature(m), m, "resolve(%r, %r) = %r, PathNorm!Resolve = %r (resolving the result again gives %r)"
                 % (m["specifier"], m["importer"], m["got"], m["expected"], m["again"]))
    c.cov["traces_validated_against_impl"] = summ["inputs"] + s2["inputs"]
    c.cov["evaluations"] = summ["inputs"] + s2["inputs"]
    c.cov["distinct_nontrivial"] = summ["nontrivial"]
    c.cov["exhaustive"] = True
    c.cov["rule"] = ("every (specifier, importer) pair with <= %d segments in total over {'', '.', '..', 'a', 'b', '..a', 'a.ts'} with/without "
                     "leading slash, trailing/doubled slashes as empty segments, importer absent/relative/absolute (exhaustive, TLC); plus %d seeded random longer "
                     "paths; non-trivial = result text differs from the specifier text") % (maxsegs, s2["inputs"])
    c.cov["samples"] = summ["samples"][:5] + s2["samples"][:2]
    c.assumptions += ["PathNorm.tla is the reading of 'join to the importer's directory and remove . .. and empty segments' (its own invariants are checked by TLC on every input)",
                      "an importer without any '/' has no directory (specifier normalised alone), as a pinned repository test requires"]
    c.finish()

def replay(path):
    """re-runs one recorded mismatch on the current tree"""
    d = json.load(open(path))["replay"]
    exe = vlib.build_harness()
    def P(t):
        if t is None: return {"abs": False, "segs": ["<none>"]}
        ab = t.startswith("/"); body = t[1:] if ab else t
        return {"abs": ab, "segs": body.split("/") if body != "" else []}
    def Q(t):
        ab = t.startswith("/"); body = t[1:] if ab else t
        return {"abs": ab, "segs": body.split("/") if body != "" else []}
    job = '<<"P", %s>>' % json.dumps(json.dumps({"spec": Q(d["specifier"]), "imp": P(d["importer"]), "res": Q(d["expected"])}))
    r = subprocess.run([exe, "pathnorm"], input=job + "\n", stdout=subprocess.PIPE, text=True)
    print(r.stdout)
    return 1 if "MISMATCH" in r.stdout else 0
