"""MapSet.tla conformance: TLC enumerates every history of Map / Set calls up to a length (plus simulated longer ones) with
the result each call has to produce; every history is replayed on the real interpreter (and on node, which validates the
specification)."""
import json, os
import vlib, minijs as M, jslib
from vlib import log

KEY = {0: "0", 100: "-0", 1: "1", 101: '"1"', 102: "NaN", 103: '"a"'}
CAN = {0: "n:0", 1: "n:1", 101: "s:49", 102: "nan", 103: "s:97"}


def program_for(b):
    """JavaScript for one behaviour: r collects the result of every call"""
    isset = b["set"]
    ls = ["const c = new %s(); const r = [];" % ("Set" if isset else "Map")]
    for h in b["hist"]:
        op = h["op"]; k = KEY.get(h["k"], "0")
        if op == "set": ls.append(("c.add(%s)" % k if isset else "c.set(%s, %d)" % (k, h["v"])) + "; r.push(c.size);")
        elif op == "delete": ls.append("r.push(c.delete(%s));" % k)
        elif op == "has": ls.append("r.push(c.has(%s));" % k)
        elif op == "get": ls.append("r.push(c.get(%s));" % k)
        elif op == "clear": ls.append("c.clear(); r.push(c.size);")
        elif op == "keys": ls.append("r.push([...c.keys()]%s);" % ("" if isset else ".concat([...c.values()])"))
        elif op == "iter":
            mk = KEY.get(h["k"], "0")
            mut = {"set": ("c.add(%s)" % mk if isset else "c.set(%s, %d)" % (mk, h["v"])), "delete": "c.delete(%s)" % mk, "clear": "c.clear()"}[h["mop"]]
            # alternate between for-of and forEach (same entry-list walk)
            if (h["at"] + len(b["hist"])) % 2:
                ls.append("{ const seen = []; let n = 0; for (const x of c%s) { n++; seen.push(x); if (n === %d) { %s; } } r.push(seen); }" % (".keys()", h["at"], mut))
            else:
                ls.append("{ const seen = []; let n = 0; c.forEach((v, x) => { n++; seen.push(x); if (n === %d) { %s; } }); r.push(seen); }" % (h["at"], mut))
    ls.append("r.push([...c.keys()]); LOG(r);")
    return " ".join(ls)


def expected(b, snapshot=False):
    out = []
    for h in b["hist"]:
        op = h["op"]; r = h["rsnap"] if (snapshot and op == "iter") else h["r"]
        if op in ("set", "clear"): out.append("n:%d" % r[0])
        elif op in ("delete", "has"): out.append("b:true" if r[0] else "b:false")
        elif op == "get": out.append(("n:%d" % r[0]) if r else "U")
        elif op == "keys":
            n = len(r) if b["set"] else len(r) // 2
            out.append("a[" + ";".join([CAN[x] for x in r[:n]] + ["n:%d" % x for x in r[n:]]) + "]")
        elif op == "iter": out.append("a[" + ";".join(CAN[x] for x in r) + "]")
    out.append("a[" + ";".join(CAN[x] for x in b["final"]) + "]")
    return "L|a[" + ";".join(out) + "]"


def check(c, exe, quick):
    runs = [("ms_x", 2 if quick else 3, [], 8)]
    runs.append(("ms_s", 8, ["-simulate", "num=%d" % (300 if quick else 6000), "-depth", "9", "-seed", str(c.seed)], 1))
    beh = []
    for name, maxlen, extra, workers in runs:
        cfg = vlib.write_cfg("MapSet_%s.cfg" % name, "SPECIFICATION Spec\nCONSTANTS\n MaxLen = %d\n Emitting = TRUE\nINVARIANTS LiveKeysDistinct NoNegZeroStored SizeIsLive Emit\nVIEW View\nCHECK_DEADLOCK FALSE\n" % maxlen)
        res = vlib.run_tlc("MapSet.tla", cfg, "mapset_" + name, workers=workers, timeout=1800, heap="6g", extra=extra)
        c.add_tlc(res)
        if res.violated(): vlib.tool_error("MapSet.tla violates its own invariant %s" % res.violated())
        got = res.prints("S")
        log("MapSet.tla %s: %d complete call histories of length %d" % (name, len(got), maxlen))
        beh += got
    seen = set(); uniq = []
    for b in beh:
        k = json.dumps(b, sort_keys=True)
        if k not in seen: seen.add(k); uniq.append(b)
    CH = 250
    chunks = [uniq[i:i + CH] for i in range(0, len(uniq), CH)]
    sources = ["\n".join("(() => { try { %s } catch (e) { LOG(e); } })();" % program_for(b) for b in ch) + "\n" for ch in chunks]
    jobs = [{"id": i, "source": 'import { LOG, ERR } from "verif:host";\n' + s, "resp": [], "mode": "immediate", "path": "/p/main.ts", "max_steps": 6000000} for i, s in enumerate(sources)]
    got = M.run_jobs(exe, "prog", jobs)
    ng = jslib.run_node_src(sources)
    st = dict(histories=len(uniq), agree=0, spec_vs_node=0, violations=0)
    for i, ch in enumerate(chunks):
        ev = M.impl_events(got[i]); nev = ng.get(i) if ng is not None else None
        if len(ev) != len(ch):
            st["violations"] += 1
            c.report({"kind": "mapset", "what": "run-aborted"}, {"source": sources[i]}, "Map/Set replay stopped after %d of %d histories (status %s %s)" % (len(ev), len(ch), got[i].get("status"), got[i].get("err") or ""))
        for j, b in enumerate(ch[:len(ev)]):
            exp = expected(b)
            if nev is not None and (j >= len(nev) or nev[j] != exp):
                st["spec_vs_node"] += 1
                if st["spec_vs_node"] <= 3: log("MapSet.tla disagrees with node: %s\n  spec %s\n  node %s" % (program_for(b), exp, nev[j] if j < len(nev) else None))
                continue
            if ev[j] == exp: st["agree"] += 1; continue
            st["violations"] += 1
            # the modelled deviation: iteration over a snapshot of the keys (attributed only if the run shows exactly that)
            dev = "iteration-snapshot" if ev[j] == expected(b, snapshot=True) else "unexplained"
            c.report({"kind": "mapset", "deviation": dev, "set": b["set"], "ops": sorted({h["op"] for h in b["hist"]})}, {"source": "try { %s } catch (e) { LOG(e); }\n" % program_for(b), "expected": [exp]},
                     "%s history: %s\n  must log %s\n  got      %s" % ("Set" if b["set"] else "Map", program_for(b), exp, ev[j]))
    return st
