"""C20 scenario synthesis: a call chain of chosen function kinds with a fault planted at a known position, printed under
a chosen layout.  Positions are tracked through marker characters that are stripped from the final text."""
import random
L, R = "«", "»"      # « » delimit the expressions whose positions matter; an index digit follows «

KINDS = ["decl", "arrow", "method", "classmethod", "ctor", "callback", "nested", "getter", "module"]
FAULTS = {"ref": ("undefinedName", "ReferenceError"), "nullprop": ("nullv.prop.deep", "TypeError"), "notfn": ("notfn()", "TypeError")}


def callexpr(chain, i):
    k = chain[i]
    return {"decl": "f%d()" % i, "arrow": "f%d()" % i, "method": "o%d.m%d()" % (i, i), "classmethod": "new C%d().m%d()" % (i, i), "ctor": "new K%d()" % i,
            "callback": "f%d()" % i, "nested": "f%d()" % i, "getter": "g%d.v%d" % (i, i), "module": "x%d()" % i}[k]


def fnames(chain, i):
    """acceptable names of the frame of function i"""
    k = chain[i]
    return {"decl": ["f%d" % i], "arrow": ["f%d" % i], "method": ["m%d" % i], "classmethod": ["m%d" % i], "ctor": ["K%d" % i], "callback": ["f%d" % i],
            "nested": ["f%d" % i], "getter": ["v%d" % i, "get v%d" % i], "module": ["x%d" % i]}[k]


def build(chain, fault, layout, rnd):
    """chain: list of kinds, outermost first.  Returns (files {path: marked text}, frame plan innermost first).
    Everything from the first `module` element inwards lives in /p/lib.ts."""
    n = len(chain)
    first_mod = next((i for i in range(n) if chain[i] == "module"), n)
    fileof = lambda i: "/p/lib.ts" if i >= first_mod else "/p/main.ts"
    lines = {"/p/main.ts": ["const nullv: any = null; const notfn: any = 5;"], "/p/lib.ts": ["const nullv: any = null; const notfn: any = 5;"]}
    wide = '"\u00e9\U0001d4b3\u4e2d"; ' if layout == "wide" else ""
    def inner(i):
        if i == n - 1: return "%s%s%d|%s%s;" % (wide, L, i + 1, FAULTS[fault][0], R)
        return "%s%s%d|%s%s;" % (wide, L, i + 1, callexpr(chain, i + 1), R)
    for i in range(n - 1, -1, -1):
        k = chain[i]; body = inner(i); tgt = lines[fileof(i)]
        ex = "export " if i == first_mod else ""
        if k == "decl": tgt.append("function f%d() {\n  %s\n}" % (i, body))
        elif k == "arrow": tgt.append("const f%d = () => {\n  %s\n};" % (i, body))
        elif k == "method": tgt.append("const o%d = { m%d() {\n  %s\n} };" % (i, i, body))
        elif k == "classmethod": tgt.append("class C%d { m%d() {\n  %s\n} }" % (i, i, body))
        elif k == "ctor": tgt.append("class K%d { constructor() {\n  %s\n} }" % (i, body))
        elif k == "callback": tgt.append("function f%d() {\n  %sC%d|[1].forEach(() => {\n    %s\n  })%s;\n}" % (i, L, i, body, R))
        elif k == "nested": tgt.append("function f%d() {\n  function inner%d() {\n    %s\n  }\n  %sN%d|inner%d()%s;\n}" % (i, i, body, L, i, i, R))
        elif k == "getter": tgt.append("const g%d = { get v%d() {\n  %s\n  return 1; } };" % (i, i, body))
        elif k == "module": tgt.append("%sfunction x%d() {\n  %s\n}" % (ex, i, body))
    lines["/p/main.ts"].append("%s0|%s%s;" % (L, callexpr(chain, 0), R))
    files = {"/p/main.ts": "\n".join(lines["/p/main.ts"]) + "\n"}
    if first_mod < n:
        files["/p/lib.ts"] = "\n".join(lines["/p/lib.ts"]) + "\n"
        if first_mod == 0:
            files["/p/main.ts"] = 'import { x0 } from "./lib.ts";\n' + files["/p/main.ts"]
        else:
            # main's function first_mod-1 calls x<first_mod>: import it
            files["/p/main.ts"] = 'import { x%d } from "./lib.ts";\n' % first_mod + files["/p/main.ts"]
    # frame plan, innermost first: (names, file, marker id, flags)
    plan = []
    for i in range(n - 1, -1, -1):
        k = chain[i]; inner_marker = str(i + 1)
        if k == "callback":
            plan.append({"names": [None, "<anonymous>"], "file": fileof(i), "marker": inner_marker, "via": "callback-arrow"})
            plan.append({"names": fnames(chain, i), "file": fileof(i), "marker": "C%d" % i, "via": "callback-host"})
        elif k == "nested":
            plan.append({"names": ["inner%d" % i], "file": fileof(i), "marker": inner_marker, "via": "nested-inner"})
            plan.append({"names": fnames(chain, i), "file": fileof(i), "marker": "N%d" % i, "via": "nested-outer"})
        else:
            plan.append({"names": fnames(chain, i), "file": fileof(i), "marker": inner_marker, "via": k})
    plan.append({"names": [None, "<anonymous>", "<module>"], "file": "/p/main.ts", "marker": "0", "via": "toplevel"})
    return files, plan


def apply_layout(text, layout, rnd):
    out = []
    for ln in text.split("\n"):
        if layout == "comments" and rnd.random() < 0.5:
            out.append(rnd.choice(["// a comment line", "", "/* block\n   comment */", "   "]))
        if layout == "tabs": ln = ln.replace("    ", "\t\t").replace("  ", "\t")
        if layout == "reflow" and (L not in ln) and ln.strip().startswith(("function", "const", "class", "export")):
            ln = ln.replace(" {", "\n{", 1) if rnd.random() < 0.5 else ln
        out.append(ln)
    text = "\n".join(out)
    if layout == "crlf": text = text.replace("\n", "\r\n")
    return text


def strip_markers(text):
    """returns (clean text, {marker id: (line, col_start, col_end)}) with 1-based lines and columns counted in UTF-16 code units,
    plus the same in code points and bytes for diagnosis"""
    pos = {}; clean = []; line = 1; col16 = 1; colcp = 1; colb = 1
    i = 0; open_ = {}
    while i < len(text):
        ch = text[i]
        if ch == L:
            j = i + 1; mid = ""
            while text[j] != "|": mid += text[j]; j += 1
            j += 1
            open_[mid] = (line, col16, colcp, colb); stack_id = mid
            open_.setdefault("_stack", []).append(mid); i = j; continue
        if ch == R:
            mid = open_["_stack"].pop(); s = open_[mid]
            pos[mid] = {"line": s[0], "c0": s[1], "c1": col16, "cp0": s[2], "cp1": colcp, "b0": s[3], "b1": colb, "endline": line}
            i += 1; continue
        clean.append(ch)
        if ch == "\n": line += 1; col16 = colcp = colb = 1
        else:
            col16 += 2 if ord(ch) > 0xFFFF else 1; colcp += 1; colb += len(ch.encode("utf-8"))
        i += 1
    return "".join(clean), pos
