"""Source synthesis for C09: given a DAG (deps[m] = modules m imports, m imports only higher numbers) produce the
TypeScript of every module.  Every module logs its load, exports a value that depends on all its imports
(so a body that runs before its dependencies yields a wrong total), a live counter with a mutator, a default
export, and re-exports the counter of its first dependency (live bindings through re-export chains).
Import kinds (named / namespace / default+named) and equivalent spellings of the same path are chosen per edge."""
import random

SPELLINGS = ["./m{d}.ts", "././m{d}.ts", "./x/../m{d}.ts", "../p/m{d}.ts", "./x/y/../../m{d}.ts", ".//m{d}.ts", "/p/m{d}.ts", "/p/./x/../m{d}.ts"]


def spell(rnd, d, plain=False):
    return (SPELLINGS[0] if plain else rnd.choice(SPELLINGS)).format(d=d)


def gen_sources(deps, rnd, plain=False):
    n = len(deps) - 1
    src = {}
    for m in range(1, n + 1):
        lines = []; terms = []
        for d in deps[m]:
            kind = "named" if plain else rnd.choice(["named", "namespace", "default"])
            if kind == "named":
                lines.append('import { v as v%d } from "%s";' % (d, spell(rnd, d, plain))); terms.append("v%d" % d)
            elif kind == "namespace":
                lines.append('import * as ns%d from "%s";' % (d, spell(rnd, d, plain))); terms.append("ns%d.v" % d)
            else:
                lines.append('import def%d from "%s";' % (d, spell(rnd, d, plain))); terms.append("def%d" % d)
        lines.append('console.log("LOAD %d");' % m)
        lines.append("export let cnt: number = 0;")
        lines.append("export function bump(): void { cnt = cnt + 1; }")
        lines.append("export const v: number = %s;" % " + ".join([str(m)] + terms))
        lines.append("export default v;")
        if deps[m]:
            lines.append('export { cnt as rcnt, bump as rbump } from "%s";' % spell(rnd, deps[m][0], plain))
        src[m] = "\n".join(lines) + "\n"
    lines = []; terms = []; body = []
    for d in deps[0]:
        kind = "named" if plain else rnd.choice(["named", "namespace", "default"])
        if kind == "named":
            lines.append('import { v as v%d, cnt as cnt%d, bump as bump%d } from "%s";' % (d, d, d, spell(rnd, d, plain)))
            terms.append("v%d" % d); cnt, bump = "cnt%d" % d, "bump%d" % d
        elif kind == "namespace":
            lines.append('import * as ns%d from "%s";' % (d, spell(rnd, d, plain)))
            terms.append("ns%d.v" % d); cnt, bump = "ns%d.cnt" % d, "ns%d.bump" % d
        else:
            lines.append('import def%d from "%s";' % (d, spell(rnd, d, plain)))
            lines.append('import { cnt as cnt%d, bump as bump%d } from "%s";' % (d, d, spell(rnd, d, plain)))
            terms.append("def%d" % d); cnt, bump = "cnt%d" % d, "bump%d" % d
        body.append("{ const b = %s; %s(); %s(); live.push(%s - b); }" % (cnt, bump, bump, cnt))
        if deps[d]:
            lines.append('import { rcnt as rcnt%d, rbump as rbump%d } from "%s";' % (d, d, spell(rnd, d, plain)))
            body.append("{ const b = rcnt%d; rbump%d(); rbump%d(); live.push(rcnt%d - b); }" % (d, d, d, d))
    lines.append('console.log("LOAD 0");')
    lines.append("const live: number[] = [];")
    lines += body
    lines.append('console.log("LIVE " + live.join(","));')
    lines.append("export const total: number = %s;" % (" + ".join(terms) if terms else "0"))
    lines.append("total;")
    src[0] = "\n".join(lines) + "\n"
    return src
