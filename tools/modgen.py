"""Source synthesis for C09: given a DAG (deps[m] = modules m imports, m imports only higher numbers) produce the
TypeScript of every module.  Every module logs its load, exports a value that depends on all its imports
(so a body that runs before its dependencies yields a wrong total), a live counter with a mutator, a default
export, and re-exports the counter of its first dependency (live bindings through re-export chains).
Import kinds (named / namespace / default+named) and equivalent spellings of the same path are chosen per edge."""
import random

BASE = "/p/"     # directory of the module files; set by gen_sources ("/" = directly under the root, "/a/b/" = nested)


def spellings():
    s = ["./m{d}.ts", "././m{d}.ts", "./x/../m{d}.ts", "./x/y/../../m{d}.ts", ".//m{d}.ts", BASE + "m{d}.ts", BASE + "./x/../m{d}.ts", "./lib/../m{d}.ts"]
    if BASE != "/":
        last = BASE.rstrip("/").rsplit("/", 1)[-1]
        s.append("../" + last + "/m{d}.ts")
    return s


def spell(rnd, d, plain=False):
    return ("./m{d}.ts" if plain else rnd.choice(spellings())).format(d=d)


def hops(deps, m):
    """length of the first-dependency chain below m (m -> deps[m][0] -> ...)"""
    k = 0
    while deps[m]:
        m = deps[m][0]; k += 1
    return k


def gen_sources(deps, rnd, plain=False, base="/p/"):
    global BASE
    BASE = base
    n = len(deps) - 1
    src = {}
    for m in range(1, n + 1):
        lines = []; terms = []
        for d in deps[m]:
            kind = "named" if plain else rnd.choice(["named", "namespace", "default"])
            if kind == "named":
                lines.append('import { v as v%d } from "%s";' % (d, spell(rnd, d, plain))); terms.append("v%d" % d)
            elif kind == "namespace":
                lines.append('import * as ns%d from "%s";' % (d, spell(rnd, d, plain))); terms.append("ns%d.v" % d)
            else:
                lines.append('import def%d from "%s";' % (d, spell(rnd, d, plain))); terms.append("def%d" % d)
        lines.append('console.log("LOAD %d");' % m)
        lines.append("export let cnt: number = 0;")
        lines.append("export function bump(): void { cnt = cnt + 1; }")
        lines.append("export const v: number = %s;" % " + ".join([str(m)] + terms))
        lines.append("export default v;")
        if deps[m]:
            d0 = deps[m][0]
            lines.append('export { cnt as rcnt, bump as rbump } from "%s";' % spell(rnd, d0, plain))
            # longer re-export chains: r2cnt of m is rcnt of its first dependency (two hops), r3cnt three hops
            if hops(deps, d0) >= 1:
                lines.append('export { rcnt as r2cnt, rbump as r2bump } from "%s";' % spell(rnd, d0, plain))
            if hops(deps, d0) >= 2:
                lines.append('export { r2cnt as r3cnt, r2bump as r3bump } from "%s";' % spell(rnd, d0, plain))
        src[m] = "\n".join(lines) + "\n"
    lines = []; terms = []; body = []
    for d in deps[0]:
        kind = "named" if plain else rnd.choice(["named", "namespace", "default"])
        if kind == "named":
            lines.append('import { v as v%d, cnt as cnt%d, bump as bump%d } from "%s";' % (d, d, d, spell(rnd, d, plain)))
            terms.append("v%d" % d); cnt, bump = "cnt%d" % d, "bump%d" % d
        elif kind == "namespace":
            lines.append('import * as ns%d from "%s";' % (d, spell(rnd, d, plain)))
            terms.append("ns%d.v" % d); cnt, bump = "ns%d.cnt" % d, "ns%d.bump" % d
        else:
            lines.append('import def%d from "%s";' % (d, spell(rnd, d, plain)))
            lines.append('import { cnt as cnt%d, bump as bump%d } from "%s";' % (d, d, spell(rnd, d, plain)))
            terms.append("def%d" % d); cnt, bump = "cnt%d" % d, "bump%d" % d
        body.append("{ const b = %s; %s(); %s(); live.push(%s - b); }" % (cnt, bump, bump, cnt))
        if deps[d]:
            lines.append('import { rcnt as rcnt%d, rbump as rbump%d } from "%s";' % (d, d, spell(rnd, d, plain)))
            body.append("{ const b = rcnt%d; rbump%d(); rbump%d(); live.push(rcnt%d - b); }" % (d, d, d, d))
            for h in (2, 3):
                if hops(deps, d) >= h:
                    if plain or rnd.random() < 0.5:
                        lines.append('import { r%dcnt as r%dcnt%d, r%dbump as r%dbump%d } from "%s";' % (h, h, d, h, h, d, spell(rnd, d, plain)))
                        body.append("{ const b = r%dcnt%d; r%dbump%d(); r%dbump%d(); live.push(r%dcnt%d - b); }" % (h, d, h, d, h, d, h, d))
                    else:
                        lines.append('import * as nsr%d_%d from "%s";' % (h, d, spell(rnd, d, plain)))
                        body.append("{ const b = nsr%d_%d.r%dcnt; nsr%d_%d.r%dbump(); nsr%d_%d.r%dbump(); live.push(nsr%d_%d.r%dcnt - b); }" % (h, d, h, h, d, h, h, d, h, h, d, h))
    lines.append('console.log("LOAD 0");')
    lines.append("const live: number[] = [];")
    lines += body
    lines.append('console.log("LIVE " + live.join(","));')
    lines.append("export const total: number = %s;" % (" + ".join(terms) if terms else "0"))
    lines.append("total;")
    src[0] = "\n".join(lines) + "\n"
    return src
