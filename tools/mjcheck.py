"""Shared judging logic for the MiniJS-based checks (C01 C02 C03 C07 C19 ...):
given programs, the spec's expected traces, optional node traces and recorded implementation traces, decide for
every program: unjudged / agrees / attributed to a known finding / VIOLATION."""
import json, os, random, subprocess, collections
import vlib, minijs as M, minijs_gen as G
from vlib import log


def gen_programs(seed, n, objects=True, gens=True, orders=False, first_id=0, limit=120):
    rng = random.Random(seed)
    progs = []
    for i in range(n):
        g = G.Gen(rng); g.objects = objects; g.gens = gens; g.orders = orders; g.limit = limit
        progs.append(g.program(first_id + i))
    return progs


def load_c01_findings(props=("C01",)):
    """open findings keyed by a MiniJS ghost feature: feature -> finding.  The C01 ones describe defects of the language
    core and are shared by every check that runs MiniJS programs."""
    out = {}
    for p in props:
        for f in vlib.load_known(p):
            k = f.get("key", {})
            if k.get("kind") == "minijs" and "feature" in k:
                out[k["feature"]] = f
    return out


def replay_witnesses(exe, findings):
    """a finding only excuses programs while its witness still fails on the current tree"""
    jobs = []; order = []
    for feat, f in findings.items():
        w = f.get("witness_program")
        if not w: continue
        if w.get("async"):
            src = 'import { LOG, ERR } from "verif:host";\nimport { order } from "tsrun:host";\ntry {\n' + w["body"] + '\n} catch (e) { ERR(e); }\n'
        else:
            src = 'import { LOG, ERR } from "verif:host";\n(function () { "use strict"; try {\n' + w["body"] + '\n} catch (e) { ERR(e); } })();\n'
        jobs.append({"id": len(order), "source": src, "resp": w.get("resp", []), "mode": "deferred" if w.get("async") else "immediate", "path": "/p/main.ts", "max_steps": 50000})
        order.append(feat)
    res = M.run_jobs(exe, "prog", jobs, nproc=min(8, max(1, len(jobs))))
    live = {}
    for i, feat in enumerate(order):
        got = M.impl_events(res[i])
        exp = findings[feat]["witness_program"]["expected"]
        live[feat] = (got != exp)
    for feat in findings:
        live.setdefault(feat, True)
    return live


class Judge:
    def __init__(self, check, exe, label="program", props=("C01",)):
        self.c = check; self.exe = exe; self.label = label
        self.findings = load_c01_findings(props)
        self.live = replay_witnesses(exe, self.findings)
        self.stats = collections.Counter()
        self.known_counts = collections.Counter()

    def excuse(self, feats):
        """the known finding (feature) that explains a failing program, or None"""
        for f in sorted(feats):
            if f in self.findings and self.live.get(f):
                return f
        return None

    def judge(self, P, exprec, node_ev, impl, source, what="", extra_feat=None):
        """returns 'unjudged' | 'ok' | 'known' | 'violation'"""
        e = M.expected_events(exprec)
        if e is None:
            self.stats["unmodelled_or_nonterminating"] += 1; return "unjudged"
        if node_ev is not None and node_ev != e:
            self.stats["spec_disagrees_with_reference_engine"] += 1
            try:
                import json, os
                with open(os.path.join(os.path.dirname(os.path.dirname(os.path.abspath(__file__))), "build", "spec_vs_node.jsonl"), "a") as f:
                    f.write(json.dumps({"what": what, "source": source, "spec": e, "node": node_ev, "feat": exprec.get("feat", [])}) + "\n")
            except Exception:
                pass
            return "unjudged"
        self.stats["judged"] += 1
        a = M.impl_events(impl)
        if a == e and not impl.get("stale"):
            self.stats["agree"] += 1; return "ok"
        feats = set(exprec.get("feat", [])) | set(extra_feat or [])
        k = M.first_diff(e, a)
        if a == e and impl.get("stale"):
            desc = "use of a reclaimed object (stale handle) during the run: %s" % impl["stale"][:3]
        else:
            desc = "event %d: expected %s, got %s (status %s %s)" % (k, e[k:k + 1], a[k:k + 1], impl.get("status"), impl.get("err") or "")
        fx = self.excuse(feats)
        if fx:
            self.known_counts[fx] += 1
            self.c.known_hit.setdefault(self.findings[fx]["id"], {"finding": self.findings[fx], "count": 0})["count"] += 1
            self.stats["attributed_to_known_finding"] += 1
            return "known"
        self.c.report({"kind": "minijs", "features": sorted(feats), "where": what},
                      {"program_id": P["id"], "source": source, "expected": e, "got": a, "status": impl.get("status"), "err": impl.get("err"), "features": sorted(feats)},
                      "%s %s %s: %s\n%s" % (self.label, P["id"], what, desc, source[:1500]))
        self.stats["violations"] += 1
        return "violation"

    def announce_dead_findings(self):
        for feat, alive in self.live.items():
            if not alive:
                log("note: the witness of known finding %s no longer fails on this tree; it excuses nothing in this run" % self.findings[feat]["id"])
