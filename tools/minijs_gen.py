#!/usr/bin/env python3
"""Random MiniJS programs as flattened node tables + JS/TS printer."""
import json, random, sys

class B:
    def __init__(self): self.nodes=[]
    def add(self, **d):
        if d.get('ty') in ('func','funcdecl'): d.setdefault('gen',0); d.setdefault('defs',[0]*len(d.get('params',[])))
        self.nodes.append(d); return len(self.nodes)
def cs(s): return [ord(c) for c in s]

class Gen:
    def __init__(self, rng, feats=None):
        self.r=rng; self.b=B(); self.cnt=0; self.feats=set(); self.limit=120
    def fresh(self, p='v'):
        self.cnt+=1; return f"{p}{self.cnt}"
    # scope = dict(names=[(name,kind)], funcs=[(name,arity)], inloop=bool, labels=[...], infunc=bool)
    def lit(self):
        r=self.r; b=self.b
        c=r.choice(['num','num','num','str','str','bool','undef','null','nan','inf'])
        if c=='num': return b.add(ty='num', v=r.choice([0,1,2,3,5,10,-1,-7]))
        if c=='str': return b.add(ty='str', cs=cs(r.choice(['','a','b','ab','10','9',' 7 ','x1'])))
        if c=='bool': return b.add(ty='bool', v=r.choice([0,1]))
        if c=='inf': return b.add(ty='inf', s=r.choice([1,-1]))
        return b.add(ty=c)
    def expr(self, sc, d):
        r=self.r; b=self.b
        if len(b.nodes) > self.limit: d=0
        vars_=[n for n,k in sc['names']]
        choices=['lit']*3
        if vars_: choices+=['var']*4
        if d>0:
            choices+=['bin']*4+['logical','unary','cond']
            if any(k!='const' for n,k in sc['names']): choices+=['assign','update','lassignv']
            if getattr(self,'objects',False) and vars_: choices+=['lassignm']
            if sc.get('classes') and getattr(self,'objects',False): choices+=['newcls']*3+['instanceof','clsstatic']
            if sc.get('inderived_method'): choices+=['supermcall']*2
            if getattr(self,'ext2',True):
                choices+=['tmpl']
                if vars_: choices+=['cassignv']
                if getattr(self,'objects',False): choices+=['ochain','spreadlit']+(['cassignm'] if vars_ else [])
            if sc['funcs']: choices+=['call']*2
            if d>1: choices+=['func']
        if getattr(self,'orders',False) and d>0: choices+=['order']*2
        if sc.get('ingen') and d>0: choices+=['yield']*3
        if getattr(self,'gens',False) and sc.get('gvars') and d>0: choices+=['genop']*4
        if getattr(self,'objects',False):
            if d>0: choices+=['arrlit','objlit','member','member','index','setmember','setindex','mcall']
            if sc['infunc'] and d>0: choices+=['this']
        c=r.choice(choices)
        if c=='order': return b.add(ty='order', a=self.lit())
        if c=='yield': return b.add(ty='yield', a=(self.expr(sc,d-1) if r.random()<0.85 else 0))
        if c=='genop':
            gv=r.choice(sc['gvars']); op=r.choice(['next','next','next','return','throw'])
            call=b.add(ty='mcall', a=b.add(ty='var', name=gv), key=cs(op), args=([self.expr(sc,d-1)] if r.random()<0.6 else []))
            return b.add(ty='member', a=call, key=cs(r.choice(['value','value','done'])))
        KEYS=['a','b','k1','0','1','length']
        if c=='arrlit': return b.add(ty='arrlit', xs=[self.expr(sc,d-1) for _ in range(r.choice([0,1,2,3]))])
        if c=='objlit':
            n=r.choice([0,1,2,3]); ks=[r.choice(KEYS[:5]) for _ in range(n)]
            vals=[]
            for kk in ks:
                if r.random()<0.25 and d>1:
                    params=[self.fresh('p') for _ in range(r.choice([0,1]))]
                    body=self.funcbody(sc, params, d-2)
                    vals.append(b.add(ty='func', params=params, body=body, name='', arrow=r.choice([0,0,1])))
                else: vals.append(self.expr(sc,d-1))
            return b.add(ty='objlit', keys=[cs(x) for x in ks], vals=vals)
        if c=='member': return b.add(ty='member', a=self.expr(sc,d-1), key=cs(r.choice(KEYS+(['f1','f2','m1','g1','g1','g2'] if sc.get('classes') else []))))
        if c=='index': return b.add(ty='index', a=self.expr(sc,d-1), b=self.expr(sc,d-1))
        if c=='setmember':
            base=b.add(ty='var', name=r.choice(vars_)) if vars_ else self.expr(sc,d-1)
            return b.add(ty='setmember', a=base, key=cs(r.choice(KEYS[:5]+(['g1','g1','g2'] if sc.get('classes') else []))), c=self.expr(sc,d-1))
        if c=='setindex':
            base=b.add(ty='var', name=r.choice(vars_)) if vars_ else self.expr(sc,d-1)
            return b.add(ty='setindex', a=base, b=b.add(ty='num', v=r.choice([0,1,2])) if r.random()<0.7 else self.expr(sc,d-1), c=self.expr(sc,d-1))
        if c=='mcall':
            base=b.add(ty='var', name=r.choice(vars_)) if vars_ else self.expr(sc,d-1)
            return b.add(ty='mcall', a=base, key=cs(r.choice(KEYS[:5]+(['m1','m1','m2'] if sc.get('classes') else []))), args=[self.expr(sc,d-1) for _ in range(r.choice([0,1]))])
        if c=='this': return b.add(ty='this')
        if c=='lit': return self.lit()
        if c=='var':
            if r.random()<0.03: return b.add(ty='var', name='undeclared_zz')
            return b.add(ty='var', name=r.choice(vars_))
        if c=='bin' and getattr(self,'objects',False) and r.random()<0.12:
            # `in`: keys that are own, inherited (toString), array indices / length, or absent
            left=b.add(ty='str', cs=cs(r.choice(['a','b','k1','0','1','2','length','toString','push','zz']))) if r.random()<0.7 else (b.add(ty='num', v=r.choice([0,1,2,5])) if r.random()<0.6 else self.expr(sc,d-1))
            return b.add(ty='bin', op='in', a=left, b=self.expr(sc,d-1))
        if c=='bin':
            op=r.choice(['+','+','-','*','%','<','<=','>','>=','==','!=','===','!=='])
            return b.add(ty='bin', op=op, a=self.expr(sc,d-1), b=self.expr(sc,d-1))
        if c=='logical': return b.add(ty='logical', op=r.choice(['&&','||','??']), a=self.expr(sc,d-1), b=self.expr(sc,d-1))
        if c=='unary':
            op=r.choice(['-','+','!','typeof','void'])
            if op=='typeof' and r.random()<0.5:
                return b.add(ty='typeofvar', name=r.choice(vars_+['undeclared_zz']) if vars_ else 'undeclared_zz')
            return b.add(ty='unary', op=op, a=self.expr(sc,d-1))
        if c=='cond': return b.add(ty='cond', a=self.expr(sc,d-1), b=self.expr(sc,d-1), c=self.expr(sc,d-1))
        if c=='assign':
            n=r.choice([n for n,k in sc['names'] if k!='const'] if r.random()<0.95 else vars_)
            return b.add(ty='assign', name=n, a=self.expr(sc,d-1))
        if c=='lassignv':
            n=r.choice([n for n,k in sc['names'] if k!='const'])
            return b.add(ty='lassignv', op=r.choice(['||=','&&=','??=','??=']), name=n, a=self.expr(sc,d-1))
        if c=='newcls':
            cn,ar=r.choice(sc['classes'])
            return b.add(ty='new', f=b.add(ty='var', name=cn), args=[self.expr(sc,d-1) for _ in range(r.choice([ar,ar,max(0,ar-1)]))])
        if c=='instanceof':
            cn,ar=r.choice(sc['classes'])
            return b.add(ty='bin', op='instanceof', a=self.expr(sc,d-1), b=b.add(ty='var', name=cn) if r.random()<0.9 else self.expr(sc,d-1))
        if c=='clsstatic':
            cn,ar=r.choice(sc['classes'])
            if r.random()<0.5: return b.add(ty='member', a=b.add(ty='var', name=cn), key=cs(r.choice(['s1','s2','sm1','a'])))
            return b.add(ty='mcall', a=b.add(ty='var', name=cn), key=cs(r.choice(['sm1','sm1','s1','m1'])), args=[self.expr(sc,d-1) for _ in range(r.choice([0,1]))])
        if c=='supermcall':
            return b.add(ty='supermcall', key=cs(r.choice(['m1','m2'])), args=[self.expr(sc,d-1) for _ in range(r.choice([0,1]))])
        if c=='cassignv':
            n=r.choice([n for n,k in sc['names'] if k!='const'] if (r.random()<0.93 and any(k!='const' for n,k in sc['names'])) else vars_)
            return b.add(ty='cassignv', op=r.choice(['+','+','-','*','%']), name=n, a=self.expr(sc,d-1))
        if c=='cassignm':
            return b.add(ty='cassignm', op=r.choice(['+','+','-','*','%']), a=b.add(ty='var', name=r.choice(vars_)), key=cs(r.choice(['a','b','k1','0','1'])), c=self.expr(sc,d-1))
        if c=='tmpl':
            n=r.choice([1,1,2,3])
            return b.add(ty='tmpl', quasis=[cs(r.choice(['','','a','-',' ','x1'])) for _ in range(n+1)], xs=[self.expr(sc,d-1) for _ in range(n)])
        if c=='ochain':
            base=b.add(ty='var', name=r.choice(vars_)) if (vars_ and r.random()<0.7) else self.expr(sc,d-1)
            return b.add(ty='ochain', a=base, keys=[cs(r.choice(['a','b','k1','0','1','length'])) for _ in range(r.choice([1,1,2]))])
        if c=='spreadlit':
            xs=[]
            for _ in range(r.choice([1,2,3])):
                e=self.expr(sc,d-1)
                xs.append(b.add(ty='spread', a=e) if r.random()<0.6 else e)
            return b.add(ty='arrlit', xs=xs)
        if c=='lassignm':
            return b.add(ty='lassignm', op=r.choice(['||=','&&=','??=','??=']), a=b.add(ty='var', name=r.choice(vars_)), key=cs(r.choice(['a','b','k1','0','1'])), c=self.expr(sc,d-1))
        if c=='update':
            n=r.choice([n for n,k in sc['names'] if k!='const'])
            return b.add(ty='update', op=r.choice(['++','--']), prefix=r.choice([0,1]), name=n)
        if c=='call' and getattr(self,'objects',False) and not getattr(self,'orders',False) and r.random()<0.4:
            # [[Construct]] on a declared function (arrow functions and generators are not constructors: TypeError)
            fn,ar=r.choice(sc['funcs']+[(g,a) for g,a in sc.get('gfuncs',[])][:1])
            return b.add(ty='new', f=b.add(ty='var', name=fn), args=[self.expr(sc,d-1) for _ in range(r.choice([ar,ar,max(0,ar-1)]))])
        if c=='call':
            fn,ar=r.choice(sc['funcs'])
            nargs=r.choice([ar,ar,max(0,ar-1),ar+1])
            return b.add(ty='call', f=b.add(ty='var', name=fn), args=[self.expr(sc,d-1) for _ in range(nargs)])
        if c=='func':
            # immediately-invoked closure or function value
            params=[self.fresh('p') for _ in range(r.choice([0,1,2]))]
            arrow=r.choice([0,1])
            self._next_concise=bool(arrow and r.random()<0.35)      # printed as an expression-bodied arrow
            body=self.funcbody(sc, params, d-1)
            f=b.add(ty='func', params=params, body=body, name='', arrow=arrow, defs=self.defaults(sc, params))
            if r.random()<0.7:
                return b.add(ty='call', f=f, args=[self.expr(sc,d-1) for _ in params])
            return f
    def defaults(self, sc, params):
        """default initialisers: simple expressions over outer names and EARLIER parameters"""
        out=[]
        for i,p in enumerate(params):
            if getattr(self,'param_defaults',True) and self.r.random()<0.3:
                inner=dict(sc); inner=self.child(sc); inner['names']=[(n,k) for n,k in sc['names'] if n not in params]+[(q,'let') for q in params[:i]]
                inner['funcs']=[]; inner['gvars']=[]; inner['ingen']=False; inner['inderived_method']=False
                save=(getattr(self,'orders',False)); self.orders=False
                out.append(self.expr(inner,1)); self.orders=save
            else: out.append(0)
        return out
    def funcbody(self, sc, params, d):
        inner=dict(classes=list(sc.get('classes',[])), names=[(n,k) for n,k in sc['names'] if n not in params]+[(p,'let') for p in params], own=list(params), nested=True, funcs=list(sc['funcs']), inloop=False, labels=[], infunc=True, ingen=getattr(self,'_next_is_gen',False), gvars=list(sc.get('gvars',[])), gfuncs=list(sc.get('gfuncs',[])))
        inner['inderived_method']=bool(getattr(self,'_method_ctx',False)); self._method_ctx=False      # super.m() only directly in a method of a derived class
        concise=getattr(self,'_next_concise',False); self._next_concise=False
        if concise and not inner['ingen']:
            self._next_is_gen=False
            return self.b.add(ty='block', xs=[self.b.add(ty='return', a=self.expr(inner,max(1,d)))])
        self._next_is_gen=False
        xs=self.stmts(inner, d, self.r.randint(1,3))
        if self.r.random()<0.7: xs.append(self.b.add(ty='return', a=self.expr(inner,1)))
        return self.b.add(ty='block', xs=xs)
    def classdecl(self, sc, d):
        """class C [extends P] { fields; static fields; constructor; methods; static methods }"""
        r=self.r; b=self.b
        name=self.fresh('C')
        parent=''
        if sc.get('classes') and r.random()<0.55: parent=r.choice(sc['classes'])[0]
        elif r.random()<0.04 and sc['names']: parent=r.choice([n for n,k in sc['names']])       # heritage that is (usually) not a constructor
        derived=bool(parent)
        # instance fields: initialisers may read `this` (earlier fields, inherited state)
        fkeys=[]; finit=[]
        fsc=self.child(sc, inloop=False, inswitch=False, labels=[], looplabels=[]); fsc['infunc']=True; fsc['funcs']=[]
        for kname in r.sample(['f1','f2','a','b'], r.choice([0,1,2])):
            fkeys.append(cs(kname)); finit.append(self.expr(fsc,1) if r.random()<0.8 else 0)
        # static fields: evaluated once, at the declaration
        skeys=[]; sinit=[]
        ssc=self.child(sc, inloop=False, inswitch=False, labels=[], looplabels=[]); ssc['infunc']=False; ssc['funcs']=[]
        for kname in r.sample(['s1','s2'], r.choice([0,0,1,2])):
            skeys.append(cs(kname)); sinit.append(self.expr(ssc,1))
        # constructor
        hasctor=1 if r.random()<0.7 else 0
        params=[]; body=0
        if hasctor:
            params=[self.fresh('p') for _ in range(r.choice([0,1,2]))]
            inner=dict(classes=list(sc.get('classes',[])), names=[(n,k) for n,k in sc['names'] if n not in params]+[(p,'let') for p in params], own=list(params), nested=True, funcs=list(sc['funcs']), inloop=False, labels=[], infunc=True, ingen=False, gvars=[], gfuncs=[])
            xs=[]
            if derived:
                pa=dict(sc.get('classes',[])).get(parent, 0)
                sup=b.add(ty='exprstmt', a=b.add(ty='supercall', args=[self.expr(dict(inner, infunc=False),1) for _ in range(pa)]))
                xs.append(sup)
            for kname in r.sample(['f1','f2','k1'], r.choice([0,1,2])):
                xs.append(b.add(ty='exprstmt', a=b.add(ty='setmember', a=b.add(ty='this'), key=cs(kname), c=self.expr(inner,1))))
            inner['noreturn']=True
            xs+=[x for x in self.stmts(inner, max(0,d-2), r.randint(0,2))]
            body=b.add(ty='block', xs=xs)
        # methods
        mkeys=[]; mfuncs=[]; smkeys=[]; smfuncs=[]
        for kname in r.sample(['m1','m2'], r.choice([0,1,1,2])):
            ps=[self.fresh('p') for _ in range(r.choice([0,1]))]
            msc=dict(sc); msc=self.child(sc); msc['inderived_method']=derived
            self._method_ctx=derived
            fb=self.funcbody(msc, ps, max(0,d-1))
            mkeys.append(cs(kname)); mfuncs.append(b.add(ty='func', params=ps, body=fb, name=kname, arrow=0, defs=[0]*len(ps), gen=0))
        for kname in r.sample(['sm1'], r.choice([0,0,1])):
            ps=[self.fresh('p') for _ in range(r.choice([0,1]))]
            fb=self.funcbody(self.child(sc), ps, max(0,d-1))
            smkeys.append(cs(kname)); smfuncs.append(b.add(ty='func', params=ps, body=fb, name=kname, arrow=0, defs=[0]*len(ps), gen=0))
        # accessors: a class may declare only one half; the other half is NOT inherited from a parent that has it
        akeys=[]; agets=[]; asets=[]
        for kname in r.sample(['g1','g2'], r.choice([0,1,1,2])):
            both=r.choice(['g','s','gs','gs'])
            gfn=sfn=0
            if 'g' in both:
                self._method_ctx=derived
                gfn=b.add(ty='func', params=[], body=self.funcbody(self.child(sc), [], max(0,d-1)), name=kname, arrow=0, defs=[], gen=0)
            if 's' in both:
                sp=self.fresh('p')
                inner=dict(classes=list(sc.get('classes',[])), names=[(n,k) for n,k in sc['names'] if n!=sp]+[(sp,'let')], own=[sp], nested=True, funcs=list(sc['funcs']), inloop=False, labels=[], infunc=True, ingen=False, gvars=[], gfuncs=[], noreturn=True)
                xs=[b.add(ty='exprstmt', a=b.add(ty='setmember', a=b.add(ty='this'), key=cs(r.choice(['k1','f1'])), c=(b.add(ty='var', name=sp) if r.random()<0.7 else self.expr(inner,1))))]
                xs+=self.stmts(inner, 0, r.randint(0,1))
                sfn=b.add(ty='func', params=[sp], body=b.add(ty='block', xs=xs), name=kname, arrow=0, defs=[0], gen=0)
            akeys.append(cs(kname)); agets.append(gfn); asets.append(sfn)
        node=b.add(ty='classdecl', akeys=akeys, agets=agets, asets=asets, name=name, parent=parent, params=params, defs=[0]*len(params), body=body, hasctor=hasctor,
                   fkeys=fkeys, finit=finit, skeys=skeys, sinit=sinit, mkeys=mkeys, mfuncs=mfuncs, smkeys=smkeys, smfuncs=smfuncs)
        self.bind(sc, name, 'let')
        sc.setdefault('classes',[]).append((name, len(params) if hasctor else (dict(sc.get('classes',[])).get(parent,0) if derived else 0)))
        return node
    def forloop(self, sc, d, label):
        """for (init; test; update) body: let in the head (a fresh copy of the binding per iteration, observable through
        closures), var / expression / empty head, missing test (the body breaks), missing update (the body counts)"""
        r=self.r; b=self.b
        i=self.fresh('i'); lim=r.choice([1,2,3]); pre=[]
        form=r.choice(['let','let','let','var','expr','none'])
        if form=='let': init=b.add(ty='decl', kind='let', name=i, a=b.add(ty='num', v=0))
        elif form=='var': init=b.add(ty='decl', kind='var', name=i, a=b.add(ty='num', v=0))
        else:
            pre.append(b.add(ty='decl', kind='let', name=i, a=b.add(ty='num', v=0) if form=='none' else 0))
            init=b.add(ty='assign', name=i, a=b.add(ty='num', v=0)) if form=='expr' else 0
        lt=lambda: b.add(ty='bin', op='<', a=b.add(ty='var', name=i), b=b.add(ty='num', v=lim))
        inc=lambda: b.add(ty='update', op='++', prefix=r.choice([0,1]), name=i) if r.random()<0.7 else b.add(ty='assign', name=i, a=b.add(ty='bin', op='+', a=b.add(ty='var', name=i), b=b.add(ty='num', v=1)))
        hastest=r.random()<0.85; hasupd=r.random()<0.8
        kw=dict(inloop=True, inswitch=False)
        if label: kw.update(labels=sc['labels']+[label], looplabels=sc.get('looplabels',[])+[label])
        if form!='let': sc['names'].append((i,'let'))
        inner=self.child(sc, **kw)
        inner['names']=[(n,k) for n,k in inner['names'] if n!=i]+[(i,'const')]      # the generated body only reads the counter ...
        head=[]; tail=[]
        if not hastest:       # ... the loop is left by a break at the top of the body
            head.append(b.add(ty='if', a=b.add(ty='unary', op='!', a=lt()), b=b.add(ty='block', xs=[b.add(ty='break', label='')]), c=0))
        cap=None
        if r.random()<0.4:    # a closure per iteration, called after the loop
            cap=self.fresh('v'); self.bind(sc, cap, 'const'); pre.append(b.add(ty='decl', kind='let', name=cap, a=b.add(ty='func', params=[], body=b.add(ty='block', xs=[b.add(ty='return', a=b.add(ty='num', v=-1))]), name='', arrow=1, defs=[])))
            head.append(b.add(ty='exprstmt', a=b.add(ty='assign', name=cap, a=b.add(ty='func', params=[], body=b.add(ty='block', xs=[b.add(ty='return', a=b.add(ty='var', name=i))]), name='', arrow=1, defs=[]))))
        if r.random()<0.3:    # ... except for explicit steps: they must survive into the next iteration's copy
            head.append(b.add(ty='exprstmt', a=b.add(ty='update', op='++', prefix=0, name=i)))
        if not hasupd:
            # without an update expression the body counts (before anything that could `continue`)
            head.append(b.add(ty='exprstmt', a=inc()))
        body=b.add(ty='block', xs=head+self.stmts(inner, d-1, r.randint(1,3))+tail)
        loop=b.add(ty='for', init=init, test=lt() if hastest else 0, upd=inc() if hasupd else 0, body=body)
        if label: loop=b.add(ty='labeled', label=label, body=loop)
        out=pre+[loop]
        if cap:
            out.append(b.add(ty='log', a=b.add(ty='call', f=b.add(ty='var', name=cap), args=[])))
        if form!='let': out.append(b.add(ty='log', a=b.add(ty='var', name=i)))
        return out
    def stmts(self, sc, d, n):
        out=[]
        late=[]
        if d>0 and getattr(self,'hoisting',True) and not sc.get('ingen') and self.r.random()<0.2:
            # a function declared at the END of this statement list: the statements before it may already call it (hoisting)
            name=self.fresh('f'); params=[self.fresh('p') for _ in range(self.r.choice([0,1]))]
            body=self.funcbody(sc, params, d-1)
            sc['funcs'].append((name,len(params)))
            late.append(self.b.add(ty='funcdecl', name=name, params=params, body=body, defs=self.defaults(sc, params)))
        for _ in range(n):
            s=self.stmt(sc,d)
            if s is None: continue
            if isinstance(s,list): out+=s
            else: out.append(s)
        return out+late
    def shadow(self, sc, p=0.15):
        """an outer name to re-declare in the current scope (shadowing), or None.  Loop counters, generator objects and names
        already declared in this scope are left alone (a duplicate lexical declaration is an early error)."""
        if not getattr(self,'shadowing',True) or self.r.random()>=p: return None
        c=[n for n,k in sc['names'] if n not in sc.get('own',[]) and not n.startswith(('i','g'))]
        return self.r.choice(c) if c else None
    def bind(self, sc, name, kind):
        sc['names']=[(n,k) for n,k in sc['names'] if n!=name]+[(name,kind)]
        sc.setdefault('own',[]).append(name)
    def child(self, sc, **kw):
        c=dict(names=list(sc['names']), funcs=list(sc['funcs']), inloop=sc['inloop'], labels=list(sc['labels']), infunc=sc['infunc'], ingen=sc.get('ingen',False), gvars=list(sc.get('gvars',[])), gfuncs=list(sc.get('gfuncs',[])))
        c['own']=[]; c['nested']=True
        c['noreturn']=sc.get('noreturn',False); c['inderived_method']=sc.get('inderived_method',False) and not sc.get('_fnboundary'); c['inswitch']=sc.get('inswitch',False); c['looplabels']=list(sc.get('looplabels',[])); c['classes']=list(sc.get('classes',[]))
        c.update(kw); return c
    def stmt(self, sc, d):
        r=self.r; b=self.b
        if len(b.nodes) > self.limit: d=0
        ch=['log']*4+['decl']*3+['expr']*2
        if getattr(self,'ext2',True) and getattr(self,'objects',False): ch+=['ddecl']
        if d>0 and getattr(self,'classes',True) and getattr(self,'objects',False) and not sc.get('ingen') and not getattr(self,'orders',False): ch+=['classdecl']*2
        if d>0: ch+=['if']*2+['while']*2+['block','try','try','funcdecl','labeled','dowhile']
        if d>0 and getattr(self,'forswitch',True): ch+=['for']*2+['switch']*2+['lloop']
        if d>0 and getattr(self,'objects',False): ch+=['forof']*2
        if d>0 and getattr(self,'gens',False): ch+=['gendecl']*2
        if getattr(self,'gens',False) and sc.get('gfuncs'): ch+=['geninst']*3
        if sc['inloop']: ch+=['break','continue']
        elif sc.get('inswitch'): ch+=['break']
        if sc['labels']: ch+=['lbreak']
        if sc.get('looplabels'): ch+=['lcontinue']*2
        if sc['infunc'] and not sc.get('noreturn'): ch+=['return']
        ch+=['throw']
        c=r.choice(ch)
        if c=='log': return b.add(ty='log', a=self.expr(sc,2))
        if c=='expr': return b.add(ty='exprstmt', a=self.expr(sc,2))
        if c=='decl':
            kind=r.choice(['let','let','const','var'])
            sh=self.shadow(sc) if kind!='var' and sc.get('nested') else None
            name=sh or self.fresh()
            # the initialiser is generated BEFORE the name is bound: a reference to the shadowed outer name inside it
            # is a use of the new binding in its temporal dead zone, which is exactly what the specification says
            init=self.expr(sc,2) if (kind=='const' or r.random()<0.85) else 0
            n=b.add(ty='decl', kind=kind, name=name, a=init)
            self.bind(sc, name, kind)
            return n
        if c=='classdecl': return self.classdecl(sc, d)
        if c=='ddecl':
            kind=r.choice(['let','let','const','var'])
            shape=r.choice(['arr','obj'])
            src=self.expr(sc,2)       # generated BEFORE the names are bound (a reference to a shadowed name is a dead-zone access)
            n=r.choice([1,2,2,3]); names=[]; keys=[]; defs=[]
            hasrest=1 if (n>1 and r.random()<0.3) else 0
            for j in range(n):
                sh=self.shadow(sc) if (kind!='var' and sc.get('nested') and not names) else None
                names.append(sh or self.fresh())
            for j,nm in enumerate(names):
                isrest=hasrest and j==n-1
                if shape=='obj' and not isrest: keys.append(cs(r.choice(['a','b','k1','0','1','length'])))
                # default initialisers see the names bound before them
                if not isrest and r.random()<0.35:
                    inner=self.child(sc); inner['funcs']=[]
                    for q in names[:j]: self.bind(inner, q, 'let')
                    save=getattr(self,'orders',False); self.orders=False
                    defs.append(self.expr(inner,1)); self.orders=save
                else: defs.append(0)
            for nm in names: self.bind(sc, nm, kind)
            return b.add(ty='ddecl', kind=kind, shape=shape, names=names, keys=keys, defs=defs, rest=hasrest, a=src)
        if c=='if':
            t=b.add(ty='block', xs=self.stmts(self.child(sc), d-1, r.randint(1,2)))
            e=b.add(ty='block', xs=self.stmts(self.child(sc), d-1, r.randint(1,2))) if r.random()<0.5 else 0
            return b.add(ty='if', a=self.expr(sc,2), b=t, c=e)
        if c in ('while','dowhile'):
            i=self.fresh('i'); lim=r.choice([1,2,3])
            dcl=b.add(ty='decl', kind='let', name=i, a=b.add(ty='num', v=0))
            sc['names'].append((i,'let'))
            inc=b.add(ty='exprstmt', a=b.add(ty='update', op='++', prefix=0, name=i))
            inner=self.child(sc, inloop=True)
            # counter must not be assigned by the body: hide it from the generator
            inner['names']=[(n,k) for n,k in inner['names'] if n!=i]+[(i,'const')]
            body=b.add(ty='block', xs=[inc]+self.stmts(inner, d-1, r.randint(1,3)))
            test=b.add(ty='bin', op='<', a=b.add(ty='var', name=i), b=b.add(ty='num', v=lim))
            return [dcl, b.add(ty=c, a=test, b=body)]
        if c=='block': return b.add(ty='block', xs=self.stmts(self.child(sc), d-1, r.randint(1,3)))
        if c=='for': return self.forloop(sc, d, None)
        if c=='lloop':
            # a label directly in front of a loop: `break L` and `continue L` from nested statements and loops
            l=self.fresh('L')
            kind=r.choice(['for','for','while','forof'] if getattr(self,'objects',False) else ['for','for','while'])
            if kind=='for': return self.forloop(sc, d, l)
            if kind=='forof':
                name=self.fresh('x')
                it=b.add(ty='arrlit', xs=[self.expr(sc,1) for _ in range(r.choice([1,2,3]))])
                inner=self.child(sc, inloop=True, labels=sc['labels']+[l], looplabels=sc.get('looplabels',[])+[l]); self.bind(inner, name, 'const')
                body=b.add(ty='block', xs=self.stmts(inner, d-1, r.randint(1,3)))
                return b.add(ty='labeled', label=l, body=b.add(ty='forof', kind='const', name=name, a=it, body=body))
            i=self.fresh('i'); lim=r.choice([1,2,3])
            dcl=b.add(ty='decl', kind='let', name=i, a=b.add(ty='num', v=0))
            sc['names'].append((i,'let'))
            inc=b.add(ty='exprstmt', a=b.add(ty='update', op='++', prefix=0, name=i))
            inner=self.child(sc, inloop=True, labels=sc['labels']+[l], looplabels=sc.get('looplabels',[])+[l])
            inner['names']=[(n,k) for n,k in inner['names'] if n!=i]+[(i,'const')]
            body=b.add(ty='block', xs=[inc]+self.stmts(inner, d-1, r.randint(1,3)))
            test=b.add(ty='bin', op='<', a=b.add(ty='var', name=i), b=b.add(ty='num', v=lim))
            return [dcl, b.add(ty='labeled', label=l, body=b.add(ty='while', a=test, b=body))]
        if c=='switch':
            pool=[lambda: b.add(ty='num', v=r.choice([0,1,2,3])), lambda: b.add(ty='str', cs=cs(r.choice(['a','b','1']))), lambda: b.add(ty='bool', v=1), lambda: b.add(ty='null'), lambda: b.add(ty='nan'), lambda: self.expr(sc,1)]
            disc=r.choice(pool[:2]+pool)() if r.random()<0.75 else self.expr(sc,2)
            n=r.randint(1,4); dflt=r.choice(list(range(n))+[-1])
            inner=self.child(sc, inswitch=True)        # the whole case block is ONE scope: a `let` of an earlier clause is visible (and maybe uninitialised) in a later one
            tests=[]; bodies=[]
            for j in range(n):
                tests.append(0 if j==dflt else r.choice(pool[:2]+pool[:2]+pool)())
                xs=self.stmts(inner, d-1, r.randint(0,2))
                if r.random()<0.55: xs.append(b.add(ty='break', label=''))
                bodies.append(xs)
            return b.add(ty='switch', a=disc, tests=tests, bodies=bodies)
        if c=='gendecl':
            name=self.fresh('g'); params=[self.fresh('p') for _ in range(r.choice([0,1]))]
            self._next_is_gen=True
            body=self.funcbody(sc, params, max(1,d-1))
            sc.setdefault('gfuncs',[]).append((name,len(params)))
            return b.add(ty='funcdecl', name=name, params=params, body=body, gen=1)
        if c=='geninst':
            fn,ar=r.choice(sc['gfuncs']); name=self.fresh('it')
            call=b.add(ty='call', f=b.add(ty='var', name=fn), args=[self.expr(sc,1) for _ in range(ar)])
            sc['names'].append((name,'const')); sc.setdefault('gvars',[]).append(name)
            return b.add(ty='decl', kind='const', name=name, a=call)
        if c=='forof':
            name=self.fresh('x'); kind=r.choice(['let','const'])
            it=b.add(ty='arrlit', xs=[self.expr(sc,1) for _ in range(r.choice([0,1,2,3]))]) if r.random()<0.7 else self.expr(sc,2)
            name=self.shadow(sc) or name
            inner=self.child(sc, inloop=True); self.bind(inner, name, kind)
            body=b.add(ty='block', xs=self.stmts(inner, d-1, r.randint(1,3)))
            return b.add(ty='forof', kind=kind, name=name, a=it, body=body)
        if c=='try':
            t=b.add(ty='block', xs=self.stmts(self.child(sc), d-1, r.randint(1,3)))
            hasc=r.random()<0.7; hasf=(not hasc) or r.random()<0.6
            cname=(self.shadow(sc, 0.2) or self.fresh('e')) if hasc and r.random()<0.85 else ''
            cb=0; after=[]
            if hasc:
                csc=self.child(sc)
                if cname: self.bind(csc, cname, 'let')      # re-declaring the catch parameter in its block is an early error: it stays in 'own'
                pre=[]
                outer=[n for n,k in sc['names'] if not n.startswith(('i','g'))]
                if not cname and outer and getattr(self,'shadowing',True) and r.random()<0.6:
                    # `catch { let x = ..; }` with an outer x: the catch block is a scope of its own even without a parameter
                    nm=r.choice(outer)
                    pre.append(b.add(ty='decl', kind='let', name=nm, a=self.lit()))
                    pre.append(b.add(ty='log', a=b.add(ty='var', name=nm)))
                    self.bind(csc, nm, 'let')
                    after.append(b.add(ty='log', a=b.add(ty='var', name=nm)))
                cb=b.add(ty='block', xs=pre+self.stmts(csc, d-1, r.randint(1,2)))
            fb=b.add(ty='block', xs=self.stmts(self.child(sc), d-1, r.randint(1,2))) if hasf else 0
            tr=b.add(ty='try', a=t, b=cb, cname=cname, c=fb)
            return [tr]+after if after else tr
        if c=='funcdecl':
            name=self.fresh('f'); params=[self.fresh('p') for _ in range(r.choice([0,1,2]))]
            sh=self.shadow(sc)
            if sh and params: params[0]=sh
            body=self.funcbody(sc, params, d-1)
            sc['funcs'].append((name,len(params)))
            return b.add(ty='funcdecl', name=name, params=params, body=body, defs=self.defaults(sc, params))
        if c=='labeled':
            l=self.fresh('L')
            inner=self.child(sc, labels=sc['labels']+[l])
            return b.add(ty='labeled', label=l, body=b.add(ty='block', xs=self.stmts(inner, d-1, r.randint(1,3))))
        if c=='break': return b.add(ty='break', label='')
        if c=='continue': return b.add(ty='continue', label='')
        if c=='lbreak': return b.add(ty='break', label=r.choice(sc['labels']))
        if c=='lcontinue': return b.add(ty='continue', label=r.choice(sc['looplabels']))
        if c=='return': return b.add(ty='return', a=self.expr(sc,1) if r.random()<0.8 else 0)
        if c=='throw':
            if r.random()<0.5: return None
            return b.add(ty='throw', a=self.expr(sc,1))
    def program(self, pid):
        sc=dict(names=[], funcs=[], inloop=False, labels=[], infunc=False, ingen=False, gvars=[], gfuncs=[])
        xs=self.stmts(sc, 3, self.r.randint(3,7))
        root=self.b.add(ty='program', xs=xs)
        resp=[({'k':'err'} if self.r.random()<0.2 else {'k':'val','v':self.r.choice([0,1,2,7,-3])}) for _ in range(16)]
        return dict(id=pid, root=root, nodes=self.b.nodes, resp=resp)

# ---------------- printer
def js_str(codes): return json.dumps(''.join(chr(c) for c in codes))
ASYNC=False
DECO=None   # random.Random for decoration choices, or None
DECO_USED=set()   # decoration kinds used while printing (reset by the caller)
DECO_AVOID=set()  # decoration kinds not to use (open findings: avoided in composite programs so they cannot mask new defects)
TYPES=[('number','prim'),('string','prim'),('any','prim'),('unknown','prim'),('number | string','union'),('Array<number>','generic_ref'),
       ('number[]','array'),('{ a: number; b?: string }','object'),('(x: number) => void','function'),('[number, string]','tuple'),
       ('Record<string, any>','generic_ref'),('T extends U ? X : Y','conditional'),('keyof typeof Math','keyof_typeof'),
       ('readonly number[]','readonly_array'),('Map<string, Array<{k: number}>>','nested_generic'),('A & B','intersection'),
       ('null | undefined','union'),('"lit" | 1 | true','literal_union'),('typeof globalThis','typeof'),('(new () => object)','constructor'),
       ('{ [K in keyof T]?: T[K] }','mapped'),('T["a"]["b"]','indexed'),('[first: number, ...rest: string[]]','named_tuple'),
       ('(this: Window, ...args: any[]) => asserts args is string[]','function_this_asserts'),('unique symbol','unique_symbol'),
       ('`a${string}`','template_literal'),('Array<Array<Array<number>>>','nested_generic'),('infer_ extends (infer R)[] ? R : never','conditional_infer')]
def use(tag): DECO_USED.add(tag)
def ty():
    pool=[x for x in TYPES if ('type:'+x[1]) not in DECO_AVOID] or TYPES
    t,k=DECO.choice(pool); use('type:'+k); return t
def av(tag): return tag in DECO_AVOID
def pr(P, n, ind=0):
    d=P['nodes'][n-1]; t=d['ty']; I='  '*ind
    if t=='order': return f"(await order({pr(P,d['a'],ind)}))"
    if t=='yield': return f"(yield {pr(P,d['a'],ind)})" if d['a'] else "(yield)" 
    def KS(codes): return ''.join(chr(c) for c in codes)
    if t=='arrlit': return '[' + ', '.join(pr(P,x,ind) for x in d['xs']) + ']'
    if t=='objlit': return '({' + ', '.join(f"{json.dumps(KS(k))}: {pr(P,v,ind)}" for k,v in zip(d['keys'],d['vals'])) + '})'
    if t=='member': return f"({pr(P,d['a'],ind)})[{json.dumps(KS(d['key']))}]"
    if t=='index': return f"({pr(P,d['a'],ind)})[{pr(P,d['b'],ind)}]"
    if t=='setmember': return f"(({pr(P,d['a'],ind)})[{json.dumps(KS(d['key']))}] = {pr(P,d['c'],ind)})"
    if t=='setindex': return f"(({pr(P,d['a'],ind)})[{pr(P,d['b'],ind)}] = {pr(P,d['c'],ind)})"
    if t=='mcall':
        c=f"({pr(P,d['a'],ind)})[{json.dumps(KS(d['key']))}]({', '.join(pr(P,a,ind) for a in d['args'])})"
        return f"(await {c})" if ASYNC else c
    if t=='this': return 'this'
    if t=='forof': return f"{I}for ({d['kind']} {d['name']} of {pr(P,d['a'],ind)}) {pr(P,d['body'],ind)}\n" 
    E=lambda x: pr(P,x,ind)
    if t=='num': return str(d['v']) if d['v']>=0 else f"({d['v']})"
    if t=='str': return js_str(d['cs'])
    if t=='bool': return 'true' if d['v'] else 'false'
    if t=='undef': return 'undefined'
    if t=='null': return 'null'
    if t=='nan': return 'NaN'
    if t=='inf': return 'Infinity' if d['s']==1 else '(-Infinity)'
    if t=='var':
        if DECO and DECO.random()<0.1: use('as'); return f"({d['name']} as {ty()})"
        if DECO and DECO.random()<0.05: use('angle'); return f"(<{DECO.choice(['any','unknown','number'])}>{d['name']})"
        if DECO and not av('satisfies') and DECO.random()<0.03: use('satisfies'); return f"({d['name']} satisfies {ty()})"
        if DECO and not av('as_chain') and DECO.random()<0.03: use('as_chain'); return f"({d['name']} as unknown as {ty()})"
        return d['name']
    if t=='typeofvar': return f"(typeof {d['name']})"
    if t=='assign': return f"({d['name']} = {E(d['a'])})"
    if t=='lassignv': return f"({d['name']} {d['op']} {E(d['a'])})"
    if t=='supercall': return f"super({', '.join(E(a) for a in d['args'])})"
    if t=='supermcall': return f"super.{''.join(chr(c) for c in d['key'])}({', '.join(E(a) for a in d['args'])})"
    if t=='cassignv': return f"({d['name']} {d['op']}= {E(d['a'])})"
    if t=='cassignm': return f"(({E(d['a'])})[{json.dumps(''.join(chr(c) for c in d['key']))}] {d['op']}= {E(d['c'])})"
    if t=='tmpl':
        def q(codes): return ''.join(chr(c) for c in codes).replace('\\','\\\\').replace('`','\\`').replace('$','\\$')
        return '`' + q(d['quasis'][0]) + ''.join('${' + E(x) + '}' + q(d['quasis'][i+1]) for i,x in enumerate(d['xs'])) + '`'
    if t=='ochain': return f"(({E(d['a'])})?." + ''.join('['+json.dumps(''.join(chr(c) for c in k))+']' for k in d['keys']) + ")"
    if t=='spread': return f"...{E(d['a'])}"
    if t=='lassignm': return f"(({E(d['a'])})[{json.dumps(''.join(chr(c) for c in d['key']))}] {d['op']} {E(d['c'])})"
    if t=='bin':
        r=f"({E(d['a'])} {d['op']} {E(d['b'])})"
        if DECO and DECO.random()<0.1: use('as'); return f"({r} as {ty()})"
        if DECO and DECO.random()<0.05: use('nonnull'); return f"({r}!)"
        return r
    if t=='logical':
        return f"({E(d['a'])} {d['op']} {E(d['b'])})"
    if t=='unary':
        sp=' ' if d['op'] in('typeof','void') else ''
        a=P['nodes'][d['a']-1]
        if d['op']=='typeof' and a['ty']=='var':
            # `typeof x` must not throw for an unresolvable x, and an erased assertion around x must not change that
            if DECO and not av('typeof_asserted_reference') and DECO.random()<0.3: use('typeof_asserted_reference'); return f"(typeof ({a['name']} as any))"
            return f"(typeof {a['name']})"
        return f"({d['op']}{sp}{E(d['a'])})"
    if t=='update': return f"(++{d['name']})".replace('++',d['op']) if d['prefix'] else f"({d['name']}{d['op']})"
    if t=='cond': return f"({E(d['a'])} ? {E(d['b'])} : {E(d['c'])})"
    if t=='new':
        return f"(new ({E(d['f'])})({', '.join(E(a) for a in d['args'])}))"
    if t=='call':
        c=f"{E(d['f'])}({', '.join(E(a) for a in d['args'])})"
        return f"(await {c})" if ASYNC else c
    if t=='func':
        def par(p):
            if DECO and DECO.random()<0.6:
                if DECO.random()<0.2: use('optional_param'); return p+'?: '+ty()
                use('ann:param'); return p+': '+ty()
            return p
        dfs=d.get('defs') or [0]*len(d['params'])
        def pard(p,i):      # a parameter with an initialiser cannot also carry `?`
            if dfs[i]: return (p+': '+ty() if (DECO and DECO.random()<0.4) else p)+' = '+E(dfs[i])
            return par(p)
        ps=', '.join(pard(p,i) for i,p in enumerate(d['params']))
        a='async ' if ASYNC else ''
        rt=''
        if DECO and DECO.random()<0.4: use('ann:return_arrow' if d['arrow'] else 'ann:return'); rt=': '+DECO.choice(['any','unknown','void | any'])
        bd=P['nodes'][d['body']-1]
        if d['arrow'] and bd['ty']=='block' and len(bd['xs'])==1 and P['nodes'][bd['xs'][0]-1]['ty']=='return' and P['nodes'][bd['xs'][0]-1].get('a'):
            # concise body: ( params ) => ( expression )
            return f"({a}({ps}){rt} => ({E(P['nodes'][bd['xs'][0]-1]['a'])}))"
        if DECO:
            gen=DECO.choice(['','','<T>','<T, U extends object = {}>']) if not d['arrow'] else ''
            if gen: use('generic_fn')
            if d['arrow']: return f"({a}({ps}){rt} => {pr(P,d['body'],ind)})"
            return f"({a}function{gen}({ps}){rt} {pr(P,d['body'],ind)})"
        if d['arrow']: return f"({a}({ps}) => {pr(P,d['body'],ind)})"
        return f"({a}function({ps}) {pr(P,d['body'],ind)})"
    # statements
    if t=='exprstmt': return f"{I}{E(d['a'])};\n"
    if t=='log': return f"{I}LOG({E(d['a'])});\n"
    if t=='decl':
        ann=''
        if DECO and DECO.random()<0.6: use('ann:var'); ann=': '+ty()
        pre=''
        if DECO and DECO.random()<0.08:
            use('interface'); extra=''
            if DECO.random()<0.3: use('interface_construct_sig'); extra+=f" new (x: T): I{n};"
            if not av('interface_call_sig') and DECO.random()<0.3: use('interface_call_sig'); extra+=" (y: number): T;"
            if not av('interface_generic_call_sig') and DECO.random()<0.15: use('interface_generic_call_sig'); extra+=" <U>(y: U): T;"
            pre=f"{I}interface I{n}<T = any> extends Object {{ a: number; m(x: string): void; readonly [k: string]: any;{extra} }}\n"
        if DECO and DECO.random()<0.08: use('type_alias'); pre+=f"{I}type A{n}<T = any> = T | {ty()};\n"
        if DECO and DECO.random()<0.04: use('declare_const'); pre+=f"{I}declare const zz{n}: {ty()};\n"
        if DECO and DECO.random()<0.03: use('declare_function'); pre+=f"{I}declare function zf{n}<T>(a: T, b?: {ty()}): void;\n"
        if DECO and DECO.random()<0.03: use('definite_assignment'); ann = ann or ': any'
        if DECO and not av('definite_bang') and d['kind']=='let' and not d['a'] and DECO.random()<0.2: use('definite_bang'); ann='!'+(ann or ': any')
        return pre+f"{I}{d['kind']} {d['name']}{ann}" + (f" = {E(d['a'])}" if d['a'] else '') + ";\n"
    if t=='block':
        return "{\n" + ''.join(prs(P,x,ind+1) for x in d['xs']) + I + "}"
    if t=='if':
        s=f"{I}if ({E(d['a'])}) {pr(P,d['b'],ind)}"
        if d['c']: s+=f" else {pr(P,d['c'],ind)}"
        return s+"\n"
    if t=='classdecl':
        KS=lambda codes: ''.join(chr(c) for c in codes)
        def meth(key, fn, static):
            fd=P['nodes'][fn-1]
            return f"{I}  {'static ' if static else ''}{KS(key)}({', '.join(fd['params'])}) {pr(P,fd['body'],ind+1)}\n"
        out=f"{I}class {d['name']}{' extends '+d['parent'] if d['parent'] else ''} {{\n"
        for k,v in zip(d['fkeys'],d['finit']): out+=f"{I}  {KS(k)}{' = '+E(v) if v else ''};\n"
        for k,v in zip(d['skeys'],d['sinit']): out+=f"{I}  static {KS(k)} = {E(v)};\n"
        if d['hasctor']: out+=f"{I}  constructor({', '.join(d['params'])}) {pr(P,d['body'],ind+1)}\n"
        for k,fn in zip(d['mkeys'],d['mfuncs']): out+=meth(k,fn,False)
        for k,fn in zip(d['smkeys'],d['smfuncs']): out+=meth(k,fn,True)
        for k,gf,sf in zip(d.get('akeys',[]),d.get('agets',[]),d.get('asets',[])):
            if gf: out+=f"{I}  get {KS(k)}() {pr(P,P['nodes'][gf-1]['body'],ind+1)}\n"
            if sf: out+=f"{I}  set {KS(k)}({P['nodes'][sf-1]['params'][0]}) {pr(P,P['nodes'][sf-1]['body'],ind+1)}\n"
        return out+f"{I}}}\n"
    if t=='ddecl':
        parts=[]
        for j,nm in enumerate(d['names']):
            isrest=d['rest'] and j==len(d['names'])-1
            if isrest: parts.append('...'+nm); continue
            dflt=(' = '+E(d['defs'][j])) if d['defs'][j] else ''
            if d['shape']=='arr': parts.append(nm+dflt)
            else: parts.append(json.dumps(''.join(chr(c) for c in d['keys'][j]))+': '+nm+dflt)
        pat=('['+', '.join(parts)+']') if d['shape']=='arr' else ('{ '+', '.join(parts)+' }')
        return f"{I}{d['kind']} {pat} = {E(d['a'])};\n"
    if t=='for':
        if d['init'] and P['nodes'][d['init']-1]['ty']=='decl':
            di=P['nodes'][d['init']-1]; h=f"{di['kind']} {di['name']}" + (f" = {E(di['a'])}" if di['a'] else '')
        else: h=E(d['init']) if d['init'] else ''
        return f"{I}for ({h}; {E(d['test']) if d['test'] else ''}; {E(d['upd']) if d['upd'] else ''}) {pr(P,d['body'],ind)}\n"
    if t=='switch':
        s=f"{I}switch ({E(d['a'])}) {{\n"
        for tst,xs in zip(d['tests'],d['bodies']):
            s+=f"{I}  case {E(tst)}:\n" if tst else f"{I}  default:\n"
            s+=''.join(prs(P,x,ind+2) for x in xs)
        return s+f"{I}}}\n"
    if t=='while': return f"{I}while ({E(d['a'])}) {pr(P,d['b'],ind)}\n"
    if t=='dowhile': return f"{I}do {pr(P,d['b'],ind)} while ({E(d['a'])});\n"
    if t=='break': return f"{I}break{' '+d['label'] if d['label'] else ''};\n"
    if t=='continue': return f"{I}continue{' '+d['label'] if d['label'] else ''};\n"
    if t=='return': return f"{I}return{' '+E(d['a']) if d['a'] else ''};\n"
    if t=='throw': return f"{I}throw {E(d['a'])};\n"
    if t=='try':
        s=f"{I}try {pr(P,d['a'],ind)}"
        if d['b']: s+=f" catch{' ('+d['cname']+')' if d['cname'] else ''} {pr(P,d['b'],ind)}"
        if d['c']: s+=f" finally {pr(P,d['c'],ind)}"
        return s+"\n"
    if t=='funcdecl':
        def par(p):
            if DECO and DECO.random()<0.6: use('ann:param'); return p+': '+ty()
            return p
        dfs=d.get('defs') or [0]*len(d['params'])
        ps=', '.join(((par(p)+' = '+E(dfs[i])) if dfs[i] else par(p)) for i,p in enumerate(d['params']))
        gen=DECO.choice(['','<T>','<K extends keyof any, V = unknown>']) if DECO else ''
        if gen: use('generic_fn')
        rt=''
        if DECO and DECO.random()<0.4: use('ann:return'); rt=': '+DECO.choice(['any','unknown'])
        star='*' if d.get('gen') else ''
        if DECO and not av('overload') and not star and DECO.random()<0.1:
            use('overload'); I2=I
            return f"{I}function {d['name']}({', '.join(p+': number' for p in d['params'])}): void;\n{I}function {d['name']}{gen}({ps}){rt} {pr(P,d['body'],ind)}\n"
        return f"{I}{'async ' if (ASYNC and not star) else ''}function{star} {d['name']}{gen}({ps}){rt} {pr(P,d['body'],ind)}\n"
    if t=='labeled':
        bd=pr(P,d['body'],ind)
        return f"{I}{d['label']}: {bd.lstrip() if P['nodes'][d['body']-1]['ty']!='block' else bd+chr(10)}"
    if t=='program': return ''.join(prs(P,x,ind) for x in d['xs'])
    raise Exception(t)
def prs(P,n,ind):
    d=P['nodes'][n-1]
    if d['ty']=='block': return '  '*ind+pr(P,n,ind)+"\n"
    return pr(P,n,ind)

if __name__=='__main__':
    seed=int(sys.argv[1]); n=int(sys.argv[2]); out=sys.argv[3]
    rng=random.Random(seed)
    with open(out,'w') as f:
        for i in range(n):
            g=Gen(rng); g.orders=(len(sys.argv)>4 and 'orders' in sys.argv[4]); g.objects=(len(sys.argv)>4 and 'objects' in sys.argv[4]); g.gens=(len(sys.argv)>4 and 'gens' in sys.argv[4]); P=g.program(i)
            f.write(json.dumps(P)+"\n")
