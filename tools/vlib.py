"""Shared plumbing for the checks in /verif/tools/checks: building the harness, running TLC,
reading TLC's printed JSON, known findings, VIOLATION lines and evidence files.

Exit-code contract (DESIGN.md 1.4): 0 held / 1 VIOLATION printed / 2 tool error or timeout.
"""
import json, os, re, shutil, subprocess, sys, time, hashlib

ROOT = os.path.dirname(os.path.dirname(os.path.abspath(__file__)))
BUILD = os.path.join(ROOT, "build")
SPEC = os.path.join(ROOT, "spec")
HARNESS = os.path.join(ROOT, "harness")
EVID = os.path.join(ROOT, "evidence")
REPLAY = os.path.join(ROOT, "build", "replay")
KNOWN = os.path.join(ROOT, "known_findings.json")
NCPU = os.cpu_count() or 4


def log(*a):
    print(*a, flush=True)


class ToolError(Exception):
    pass


def tool_error(msg):
    log("TOOL-ERROR:", msg)
    sys.exit(2)


def seed():
    try:
        return int(os.environ.get("VERIF_SEED", "1"))
    except ValueError:
        return 1


# --------------------------------------------------------------------------- harness build
def cargo_env():
    env = dict(os.environ)
    env["CARGO_NET_OFFLINE"] = "true"
    env.pop("RUSTFLAGS", None)  # .cargo/config.toml supplies --cfg tsrun_verif
    return env


def build_harness(timeout=1500):
    """(Re)builds vrunner against /repo's current working tree with the hooks on."""
    os.makedirs(BUILD, exist_ok=True)
    lock = os.path.join(HARNESS, "Cargo.lock")
    if not os.path.exists(lock):
        shutil.copy("/repo/Cargo.lock", lock)
    t0 = time.time()
    try:
        r = subprocess.run(["cargo", "build", "--release", "--offline"], cwd=HARNESS, env=cargo_env(),
                           stdout=subprocess.PIPE, stderr=subprocess.STDOUT, text=True, timeout=timeout)
    except subprocess.TimeoutExpired:
        tool_error("cargo build timed out")
    if r.returncode != 0:
        log(r.stdout[-4000:])
        tool_error("harness build failed (the tree in /repo does not compile with --cfg tsrun_verif?)")
    exe = os.path.join(BUILD, "target", "release", "vrunner")
    if not os.path.exists(exe):
        tool_error("vrunner binary missing after build")
    log("harness built in %.1fs" % (time.time() - t0))
    return exe


# --------------------------------------------------------------------------- TLC
TLC_JAR = "/opt/veriftools/tla/tla2tools.jar"


def tlc_cmd(module, cfg, metadir, workers=8, simulate=None, depth=None, seed_=None, coverage=False, extra=()):
    cmd = ["tlc", "-workers", str(workers), "-metadir", metadir, "-cleanup", "-noGenerateSpecTE", "-config", cfg]
    if simulate is not None:
        cmd += ["-simulate", "num=%d" % simulate]
    if depth is not None:
        cmd += ["-depth", str(depth)]
    if seed_ is not None:
        cmd += ["-seed", str(seed_)]
    if coverage:
        cmd += ["-coverage", "1"]
    cmd += list(extra)
    cmd.append(module)
    return cmd


def tlc_env(extra_java="", env=None, heap=None):
    e = dict(os.environ)
    opts = e.get("JAVA_TOOL_OPTIONS", "")
    if heap:
        opts += " -Xmx%s" % heap
    if extra_java:
        opts += " " + extra_java
    if opts.strip():
        e["JAVA_TOOL_OPTIONS"] = opts.strip()
    if env:
        e.update(env)
    return e


STAT_RE = re.compile(r"(\d+) states generated, (\d+) distinct states found")
SIM_RE = re.compile(r"The number of states generated: (\d+)")


class TlcResult:
    def __init__(self, rc, lines):
        self.rc = rc
        self.lines = lines
        self.generated = 0
        self.distinct = 0
        self.depth = 0
        for l in lines:
            m = STAT_RE.search(l)
            if m:
                self.generated, self.distinct = int(m.group(1)), int(m.group(2))
            m = SIM_RE.search(l)
            if m:
                self.generated = max(self.generated, int(m.group(1)))
                self.distinct = max(self.distinct, int(m.group(1)))
            m = re.search(r"depth of the complete state graph search is (\d+)", l)
            if m:
                self.depth = int(m.group(1))
        self.ok = rc == 0 and any("No error has been found" in l or "Finished in" in l for l in lines)

    def prints(self, tag):
        return parse_prints(self.lines, tag)

    def violated(self):
        """names of invariants / properties TLC reported as violated"""
        out = []
        for l in self.lines:
            m = re.search(r"Invariant (\S+) is violated", l)
            if m:
                out.append(m.group(1))
            m = re.search(r"Temporal property (\S+) was violated", l)
            if m:
                out.append(m.group(1))
            elif "Temporal properties were violated" in l:
                out.append("<temporal>")
            m = re.search(r"Action property (\S+) is violated", l)
            if m:
                out.append(m.group(1))
        return out

    def tail(self, n=40):
        skip = ("Parsing file", "Semantic processing", "Linting of", '<<"')
        return "\n".join(l for l in self.lines if not l.startswith(skip))[-4000:]


def parse_print_line(line, tag):
    pre = '<<"%s", ' % tag
    if not line.startswith(pre):
        return None
    body = line.rstrip()
    if not body.endswith(">>"):
        return None
    body = body[len(pre):-2]
    try:
        return json.loads(json.loads(body))
    except Exception:
        return None


def parse_prints(lines, tag):
    out = []
    for l in lines:
        d = parse_print_line(l, tag)
        if d is not None:
            out.append(d)
    return out


def run_tlc(module, cfg, name, workers=8, timeout=900, cwd=SPEC, env=None, heap=None, java="", accept=(0, 12, 13), **kw):
    """Runs TLC; returns TlcResult. Timeout or crash (rc not in {0, 12, 13}) is a tool error."""
    metadir = os.path.join(BUILD, "tlc", name)
    shutil.rmtree(metadir, ignore_errors=True)
    os.makedirs(metadir, exist_ok=True)
    cmd = tlc_cmd(module, cfg, metadir, workers=workers, **kw)
    t0 = time.time()
    try:
        r = subprocess.run(cmd, cwd=cwd, env=tlc_env(java, env, heap), stdout=subprocess.PIPE,
                           stderr=subprocess.STDOUT, text=True, timeout=timeout)
    except subprocess.TimeoutExpired:
        tool_error("TLC timed out on %s/%s after %ds" % (module, cfg, timeout))
    lines = r.stdout.splitlines()
    res = TlcResult(r.returncode, lines)
    res.wall = time.time() - t0
    res.cmd = " ".join(cmd)
    shutil.rmtree(metadir, ignore_errors=True)
    if r.returncode not in accept:
        log(res.tail())
        tool_error("TLC failed (rc=%d) on %s/%s" % (r.returncode, module, cfg))
    return res


def write_cfg(name, text):
    d = os.path.join(BUILD, "cfg")
    os.makedirs(d, exist_ok=True)
    p = os.path.join(d, name)
    with open(p, "w") as f:
        f.write(text)
    return p


# --------------------------------------------------------------------------- findings / verdict
def load_known(prop):
    try:
        k = json.load(open(KNOWN))
    except FileNotFoundError:
        return []
    return [f for f in k.get("findings", []) if f.get("property") == prop and f.get("status") == "open"]


def key_matches(key, feat):
    """A finding key is a conjunction: every key field must equal the feature (or be contained in it
    when the feature is a list, or contain it when the key field is a list)."""
    for k, v in key.items():
        if k not in feat:
            return False
        fv = feat[k]
        if isinstance(v, list) and not isinstance(fv, list):
            if fv not in v:
                return False
        elif isinstance(fv, list) and not isinstance(v, list):
            if v not in fv:
                return False
        else:
            if fv != v:
                return False
    return True


class Check:
    def __init__(self, prop, level="model_checking"):
        self.prop = prop
        self.level = level
        self.tier = os.environ.get("VERIF_TIER", "quick")
        self.seed = seed()
        self.t0 = time.time()
        self.violations = []
        self.known_hit = {}
        self.known = load_known(prop)
        self.cov = {"states": 0, "transitions": 0, "traces_validated_against_impl": 0, "samples": [],
                    "evaluations": 0, "distinct_nontrivial": 0, "rule": ""}
        self.assumptions = []
        os.makedirs(REPLAY, exist_ok=True)
        os.makedirs(EVID, exist_ok=True)
        # stale evidence must not survive a crashed run
        try:
            os.remove(self.evidence_path())
        except FileNotFoundError:
            pass

    def evidence_path(self):
        return os.path.join(EVID, "%s.json" % self.prop)

    def add_tlc(self, res):
        self.cov["states"] += res.distinct
        self.cov["transitions"] += res.generated
        self.cov.setdefault("tlc_runs", []).append(
            {"cmd": res.cmd.replace(ROOT + "/", ""), "generated": res.generated, "distinct": res.distinct,
             "depth": res.depth, "wall_s": round(res.wall, 1)})

    def sample(self, s, cap=6):
        if len(self.cov["samples"]) < cap:
            self.cov["samples"].append(s)

    def report(self, feat, replay_obj, what):
        """A rejection. `feat` is the feature record used to match known findings."""
        for f in self.known:
            if key_matches(f.get("key", {}), feat):
                self.known_hit.setdefault(f["id"], {"finding": f, "count": 0})
                self.known_hit[f["id"]]["count"] += 1
                return "known"
        n = len(self.violations)
        h = hashlib.sha1(json.dumps(replay_obj, sort_keys=True, default=str).encode()).hexdigest()[:10]
        path = os.path.join(REPLAY, "%s-%s.json" % (self.prop, h))
        if n < 40:
            with open(path, "w") as fh:
                json.dump({"property": self.prop, "what": what, "features": feat, "replay": replay_obj}, fh, indent=1, default=str)
        self.violations.append({"what": what, "feat": feat, "replay": path})
        if n < 25:
            log("VIOLATION property=%s replay=%s" % (self.prop, path))
            log("  " + what[:600])
        return "violation"

    def finish(self, extra=None):
        for fid, h in sorted(self.known_hit.items()):
            f = h["finding"]
            log("KNOWN-FINDING: property=%s %s (%s; %d occurrence(s) this run)" % (self.prop, fid, f.get("description", ""), h["count"]))
        cov = dict(self.cov)
        if extra:
            cov.update(extra)
        if not cov["samples"]:
            cov["samples"] = ["<none recorded>"]
        cov["known_findings_hit"] = {k: v["count"] for k, v in self.known_hit.items()}
        ev = {"property_id": self.prop, "tier": self.tier if self.tier in ("quick", "thorough") else "quick",
              "seed": self.seed, "level": self.level, "coverage": cov, "assumptions": self.assumptions,
              "wall_s": round(time.time() - self.t0, 1), "violations": len(self.violations)}
        with open(self.evidence_path(), "w") as fh:
            json.dump(ev, fh, indent=1, default=str)
        if self.violations:
            log("%s: %d violation(s)" % (self.prop, len(self.violations)))
            sys.exit(1)
        log("%s: held on everything explored (%.1fs)" % (self.prop, time.time() - self.t0))
        sys.exit(0)
