"""Scenario synthesis for C11 / C14: death programs (by nesting kind and death mode), observers, repeated bodies."""
HDR = 'import { LOG, ERR } from "verif:host";\n'
HDRA = 'import { LOG, ERR } from "verif:host";\nimport { order } from "tsrun:host";\n'
INNER = ["inner_b", "inner_c", "inner_f", "inner_t", "inner_fin", "inner_g", "inner_x", "inner_a", "inner_i", "inner_l", "inner_m", "inner_k", "inner_cls"]

# nesting kind -> (template with DIE placeholder, needs_async)
NEST = {
    "block":    ('{ let inner_b = 1; { let inner_c = 2; LOG(inner_b + inner_c); DIE } }', False),
    "call":     ('function r(n: number): number { let inner_f = n; if (n === 0) { LOG(inner_f); DIE return 0; } return r(n - 1) + 1; } LOG(r(DEPTH));', False),
    "tryfin":   ('try { let inner_t = 1; LOG(inner_t); DIE } finally { let inner_fin = 2; LOG(inner_fin); }', False),
    "trycatch": ('try { try { let inner_t = 1; LOG(inner_t); DIE } finally { LOG(2); } } catch (inner_k) { LOG(3); DIE }', False),
    "generator":('function* g() { let inner_g = 1; yield 1; LOG(inner_g); DIE yield 2; } for (const inner_x of g()) { LOG(inner_x); }', False),
    "loop":     ('for (let inner_i = 0; inner_i < 3; inner_i++) { let inner_l = inner_i; LOG(inner_l); if (inner_i === 1) { DIE } }', False),
    "method":   ('{ class inner_cls { m(inner_m: number) { const o = { f: () => { LOG(inner_m); DIE } }; o.f(); } } new inner_cls().m(4); }', False),
    "callback": ('[1, 2, 3].forEach((inner_m) => { LOG(inner_m); if (inner_m === 2) { DIE } });', False),
    # suspended on a promise nobody will settle (not an order): only meaningful when the host abandons the run
    "await_never": ('async function an() { let inner_a = 1; try { await new Promise(() => {}); DIE } finally { LOG(0); } return inner_a; } LOG(await an());', True),
    "await_top":   ('let inner_b = 1; { let inner_c = 2; LOG(inner_b); await new Promise(() => {}); DIE }', True),
    "async":    ('async function af() { let inner_a = 1; LOG(await order(1)); { let inner_c = 2; DIE } return inner_a; } LOG(await af());', True),
}
DIE = {"complete": "", "throw": 'throw new Error("die");', "abandon": ""}


NEVER_COMPLETES = {"await_never", "await_top"}      # these runs can only be abandoned


def death_program(nest, mode, depth=3):
    tpl, needs_async = NEST[nest]
    body = tpl.replace("DIE", DIE[mode]).replace("DEPTH", str(depth))
    # every dead program also exports something first: the export table of a dead run must not reach a later run
    return (HDRA if needs_async else HDR) + "export const dead_e = 1; export function dead_f() { return 2; }\n" + body + "\n", needs_async


def observer():
    probes = ", ".join("typeof %s" % n for n in INNER)
    src = HDR + "export const ob_e = 1; export function ob_f() { return 2; }\n" + ("LOG([%s].join(\",\"));\n" % probes) + \
        'let ob1 = 5; { let ob2 = ob1 + 1; LOG(ob2); }\n' \
        'function obf(n: number): number { return n <= 0 ? 0 : n + obf(n - 1); } LOG(obf(5));\n' \
        'try { throw 1; } catch (e) { LOG(e); } finally { LOG(2); }\n' \
        'function* obg() { yield 1; yield 2; } LOG([...obg()].length);\n' \
        'LOG(typeof ob1);\n'
    exp = ["L|s:" + ",".join(str(ord(c)) for c in ",".join(["undefined"] * len(INNER))), "L|n:6", "L|n:15", "L|n:1", "L|n:2", "L|n:2",
           "L|s:" + ",".join(str(ord(c)) for c in "number")]
    return src, exp


OBSERVER_EXPORTS = ["ob_e", "ob_f"]
