"""MiniJS pipeline shared by C01 C02 C03 C07 C11 C14 C19 C20:
   generated node tables --TLC(MiniJS.tla)--> expected observable trace (+ ghost features)
                         --printer--> TypeScript/JavaScript source
                         --vrunner prog--> trace recorded from the real interpreter
                         --node (optional)--> self-validation of the specification
The verdict is always 'the recorded trace is / is not the behaviour MiniJS.tla assigns to the program'."""
import json, os, shutil, subprocess, sys, time, collections
import vlib
import minijs_gen as G
from vlib import log

NODE = shutil.which("node")
STALL = 25      # seconds without a finished job before a runner child is considered hung
WORK = os.path.join(vlib.BUILD, "minijs")


# ------------------------------------------------------------------ canonical values (must match prog.rs::canon)
def canon(v):
    t = v["t"]
    if t == "undef": return "U"
    if t == "null": return "N"
    if t == "bool": return "b:" + ("true" if v["b"] else "false")
    if t == "num": return "n:%d" % v["v"]
    if t == "nan": return "nan"
    if t == "nzero": return "n:-0"
    if t == "half": return ("n:%d" % (v["h"] // 2)) if v["h"] % 2 == 0 else ("n:%s%d.5" % ("-" if v["h"] < 0 else "", abs(v["h"]) // 2))
    if t == "inf": return "n:Infinity" if v["s"] == 1 else "n:-Infinity"
    if t == "str": return "s:" + ",".join(str(c) for c in v["s"])
    if t == "fun": return "fn"
    if t == "err": return "err:" + v["kind"]
    if t == "gen": return "x:gen"
    if t == "deep": return "..."
    if t == "arr": return "a[" + ";".join(canon(e) for e in v["e"]) + "]"
    if t == "obj":
        items = sorted((list(k), canon(x)) for k, x in zip(v["ks"], v["vs"]))
        return "o{" + ";".join(",".join(str(c) for c in k) + "=" + x for k, x in items) + "}"
    return "?" + t


def expected_events(rec):
    """spec record -> list of canonical event strings, or None if the program left the modelled fragment"""
    if rec["fin"] != "done" or any(ev["e"] == "unmodelled" for ev in rec["out"]):
        return None
    out = []
    for ev in rec["out"]:
        if ev["e"] == "log": out.append("L|" + canon(ev["v"]))
        elif ev["e"] == "order": out.append("O|" + canon(ev["v"]))
        elif ev["e"] == "error": out.append("E|" + canon(ev["v"]))
    return out


# ------------------------------------------------------------------ TLC as the oracle
def run_spec(progs, name, workers=10, timeout=1800):
    os.makedirs(WORK, exist_ok=True)
    pf = os.path.join(WORK, name + "_progs.ndjson")
    with open(pf, "w") as f:
        for P in progs:
            f.write(json.dumps(P) + "\n")
    cfg = vlib.write_cfg("MiniJS.cfg", "SPECIFICATION Spec\nINVARIANT Report\nCHECK_DEADLOCK FALSE\n")
    res = vlib.run_tlc("MiniJS.tla", cfg, "minijs_" + name, workers=workers, timeout=timeout, heap="10g", java="-Xss512m", env={"PROGS": pf})
    if not res.ok:
        vlib.tool_error("MiniJS.tla evaluation failed (specification error on a generated program):\n" + res.tail())
    exp = {}
    for d in res.prints("R"):
        exp[d["id"]] = d
    missing = [P["id"] for P in progs if P["id"] not in exp]
    if missing:
        vlib.tool_error("MiniJS.tla produced no result for programs %s" % missing[:5])
    return res, exp


# ------------------------------------------------------------------ printing
JS_CANON = r"""
function __C(v,d){ if(v===undefined)return 'U'; if(v===null)return 'N'; const t=typeof v;
 if(t==='boolean')return 'b:'+v;
 if(t==='number'){ if(v!==v)return 'nan'; if(v===0)return (1/v<0)?'n:-0':'n:0'; if(v===Infinity)return 'n:Infinity'; if(v===-Infinity)return 'n:-Infinity'; return 'n:'+v; }
 if(t==='string'){const a=[];for(let i=0;i<v.length;i++)a.push(v.charCodeAt(i));return 's:'+a.join(',');}
 if(t==='symbol')return 'sym'; if(t==='function')return 'fn';
 if(Array.isArray(v)){ if(d===0)return '...'; return 'a['+Array.from(v,(e)=>__C(e,d-1)).join(';')+']'; }
 const tg=Object.prototype.toString.call(v);
 if(tg==='[object Error]')return 'err:'+v.name;
 if(tg==='[object Map]')return 'x:map'; if(tg==='[object Set]')return 'x:set'; if(tg==='[object Promise]')return 'x:promise';
 if(tg==='[object Generator]')return 'x:gen';
 if(d===0)return '...';
 const items=Object.keys(v).map(k=>{const a=[];for(let i=0;i<k.length;i++)a.push(k.charCodeAt(i));const ds=Object.getOwnPropertyDescriptor(v,k);return [a,(ds&&(ds.get||ds.set))?'acc':__C(v[k],d-1)];});
 items.sort((x,y)=>{const a=x[0],b=y[0];for(let i=0;i<Math.min(a.length,b.length);i++){if(a[i]!==b[i])return a[i]-b[i];}if(a.length!==b.length)return a.length-b.length;return x[1]<y[1]?-1:x[1]>y[1]?1:0;});
 return 'o{'+items.map(x=>x[0].join(',')+'='+x[1]).join(';')+'}'; }
"""


def body(P, ind=1):
    return G.pr(P, P["root"], ind)


def ts_source(P, asyncmode=False):
    """the program as run on tsrun: logging goes to host-native functions"""
    G.ASYNC = asyncmode
    b = body(P)
    G.ASYNC = False
    if asyncmode:
        return ('import { LOG, ERR } from "verif:host";\nimport { order } from "tsrun:host";\n'
                'try {\n' + b + '} catch (e) { ERR(e); }\n')
    return ('import { LOG, ERR } from "verif:host";\n(function () { "use strict"; try {\n' + b + '} catch (e) { ERR(e); } })();\n')


def node_source(P, asyncmode=False):
    pid = P["id"]
    G.ASYNC = asyncmode
    b = body(P)
    G.ASYNC = False
    if asyncmode:
        return ("await (async function(){ \"use strict\"; var __k=0; const __r=%s; function LOG(v){ console.log('%s|L|'+__C(v,3)); }\n"
                " async function order(p){ console.log('%s|O|'+__C(p,3)); const r=__r[(__k++)%%__r.length]; if (r.k==='err') throw 'TypeError: boom'; return r.v; }\n"
                " try {\n%s } catch (e) { console.log('%s|E|'+__C(e,3)); }\n})();\n" % (json.dumps(P.get("resp", [])), pid, pid, b, pid))
    return ("(function(){ \"use strict\"; function LOG(v){ console.log('%s|L|'+__C(v,3)); }\n try {\n%s } catch (e) { console.log('%s|E|'+__C(e,3)); }\n})();\n" % (pid, b, pid))


# ------------------------------------------------------------------ reference engine (validates the SPEC, never the verdict)
def run_node(progs, name, asyncmode=False, timeout=600):
    """returns {id: [events]} or None when node is unavailable.  Every program is compiled separately
    (Function / AsyncFunction constructor) so that an early SyntaxError in one program does not hide the others."""
    if not NODE:
        return None
    os.makedirs(WORK, exist_ok=True)
    got = collections.defaultdict(list)
    CH = 150
    driver = JS_CANON + """
const fs=require('fs'); const AsyncFunction=(async function(){}).constructor;
const vm=require('vm');
const progs=JSON.parse(fs.readFileSync(process.argv[2],'utf8'));
(async()=>{ for(const p of progs){ try {
   if (p.a) { const f = new AsyncFunction('__C', p.src); await f(__C); }
   else { vm.runInNewContext('(function(__C){'+p.src+'})', {console}, {timeout: 1500})(__C); }
 } catch(e) { console.log(p.id+'|Z|'+(e&&e.name)); } } })();
"""
    dpath = os.path.join(WORK, "node_driver.js")
    open(dpath, "w").write(driver)
    for i in range(0, len(progs), CH):
        path = os.path.join(WORK, "%s_node_%d.json" % (name, i))
        with open(path, "w") as f:
            json.dump([{"id": P["id"], "a": asyncmode, "src": node_source(P, asyncmode)} for P in progs[i:i + CH]], f)
        try:
            r = subprocess.run([NODE, dpath, path], capture_output=True, text=True, timeout=timeout)
        except subprocess.TimeoutExpired:
            log("note: node timed out on chunk %d; spec self-validation skipped for it" % i); continue
        if r.returncode != 0 and not r.stdout:
            log("note: node failed on chunk %d (%s)" % (i, r.stderr[:300])); continue
        for l in r.stdout.splitlines():
            if "|" in l:
                a, rest = l.split("|", 1)
                try: got[int(a)].append(rest)
                except ValueError: pass
    return got


# ------------------------------------------------------------------ the implementation under test
def run_jobs(exe, sub, jobs, nproc=12, timeout=900, max_hangs=None):
    """runs ndjson jobs through `vrunner <sub>` in nproc child processes; a crashed child (abort, stack overflow) loses
    only the job it was executing, which is reported with status CRASH."""
    os.makedirs(WORK, exist_ok=True)
    shards = [jobs[i::nproc] for i in range(nproc)]
    results = {}
    procs = []
    for sh in shards:
        procs.append(_Shard(exe, sub, sh))
    t0 = time.time()
    pending = [p for p in procs if p.start()]
    while pending:
        nxt = []
        for p in pending:
            if p.poll(results):
                nxt.append(p)
        pending = nxt
        if max_hangs is not None and sum(1 for r in results.values() if r.get("status") == "HANG") >= max_hangs:
            # enough hangs are on record: every further one costs STALL seconds; the remaining jobs are left unmeasured
            for p in pending: p.kill()
            results["__stopped__"] = {"status": "STOPPED"}
            return results
        if time.time() - t0 > timeout:
            for p in pending: p.kill()
            vlib.tool_error("vrunner %s timed out" % sub)
        time.sleep(0.05)
    return results


class _Shard:
    def __init__(self, exe, sub, jobs):
        self.exe, self.sub, self.jobs = exe, sub, list(jobs)
        self.done = 0
        self.proc = None

    def start(self):
        rest = self.jobs[self.done:]
        if not rest:
            return False
        self.inp = os.path.join(WORK, "shard_%d_%d.in" % (os.getpid(), id(self)))
        with open(self.inp, "w") as f:
            for j in rest: f.write(json.dumps(j) + "\n")
        self.outp = self.inp[:-3] + ".out"
        self.proc = subprocess.Popen([self.exe, self.sub], stdin=open(self.inp), stdout=open(self.outp, "w"), stderr=subprocess.DEVNULL)
        self.last_size = -1; self.last_change = time.time()
        return True

    def poll(self, results):
        rc = self.proc.poll()
        if rc is None:
            # watchdog: a job that produces no result for STALL seconds hangs the interpreter (e.g. a call that
            # cannot be bounded by the host): kill the child, the job is reported as HANG
            try: sz = os.path.getsize(self.outp)
            except OSError: sz = 0
            if sz != self.last_size: self.last_size = sz; self.last_change = time.time()
            elif time.time() - self.last_change > STALL:
                self.proc.kill(); self.proc.wait()
            return True
        lines = open(self.outp, encoding="utf-8", errors="surrogatepass").read().split("\n")      # not splitlines(): U+2028, U+0085 ... inside strings are data
        n = 0
        for l in lines:
            try:
                d = json.loads(l)
            except Exception:
                continue
            results[d["id"]] = d; n += 1
        self.done += n
        for f in (self.inp, self.outp):
            try: os.remove(f)
            except OSError: pass
        if self.done < len(self.jobs):
            if rc != 0:
                bad = self.jobs[self.done]
                results[bad["id"]] = {"id": bad["id"], "ev": [], "status": ("HANG" if rc == -9 else "CRASH rc=%s" % rc), "steps": 0}
                self.done += 1
            return self.start()
        return False

    def kill(self):
        try: self.proc.kill()
        except Exception: pass


def impl_events(r):
    """events of a recorded run, comparable with expected_events: L| O| E| ; an uncaught error that escaped the
    wrapper (X|) counts as the error event; the completion value is not part of this comparison"""
    out = []
    for e in r.get("ev", []):
        if e.startswith(("L|", "O|", "E|")): out.append(e)
        elif e.startswith("X|"): out.append("E|" + e[2:])
    return out


def first_diff(a, b):
    k = 0
    while k < min(len(a), len(b)) and a[k] == b[k]:
        k += 1
    return k
