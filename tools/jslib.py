"""JSLib.tla conformance: TLC enumerates every call of the configured built-in families with the result ECMA-262 prescribes;
the same calls run on the real interpreter (and on node, which validates the transcription, never the verdict)."""
import json, os, subprocess, tempfile
import vlib, minijs as M
from vlib import log

UNDEF, NAN, PINF, NINF, NZERO = 9001, 9002, 9003, 9004, 9005
ENAN, EUNDEF = -1000, -1001
QUICK_ARGS = "ArgsQuick"      # defined in JSLib.tla (a .cfg file cannot hold negative numbers)
FULL_ARGS = "ArgsFull"


def js_arg(a):
    if a == UNDEF: return "undefined"
    if a == NAN: return "NaN"
    if a == PINF: return "Infinity"
    if a == NINF: return "-Infinity"
    if a == NZERO: return "-0"
    return ("%d" % (a // 2)) if a % 2 == 0 else ("%s%d.5" % ("-" if a < 0 else "", abs(a) // 2))


def js_elem(e):
    return "NaN" if e == ENAN else "undefined" if e == EUNDEF else str(e)


def js_str(cs):
    return json.dumps("".join(chr(c) for c in cs))


def js_call(c):
    """the JavaScript expression of one case; array cases that mutate report [result, receiver]"""
    m = c["m"]; a = c["args"]
    if m.startswith("M."):
        return "Math.%s(%s)" % (m[2:], ", ".join(js_arg(x) for x in a))
    if m.startswith("s."):
        name = m[2:]; recv = js_str(c["recv"])
        if name in ("indexOf", "lastIndexOf", "includes", "startsWith", "endsWith", "split"):
            args = [js_str(c["q"])] + [js_arg(x) for x in a]
        elif name in ("padStart", "padEnd"):
            args = [js_arg(a[0]), js_str(c["q"])]
        else:
            args = [js_arg(x) for x in a]
        return "(%s).%s(%s)" % (recv, name, ", ".join(args))
    recv = "[" + ", ".join(js_elem(e) for e in c["recv"]) + "]"
    if m in ("indexOf", "lastIndexOf", "includes"):
        args = [js_elem(a[0])] + [js_arg(x) for x in a[1:]]
        return "(%s).%s(%s)" % (recv, m, ", ".join(args))
    if m == "setLength":
        return "((r) => { r.length = %s; return r; })(%s)" % (js_arg(a[0]), recv)
    args = ", ".join(js_arg(x) for x in a)
    if m in ("splice", "toSpliced"):
        return "((r) => { const x = r.%s(%s); return [x, r]; })(%s)" % (m, args, recv)
    return "(%s).%s(%s)" % (recv, m, args)


def program(cases):
    # one function per call: a long straight-line program runs out of VM registers
    return "\n".join("(() => { try { LOG(%s); } catch (e) { LOG(e); } })();" % js_call(c) for c in cases) + "\n"


def enumerate_cases(name, argvals, families, workers=8, timeout=1800):
    cfg = vlib.write_cfg("JSLib_%s.cfg" % name, "SPECIFICATION Spec\nCONSTANTS\n ArgVals <- %s\n Families = {%s}\nINVARIANT Emit\nCHECK_DEADLOCK FALSE\n"
                         % (argvals, ", ".join('"%s"' % f for f in families)))
    res = vlib.run_tlc("JSLib.tla", cfg, "jslib_" + name, workers=workers, timeout=timeout, heap="6g")
    if not res.ok:
        vlib.tool_error("JSLib.tla failed (its own ASSUMEd properties or an evaluation error):\n" + res.tail())
    return res, res.prints("L")


def run_node_src(sources, timeout=600):
    """{index: [events]} from node, or None"""
    if not M.NODE: return None
    out = {}
    d = tempfile.mkdtemp(prefix="jslib", dir=vlib.BUILD)
    try:
        for i, src in enumerate(sources):
            p = os.path.join(d, "p%d.js" % i)
            with open(p, "w") as f:
                f.write(M.JS_CANON + "function LOG(v){ console.log('L|'+__C(v,3)); }\n" + src)
            try:
                r = subprocess.run([M.NODE, p], capture_output=True, text=True, timeout=timeout)
                out[i] = [l for l in r.stdout.split("\n") if l.startswith("L|")]
            except subprocess.TimeoutExpired:
                out[i] = None
    finally:
        subprocess.run(["rm", "-rf", d])
    return out


def check(c, exe, name, argvals, families, chunk=400):
    """returns stats; reports violations through c.report"""
    res, cases = enumerate_cases(name, argvals, families)
    c.add_tlc(res)
    cases.sort(key=lambda x: json.dumps([x["m"], x["recv"], x["q"], x["args"]]))
    chunks = [cases[i:i + chunk] for i in range(0, len(cases), chunk)]
    sources = [program(ch) for ch in chunks]
    jobs = [{"id": i, "source": 'import { LOG, ERR } from "verif:host";\n' + s, "resp": [], "mode": "immediate", "path": "/p/main.ts", "max_steps": 4000000} for i, s in enumerate(sources)]
    got = M.run_jobs(exe, "prog", jobs)
    ng = run_node_src(sources)
    st = dict(cases=len(cases), agree=0, spec_vs_node=0, violations=0, methods=len({x["m"] for x in cases}))
    for i, ch in enumerate(chunks):
        ev = M.impl_events(got[i])
        nev = ng.get(i) if ng is not None else None
        if len(ev) != len(ch):
            c.report({"kind": "jslib", "what": "run-aborted", "chunk": i}, {"source": sources[i], "events": len(ev), "status": got[i].get("status")},
                     "library family %s: the run of %d calls stopped after %d results (status %s %s)\n  next call: %s" % (name, len(ch), len(ev), got[i].get("status"), got[i].get("err") or "", js_call(ch[min(len(ev), len(ch) - 1)])))
            st["violations"] += 1
        for j, case in enumerate(ch[:len(ev)]):
            exp = "L|" + M.canon(case["r"])
            if nev is not None and (j >= len(nev) or nev[j] != exp):
                st["spec_vs_node"] += 1
                if st["spec_vs_node"] <= 5: log("JSLib.tla disagrees with node on %s: spec %s node %s" % (js_call(case), exp, nev[j] if j < len(nev) else None))
                continue
            if ev[j] == exp: st["agree"] += 1; continue
            st["violations"] += 1
            c.report({"kind": "jslib", "method": case["m"], "argc": len(case["args"]), "recv_len": len(case["recv"])},
                     {"source": 'try { LOG(%s); } catch (e) { LOG(e); }\n' % js_call(case), "expected": [exp]},
                     "built-in %s: %s must be %s, got %s" % (case["m"], js_call(case), exp, ev[j]))
    return st
